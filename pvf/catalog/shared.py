"""Obligations one property's check shares with a sibling's.

Some necessary conditions belong to two properties: the rule lives in one rule module (where its mechanism is
anchored) and is *also* decided - from the same source, in the same run - as part of the other property's check.
Each row was added because an independently seeded change that demonstrably breaks the importing property was
reported by the sibling rule only; the reason says why the rule is a necessary condition of the importing property.
Only rule prefixes that hold on today's tree are shared (a sibling's known findings stay the sibling's).

property -> [(sibling, prefix of `rule-id:instance-key`, reason[, "zero-expected" when the sibling rule records violations only])]
"""

SHARED = {
    "C01": [("C03", "R6.", "the whole framed packet reaches the socket: a cursor left over from an earlier iteration drops bytes and the peer loses framing"),
            ("C10", "R5.need-rekey-only-when-idle", "a pending re-key must not interrupt a partly read packet: its bytes would be dropped and the stream lose framing")],
    "C02": [("C03", "R4.mac-size", "the MAC compared is the algorithm's full length: a shorter tag is forgeable by enumeration")],
    "C03": [("C01", "R1.direction", "the outbound framing mode comes from the outbound algorithm's fields"),
            ("C01", "R5.etm-from-name", "encrypt-then-MAC framing follows the MAC name of that direction")],
    "C04": [("C01", "R5.cipher-row", "key and block sizes of the cipher table are the RFC sizes the derivation is asked for"),
            ("C05", "R1.selection", "each direction's keys are derived for the algorithm negotiated for that direction")],
    "C06": [("C04", "R1.", "the exchange hash and session id are what the keys are bound to (RFC 4253 s7.2)"),
            ("C35", "R3.ecdsa-hash-follows-curve-size", "the host-key signature over H is checked with the hash the curve prescribes")],
    "C08": [("C39", "R4.", "the range checks see the integer the peer sent only if mpint decoding keeps its sign")],
    "C11": [("C10", "R2.", "traffic in flight behind a re-key request is tolerated up to the overflow allowance, counted from the request"),
            ("C10", "R5.need-rekey-only-when-idle", "a re-key started while a packet is half read loses traffic in flight")],
    "C12": [("C01", "R2.seq-increment", "the sequence number echoed in UNIMPLEMENTED stays a uint32: the counter wraps modulo 2**32"),
            ("C39", "R1.pair-agreement:add_int", "the sequence number in UNIMPLEMENTED is a plain uint32 whatever its value"),
            ("C09", "R5.reset-under-strict", "sequence numbers stay aligned across NEWKEYS so that the UNIMPLEMENTED reply names the right packet"),
            ("C01", "R2.msg-seqno", "the sequence number echoed in UNIMPLEMENTED is the packet's own"),
            ("C38", "R2.peer-data-operation-guarded:Packetizer.read_message", "reading a packet of an unknown type must not raise: the session would end instead of answering", "zero-expected")],
    "C15": [("C14", "R2.gss-claim-needs-mic-check", "the authenticated flag that opens the gate is granted only after a completed proof check"),
            ("C14", "R1.grant-under-success", "the authenticated flag that opens the gate is set only on the success path")],
    "C17": [("C36", "R2.eq-is-fields", "the comparison that accepts the server's key compares the public numbers themselves, not a hash of them"),
            ("C41", "R2.line-reader", "a known_hosts line that is dropped while loading makes its host unknown, and an accepting policy then lets any key through"),
            ("C41", "R3.", "the host key is looked up under the name the user connected to"),
            ("C36", "R2.fields-cover-the-encoded-public-numbers", "key equality used to accept the server's key compares every public number")],
    "C21": [("C01", "R8.compression-activation", "payload bytes arrive intact only if both ends (re)start compression together"),
            ("C19", "R6.peer-values-stored", "data is addressed to the channel number the peer chose")],
    "C25": [("C20", "R4.close-wakes-all-senders", "every sender blocked in sendall is woken when the channel closes, so that each of them raises"),
            ("C19", "R4.packet-size-sanitised", "a clamped packet size keeps every slice handed to send() non-empty")],
    "C27": [("C42", "R5.", "data handed to write() reaches the stream in the order it was written, buffered or not"),
            ("C42", "R3.", "readline/read keep every buffered byte exactly once")],
    "C28": [("C30", "R6.request-number-under-lock", "prefetch replies are stored under the request that asked for them"),
            ("C27", "R3.seek-arithmetic-and-readahead-dropped", "readv seeks relative to the logical position")],
    "C31": [("C27", "R6.truncate", "truncate(size) by handle sets exactly the size asked for"),
            ("C33", "R2.flag-iff-present", "an attribute is applied exactly when its flag says it is present"),
            ("C33", "R1.group-agreement", "attribute fields are decoded in the order they were encoded")],
    "C33": [("C39", "R1.pair-agreement", "64-bit sizes are read with the encoding they were written with")],
    "C35": [("C36", "R3.ecdsa-coordinates-encoded-alike", "a signature verifies under the key object rebuilt from the public blob only if both coordinates are encoded at full width"),
            ("C39", "R4.", "r and s survive the mpint encoding inside the signature blob")],
    "C38": [("C43", "R1.selection-matches-statement", "every well-formed group-exchange request is answered with a group: a request the selection cannot serve must not end in KeyError on the transport thread"),
            ("C18", "R4.", "server-only requests reaching a client are refused instead of dereferencing a missing server object")],
    "C09": [("C01", "R2.seq-increment", "the rollover guard fires on the wrap of the inbound counter: a KEXINIT after 2**32 packets must not look like the first packet")],
    "C10": [("C11", "R4.gated-sender-tests-gate-under-lock", "user traffic is held back from the moment our KEXINIT goes out: a send that slips past the gate makes the peer drop the session and the re-key never completes")],
    "C13": [("C11", "R5.no-gated-send-under-channel-lock", "a send that can block is never made under the channel lock the teardown path needs: the transport thread could not mark the connection ended")],
    "C20": [("C19", "R5.grant-is-consumption", "what is credited back is what was consumed, discarded data included"),
            ("C21", "R2.addressed-to-remote-id", "credit goes to the channel number the peer chose, or its window never reopens"),
            ("C19", "R6.advertised-is-tracked", "the window the peer is told is the window whose consumption triggers the next credit: otherwise the threshold is never reached")],
    "C32": [("C27", "R5.", "check-file reads through the handle: the hash covers the requested range only if the handle's tracked offset is the file's real one")],
    "C34": [("C39", "R1.pair-agreement:get_text", "the path that is normalised is the text the client sent: a lenient decode lets bytes survive as part of a name")],
    "C45": [("C36", "R3.ecdsa-coordinates-encoded-alike", "the key blob named in the request is the blob the agent listed, both coordinates at full width")],
    "C41": [("C02", "R3.comparator", "a hashed host name matches only the name it was computed from: the comparison helper reports equality for equal strings only")],
}
