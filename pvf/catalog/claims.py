"""What MANIFEST.json claims per property.  tools/gen_manifest.py turns this
into MANIFEST.json; a property without an entry here is listed under
not_applicable with the reason in NOT_APPLICABLE (or 'rule not built')."""

TRUSTED = ("CPython's ast parser; the documented behaviour of struct, "
           "threading, cryptography, nacl; paramiko/*.py is the whole shipped "
           "program; application subclasses / monkey-patching are outside the model")

CLAIMS = {
    "C01": dict(
        text="Partial, structural: seven necessary conditions of faithful packet delivery are decided on "
             "every path of Packetizer.send_message/read_message/read_all and Transport._activate_* "
             "(direction discipline of all *_in/*_out fields, sequence numbers once per packet and "
             "used before they advance, AEAD nonce function and single application, stage order with "
             "stage-to-stage data flow, closed and well-formed algorithm tables, unpad inverts pad, "
             "fragment reassembly). Byte-stream equality through cipher/zlib/socket is not decided.",
        technique="per-mode pruned CFG dominance + reaching definitions + constant-folded tables (static, AST)",
        note="necessary conditions only; cipher/zlib inverses trusted"),
    "C02": dict(
        text="Structural decision of 'no unauthenticated delivery': in each keyed reader mode (classic+MAC, "
             "ETM, AEAD; the mode flags are fixed and infeasible CFG edges pruned) every path of "
             "read_message to a delivered message passes the MAC comparison's equal arm or the AEAD "
             "decrypt, the MAC covers seq||length||the very bytes delivered/decrypted, the comparator is "
             "total and constant-time, and the analysed flag valuations are exactly those "
             "_activate_inbound installs. All paths, not sampled tamperings.",
        technique="flag-specialised CFG dominance, value-origin (reaching definitions), comparator shape check",
        note="MAC/AEAD unforgeability is a cryptographic assumption"),
    "C04": dict(
        text="Structural decision against the RFC (not against the peer): the hash-input layout of "
             "Transport._compute_key (first block and extension blocks, accumulation, truncation), the 12 "
             "letter cells role x direction x {iv,key,mac} extracted by value-origin from _activate_*, "
             "client/server symmetry and in/out separation computed from that table, and the requested "
             "lengths. A symmetric-but-wrong derivation (which peer-to-peer tests cannot see) is a mismatch "
             "with the RFC template.",
        technique="wire-layout extraction in evaluation order + role-specialised reaching definitions, compared with an RFC 4253 7.2 template",
        note="numeric equality with an independent implementation is not decided"),
    "C05": dict(
        text="Structural decision for all 8 categories x 2 roles: which list the first-common-element "
             "selection iterates (must be the client's) and which it tests membership in (the server's), "
             "the KEXINIT direction field used, that the local operand is a disabled-filtered preferred_* "
             "property (server host keys also intersected with held keys), IncompatiblePeer exactly on "
             "empty agreement, pseudo-algorithm stripping, and KEXINIT writer/reader field order. Holds for "
             "all list contents because the rule is about which list is iterated.",
        technique="idiom-recognising selection matrix over role-pruned CFG + reaching definitions + layout extraction",
        note="filter/list-comprehension order semantics of Python trusted"),
    "C06": dict(
        text="Structural decision for every non-GSS engine in _kex_info x both roles: exchange-hash layout "
             "field by field (kind and source; peer values identified by their read position in the "
             "incoming message) against RFC 4253 s8 / 4419 s3 / 5656 s4; client order set_K_H < verify_key "
             "< activate_outbound; fail-closed _verify_key; all reply fields bound; session-id latch "
             "(who-may-write); server signs H with the negotiated algorithm and sends what it hashed; "
             "name<->hash/curve/group tables; handshake typestate.",
        technique="wire-layout extraction + value-origin classification into RFC slots, CFG dominance, who-may-write over the whole package",
        note="equality of the peers' big-integer secrets (DH algebra, library) not decided"),
    "C07": dict(
        text="Structural decision at both verification sites x every key class in _key_info: either the call site "
             "compares the algorithm name read from the very signature blob being verified with the negotiated / "
             "declared algorithm (certificate suffix stripped) and rejects before verifying, or the key class pins "
             "the name itself; the declared algorithm is vetted against the enabled set; sign side writes the "
             "algorithm it hashed with. Found the RSA downgrade defect (fixed).",
        technique="CFG dominance of the verify call by a recognised comparison (value-origin through reaching definitions), per key class via MRO",
        note="cryptographic strength not decided"),
    "C08": dict(
        text="Structural decision with a guard/bound normaliser: in every DH/gex handler (both roles) the peer value "
             "read from the message reaches pow(v, x, p) only on paths where comparisons established 1 <= v <= p-1 "
             "(orientation, strictness and p vs p-1 offsets normalised); gex prime bit length in [1024, 8192] before "
             "x is generated; EC points only through the validating constructor on the engine's curve; X25519 zero "
             "check in constant time; K/H and key activation only after the checks.",
        technique="interval facts from comparison tests + edge-dominance on the CFG, all engines from _kex_info via MRO",
        note="cryptography's point validation trusted"),
    "C09": dict(
        text="Structural decision of the six mechanisms behind strict kex: enforce on IGNORE/DEBUG, expected-packet "
             "dominance of every dispatch with a raising mismatch arm (MessageOrderError when strict), handshake "
             "typestate (every step re-arms the expectation; who-may-write), KEXINIT seqno==0 test, sequence resets "
             "on every NEWKEYS in order, both-sides agreement written only in the marker branch.",
        technique="flag-specialised CFG dominance + who-may-write over the package + per-engine typestate via MRO",
        note="the end-to-end 'no shifted session' statement also needs MAC security"),
    "C10": dict(
        text="Partial, path rules that do not depend on the 2^29 thresholds: counters advance once per packet and are "
             "compared with >=, a reached threshold triggers a rekey unless one is pending, overflow while pending "
             "raises, key installation zeroes counters and the pending flag clears only after both directions, loop "
             "head starts the exchange before every read, NeedRekeyException only from an idle first read, in_kex "
             "settled before the send gate reopens, compression restarts with the keys.",
        technique="threshold-specialised CFG walks (comparison outcomes fixed, infeasible edges pruned) + dominance",
        note="traffic continuity and timing not decided"),
    "C12": dict(
        text="Structural decision on Transport.run with every 'is handled' test fixed false: the fallback arm replies "
             "[byte 3, uint32 m.seqno] with the ungated sender exactly when ptype != UNIMPLEMENTED, is total in the "
             "peer-controlled ptype (no raise/break, no unguarded subscript keyed by it) so the loop continues for "
             "all 256 values, and UNIMPLEMENTED is in no dispatch table. Found the MSG_NAMES[ptype] KeyError (fixed).",
        technique="pruned-CFG region analysis of the dispatch ladder + layout extraction + partial-operation scan",
        note="_send_message failures are connection loss"),
    "C14": dict(
        text="Structural decision: single grant point (who-builds USERAUTH_SUCCESS / who-sets authenticated), result "
             "origin at every _send_auth_result call (application callback or AUTH_FAILED, never a constant success), "
             "publickey success only through the true arm of verify_ssh_sig over the RFC 4252 s7 blob built from the "
             "request's own fields, probe path ends in PK_OK, GSS success claims need a MIC check that returned "
             "normally, username pin rules shared with C16. Found the discarded GSS callback result (fixed).",
        technique="value-origin via reaching definitions + path-restricted dominance + layout extraction",
        note="application callbacks are opaque"),
    "C15": dict(
        text="Structural decision: the _ensure_authed result's no-error arm dominates the only _handler_table dispatch; "
             "with server_mode and not-authenticated fixed the gate returns a refusal object for every transport-table "
             "type above HIGHEST_USERAUTH_MESSAGE_ID (each evaluated); channels are born at two sites only; every "
             "application-consulting call sits in a function reachable only via the gated table or a channel handler; "
             "is_authenticated() shape; server AuthHandler created once.",
        technique="CFG dominance + per-type specialised walks + who-may-call over the package",
        note="Message objects are truthy"),
    "C16": dict(
        text="Structural decision: service and username guards dominate every application callback and reply with "
             "disconnect+return on their failing arms, auth_username is pinned there before any callback (single "
             "writer), the handler object holding pin and counter is created once, disconnect helpers send DISCONNECT "
             "and close, failures increment the counter exactly once (single incrementing writer, never reset) and "
             ">= 10 disconnects after the reply.",
        technique="CFG dominance + who-may-write + normalised comparison",
        note="Transport.close() deactivation checked structurally"),
    "C17": dict(
        text="Structural decision: every auth entry point reaches an AuthHandler only under active && initial_kex_done "
             "(single writer of that flag: NEWKEYS handler), Transport.connect compares the given host key (name and "
             "bytes) with a raising arm before any auth call, SSHClient.connect passes the missing-host-key policy or "
             "the known-key comparison (BadHostKeyException) on every path from start_client to authentication; "
             "RejectPolicy always raises and is the default.",
        technique="role/flag-specialised CFG dominance + who-may-write",
        note="what is physically on the wire is C01-C04"),
    "C18": dict(
        text="Structural decision by fixing the role flag: client-mode global requests touch no application object and "
             "can only be refused (path-sensitive on the local `ok`), client-mode channel opens construct a channel "
             "only behind the three (kind, handler-not-None) gates (path-sensitive on `reject`), the handlers have "
             "exactly the enabling writers, and channel requests without a server object approve only exit-status/"
             "xon-xoff with every application call under `server is not None`.",
        technique="flag-pruned CFG + path-sensitive constant tracking of boolean locals + who-may-write",
        note=""),
    "C19": dict(
        text="Structural decision + bound normalisation: single producer of data messages with payload s[:size] from "
             "_wait_for_send_window; on every path to the window charge the size was clamped to out_window_size and to "
             "out_max_packet_size-64 and is the value returned; credit writers are exactly three, two under "
             "Channel.lock with every caller of the caller-holds-lock function holding it; packet size lower-clamped "
             "at 4096; every WINDOW_ADJUST amount is _check_add_window(len(bytes consumed)); advertised = tracked.",
        technique="clamp recognition via interval facts + lock-region dataflow (must-held locksets) + who-may-write",
        note="scheduling of adjusts is C20"),
    "C20": dict(
        text="Partial: every received payload is buffered or credited at once on all paths of _feed/_feed_extended; the "
             "adjust threshold is a proper fraction of the advertised window with a non-strict test; crediting is "
             "suppressed only when closed/EOF-received/inactive; combine re-feeds the backlog; adjusts and close wake "
             "all senders. Found the uncredited discarded extended data (fixed). Eventual progress itself not decided.",
        technique="must-pass-through on the CFG from the payload read + expression-shape check + lock regions",
        note="liveness of two threads and a peer not decided"),
    "C21": dict(
        text="Partial (routing only): dispatch table for the eight channel types, channel chosen by the first uint32, "
             "every channel message built in channel.py addressed [type, remote_chanid], stdout/stderr type and code "
             "agreement writer<->reader<->buffer, exit-status writer/reader/getter, combine flag switched before the "
             "backlog is drained in one critical section.",
        technique="table folding + wire-layout extraction over all Channel methods + flag-pruned CFG + lock regions",
        note="content equality and cross-thread order not decided"),
    "C22": dict(
        text="Structural decision: single producers of EOF/CLOSE addressed to the peer's id, test-and-set under the lock "
             "with every caller of the caller-holds-lock helpers holding Channel.lock, CLOSE answered and unlinked "
             "once, state re-tested after every wake-up before a window grant. Two clauses are violated today at six "
             "sites and are recorded as known findings (message handed to the transport after the lock is released; "
             "send_exit_status unguarded): any new site is a fresh violation.",
        technique="lock-region dataflow + who-may-build via layout extraction + edge-dominance from wait nodes",
        note="known findings keyed by rule:function; repair needs a per-channel send queue"),
    "C23": dict(
        text="Structural decision: every _next_channel caller holds Transport.lock, every id used to build/register a "
             "channel is its result, the returned id is the counter after a loop that exits only on a non-live id, the "
             "counter is always masked to 24 bits and advanced past the id, ChannelMap is fully locked, and a channel "
             "leaves the map only by its own close or an OPEN_FAILURE for a still-pending open.",
        technique="lock-region dataflow + value-origin + who-may-write/call",
        note="ChannelMap is a WeakValueDictionary: liveness = referenced"),
    "C25": dict(
        text="Structural decision (loop-progress rule): _send can return 0 (read from its returns), so both sendall loops "
             "must raise on a 0 return, advance the cursor by exactly the count returned and exit normally only when "
             "nothing is left; closed and timeout arms raise. Found the endless loop after shutdown_write (fixed).",
        technique="loop-progress / cursor-agreement rules on the CFG with an inter-procedural return fact",
        note="a positive return is bytes handed to the transport (C19)"),
    "C26": dict(
        text="Partial: all shared state of BufferedPipe under its lock with release on every exit, paired slices in read "
             "and empty, feed is the only appender (tail) and notifies all, wait inside the predicate loop, empty "
             "result only when closed and drained, PipeTimeout only after re-testing emptiness following the wake-up. "
             "Found the spurious timeout (fixed). FIFO equality over interleavings not decided.",
        technique="lock-region dataflow + paired-slice rule + edge-dominance from the wait node",
        note=""),
    "C11": dict(
        text="Structural decision over the whole package: a call graph (MRO-resolved, dispatch tables and the keep-alive "
             "callback as edges) gives the transport-thread closure of Transport.run and the user closure of the public "
             "API; each of the send sites is typed by the first field of the message it sends and checked against the "
             "gating discipline: user-thread sends of service/auth/connection messages use the gated sender, the "
             "transport thread never calls the gated sender and never emits such messages ungated from a handler that "
             "can run between KEXINIT and NEWKEYS, no gated send under Channel.lock, and the gate closes under its lock "
             "before KEXINIT and reopens only after the inbound keys are active. Violated today at the handlers' reply "
             "sites (24 known findings keyed by function and site ordinal); any new site of the wrong kind is a fresh "
             "violation.",
        technique="send-site census over a resolved call graph with thread contexts + wire-layout typing + CFG dominance",
        note="delivery of queued traffic afterwards (runtime ordering) not decided"),
    "C13": dict(
        text="Decided part of a liveness property: every blocking primitive reachable in transport / channel / packet / "
             "auth_handler / buffered_pipe / proxy is enumerated (floor 17) and must be discharged as a bounded poll with "
             "an exiting liveness test, an unbounded wait on an event the teardown closure sets and nothing clears behind "
             "the caller's back, a condition wait in a predicate loop that teardown falsifies and wakes with notify_all, "
             "or a stream-read loop that leaves on an empty read; the teardown side (run()'s shutdown block, "
             "Channel._set_closed) is checked to signal each of them. Found four stuck waits (fixed).",
        technique="wait-site enumeration over the call graph + CFG loop/dominance rules + teardown-closure who-signals",
        note="'promptly' as a time bound and scheduler fairness not decided"),
    "C24": dict(
        text="Decided by lockset: every method of PosixPipe / WindowsPipe / OrPipe that reads-modifies-writes the shared "
             "pipe state does so under one pipe-wide lock shared by both OrPipe halves, each half reads its partner's flag "
             "inside the same critical section, and BufferedPipe initialises / sets / clears the event under the buffer "
             "lock only when the buffer state warrants it. A non-empty common lockset is necessary for the invariant under "
             "all interleavings; found the empty lockset (lost wake-up), fixed.",
        technique="lock-region dataflow + per-field lockset intersection over thread contexts",
        note="select() semantics of the OS trusted"),
    "C29": dict(
        text="Partial (the 'fail loudly' half): every write status is examined (the registration sink of each CMD_WRITE "
             "and the drain in _close are the same object - violated today by pipelined writes, a known finding), "
             "_convert_status returns normally only for SFTP_OK, unpipelined writes/reads raise on a wrong reply type, "
             "saved prefetch errors are re-raised inside the wait loop, the transfer loop writes every chunk it read, "
             "stops only on an empty read, returns the sum of the chunk lengths, and put/get compare sizes after the "
             "remote file is closed. Byte-exactness of a transfer is not decided.",
        technique="value-origin of request numbers / sinks + CFG dominance + loop-progress rule",
        note="known finding keyed by rule:function"),
    "C30": dict(
        text="Structural decision. Server: on every normal path of SFTPServer._process (helpers verified bottom-up) "
             "exactly one response is emitted and it is the last effectful call; every response carries the request's own "
             "id; the packet type is a reply command the draft allows for that request; start_subsystem's loop leaves only "
             "when reading fails. Client: a request issued with the discarding sink must be awaited in the same function "
             "before control returns to the application (pipelined writes and listdir_iter violate this: known findings). "
             "Found FSETSTAT answering with packet type 5 and the check-file loop (fixed).",
        technique="path counting on the CFG (0/1/many responses) + wire-layout extraction + constant folding of the command tables",
        note="SFTPServerInterface callbacks return codes or objects as documented"),
    "C31": dict(
        text="Structural decision: in SFTPServer.set_file_attr each of chmod/chown/utime/truncate runs under a test of "
             "exactly its flag with exactly the matching attribute fields in the right order; the size arm uses a "
             "non-truncating open mode; each client-side chmod/chown/utime/truncate sets exactly the matching fields and "
             "sends SETSTAT/FSETSTAT with the adjusted path / handle; the server arms hand them to chattr. Found the "
             "'w+' open that destroyed content (fixed).",
        technique="flag-pruned CFG dominance + argument/field table comparison + wire-layout extraction",
        note="OS call semantics trusted; attributes arrive as sent (C33)"),
    "C32": dict(
        text="Partial: the block walk of SFTPServer._check_file - cursor and per-block counter advance by exactly the "
             "length read, an empty read leaves the loops, one hash object and one digest per block, a read never exceeds "
             "what is left of the block, the range is clamped to end of file, block sizes below 256 refused, request and "
             "reply layouts agree between SFTPFile.check and the server. Found three defects in that walk (fixed). Digest "
             "values are not decided.",
        technique="cursor-agreement / loop-progress rules on the CFG + bound normaliser + wire-layout extraction",
        note="SFTPHandle.read returns at most n bytes from offset"),
    "C33": dict(
        text="Structural decision by writer/reader agreement between SFTPAttributes._pack and _unpack: same leading flags "
             "word, same groups in the same order with the same field kinds and attributes (compared in Python evaluation "
             "order), distinct flag bits per the draft, flags recomputed from the presence of fields, fresh objects have "
             "all fields absent. Found the extended-attribute key/value swap (fixed).",
        technique="wire-layout extraction in evaluation order on both sides + constant folding",
        note="32/64-bit ranges of values not decided"),
    "C34": dict(
        text="Structural decision: every value SFTPServerInterface.canonicalize returns is os.path.normpath of a path that "
             "is absolute on that path of the code (client path under a true isabs test, or '/' + path), nothing else "
             "rewrites the result, and the REALPATH arm passes the client's path through it and returns its result.",
        technique="value-origin (reaching definitions) of every return + edge dominance",
        note="POSIX normpath of an absolute path is absolute and free of '.'/'..' (trusted)"),
    "C35": dict(
        text="Partial: verification is total (no catalogued exception escapes verify_ssh_sig of RSAKey / ECDSAKey / "
             "Ed25519Key; every return is a boolean constant and True only after the library verify returned), no field "
             "that __init__ may leave None is dereferenced unguarded in methods every key object must support, sign and "
             "verify agree on hash table / padding / curve hash / algorithm name / r,s layout, and the object handed to "
             "the library verify is the public half on every path. Found the Ed25519 None dereference and three "
             "escaping exceptions (fixed). Cryptographic correctness is not decided.",
        technique="exception-escape analysis over the call graph with a frozen catalogue + null-belief rule on the CFG + table agreement",
        note="operations outside the catalogue are assumed total"),
    "C40": dict(
        text="Partial: in SSHConfig._lookup blocks are visited in file order, a block is skipped exactly when neither its "
             "Host patterns nor its Match criteria apply, every store is under `key not in options`, only identityfile "
             "accumulates (filtered against duplicates) and stored values are copies; parse stores scalars only when "
             "absent, appends list keys, pushes every block. _pattern_matches is evaluated from its AST over the complete "
             "quotient of its inputs (negated/positive x matching/not, all sequences up to 4, list and string forms). "
             "HostName defaults only when absent; every consumer of block records uses a key common to all record shapes "
             "or .get (found get_hostnames' KeyError on Match blocks, fixed); the token tables, replacement loop and "
             "token sources agree with ssh_config(5). fnmatch, expansion values and DNS canonicalisation not decided.",
        technique="edge dominance on the CFG + truth-table evaluation of extracted ASTs over a finite quotient + record-shape inference + table folding",
        note="fnmatch / shlex trusted"),
    "C41": dict(
        text="Partial: no list in hostkeys.py is mutated (directly or through an alias) while a for-loop iterates it; "
             "to_line / from_line agree on field order and separators; _hostname_matches is evaluated from its AST over the "
             "complete quotient of stored-name classes x plain/hashed query (all name lists up to 3); hash_host's output "
             "format and salt re-derivation agree; lookup collects in file order, SubDict returns the first entry of a "
             "type, check compares exactly that entry; save writes every entry in order; load's duplicate suppression is "
             "evaluated over all known/unknown patterns of up to 4 names with CPython's index-based iteration semantics. "
             "Found the alias mutation that made reloads add duplicates (fixed). Idempotence over arbitrary files not decided.",
        technique="alias-aware iterate-and-mutate rule + evaluation of extracted ASTs over finite quotients + writer/reader agreement",
        note="HMAC / base64 / PKey round trip (C36) trusted"),
    "C43": dict(
        text="Exact decision over a finite abstract domain: get_modulus uses (min, prefer, max) and the sizes only in "
             "comparisons / sorted / first-last subscripts (any arithmetic on them is refused by the evaluator: exit 2), so "
             "its AST is evaluated on a representative of every weak ordering of the three parameters x every placement of "
             "up to 3 (thorough: 4) sizes in the induced regions, and compared with the statement. _parse_modulus is "
             "evaluated on a grid of (type, tests, tries, size offset, generator); _roll_random returns only under num < n "
             "with num non-negative; the server call site passes (min, n, max) in wire order. Found the below-minimum "
             "offer for prefer < min (fixed).",
        technique="abstract interpretation over order types (own evaluator on the working tree's AST) + threshold-grid truth table + CFG dominance",
        note="sizes are positive; the acceptance rule for moduli lines is the documented one"),
    "C44": dict(
        text="Structural decision on every path of AuthStrategy.authenticate, path-sensitive in the success flag: the loop "
             "iterates get_sources() itself, every iteration makes one attempt and appends exactly one "
             "SourceResult(source, return-or-exception) to the one overall result, the handler catches every Exception and "
             "falls through to the append, the flag is set only on the attempt's normal continuation, no source is "
             "fetched or attempted once it is set, a failure goes on to the next source, the function returns the result "
             "only with the flag set and raises AuthFailure(result=the same list) only with it clear.",
        technique="CFG dominance with exception edges + constant-tracking path-sensitive reachability + value-origin",
        note="covers all source lists and outcomes because the rule is about the loop"),
    "C45": dict(
        text="Structural decision: AgentKey.sign_ssh_data builds [byte 13, string self.asbytes(), string data, uint32 "
             "flags] and sends that very message; flags is ALGORITHM_FLAG_MAP.get(algorithm, 0) and the table folded from "
             "the module (including the loop adding certificate forms) is exactly the four names -> 2 / 4, written nowhere "
             "else; the reply type is compared with 14 with a raising arm dominating the return; the returned value is "
             "the reply's get_binary() unchanged; asbytes() is the inner key's or the agent's blob; _send_message / "
             "_read_all frame and read exactly the announced length and raise on end of stream.",
        technique="wire-layout extraction + constant folding of the module-level table + CFG edge dominance + loop-progress rule",
        note="covers all algorithm names because the lookup is a defaulting dictionary access"),
    "C36": dict(
        text="Partial: every write_private_key_file reaches the disk only through PKey._write_private_key_file, which creates "
             "the file with os.open(O_CREAT, mode=0o600) and writes into that descriptor; no other file-creating call "
             "(builtin open in a write mode, os.open without 0600, chmod-after-create) is reachable from any of them; the "
             "unencrypted form is chosen exactly under `password is None`. __eq__/__hash__ are functions of _fields, no key "
             "class overrides them, every _fields mentions only allow-listed public material. asbytes() and the "
             "constructor agree on field kinds and order for RSA / ECDSA / Ed25519 (keyword arguments in evaluation order), "
             "the two ECDSA coordinates are encoded by statements identical up to x<->y and padded to the field size; "
             "fingerprints and base64 derive from asbytes() only. Private-key round trips (library) not decided.",
        technique="who-may-create over the call-graph closure + constant folding + sibling-statement agreement + writer/reader layout agreement",
        note="cryptography's serialisation trusted"),
    "C39": dict(
        text="Partial: writer/reader agreement for each Message field type (same struct format, reader width = "
             "calcsize(format), boolean, string length-first, text/list/mpint conversions inverse, adaptive int: long form for "
             "every n whose plain encoding would start with the 0xff marker, via the bound normaliser); cursor conservation "
             "of get_remainder / get_so_far / rewind; _add dispatches bool before int, add() in order; sign duality of "
             "deflate_long / inflate_long (the negative arm is the exact sign-dual of the positive arm). The numeric "
             "correctness of the inflate/deflate loops for every integer and the empty-string form of zero are value "
             "properties and are not decided (deflate_long(0) is one zero byte today: noted, not claimed).",
        technique="writer/reader pair agreement on expanded ASTs + bound normaliser + sibling (sign-dual) arm comparison",
        note="struct / BytesIO trusted"),
    "C42": dict(
        text="Partial - necessary conditions of 'complete and in order': close flushes before marking closed, flush hands the "
             "whole buffer to _write_all then resets; _write_all advances by exactly the returned count until empty and each "
             "_write override's count matches what it sent; every assignment to self._rbuffer in read/readline is a "
             "dominated clear, a paired split, a restitution with the remainder in front of the stash, or a tail append; "
             "content taken out in full is never also left in the buffer; stream data is appended on the right once; "
             "channel files use recv/sendall (stderr variants), stdin close flushes before EOF; line-buffered writes go out "
             "through the LAST newline; _set_mode is evaluated from its AST over the complete quotient of (bufsize class, "
             "mode-letter subset). The CR/LF logic of readline and content equality are not decided.",
        technique="buffer-conservation rules on the CFG (dominance, paired slices, concatenation order) + finite-quotient evaluation of _set_mode",
        note="one listed exception (readline's no-newline return after the truncating break) with its reason"),
    "C37": dict(
        text="Partial: exception-escape analysis from the private-key loading entry points of every key class over the "
             "resolved call graph - only SSHException subclasses (incl. PasswordRequiredException) and OSError may leave. "
             "Sources: explicit raises, a frozen catalogue of partial operations (text-mode readlines, unhexlify, cipher "
             "mode / finalize, bcrypt.kdf, nacl SigningKey, strict decodes, RSAPrivateNumbers.private_key, get_text), "
             "constant-index subscripts without an established length, divisions by numbers from the file - each filtered "
             "by the enclosing handlers; validation must not be an `assert`; the object returned by load_der_private_key "
             "must be type-checked with a raising arm. Found 22 escaping sites in six loaders (all fixed, six fix: "
             "commits). That a loaded key's halves agree is decided only at the site where the code checks it.",
        technique="exception-escape analysis over the call graph with a frozen catalogue + length-guard dataflow for subscripts + CFG dominance",
        note="operations outside the catalogue are assumed total: an uncatalogued partial operation is a missed escape, never a false alarm"),
    "C38": dict(
        text="Partial: exception-escape analysis over the transport thread - the closure of Transport.run through every "
             "dispatch table (both roles, GSS), every kex engine and the banner check (166 functions); run()'s generic "
             "handlers only record what arrives, so an escape there is an escape of get_exception / start_client / auth_*. "
             "Only SSHException subclasses, EOFError and OSError may arrive. Sources: explicit raises, strict UTF-8 decodes, "
             "point / key constructors, tables indexed by a value out of a message without a membership guard, "
             "constant-index subscripts on split()/sliced data without an established length, asserts - each filtered by "
             "enclosing handlers (a handler that stores a new SSHException converts; one that stores the same object is "
             "transparent); no empty message is sent or returned as a reply; every call on a typed receiver resolves. Found "
             "36 escaping site groups (all fixed, seven fix: commits). GSS-API library errors are not decided.",
        technique="exception-escape analysis over the call graph with dispatch tables as edges + frozen catalogue + tainted-key dict subscripts + length-guard dataflow + wire-layout emptiness",
        note="operations outside the catalogue are assumed total; application callbacks are outside the model"),
    "C27": dict(
        text="Partial - the structural clauses only; equivalence of arbitrary read/readline/write/seek/tell/truncate programs "
             "with a local file is a relation between runtime byte sequences and is NOT decided. Decided: the mode -> "
             "open-flags table of SFTPClient.open evaluated from its AST over every subset of the mode letters; the server's "
             "_convert_pflags over all 64 flag subsets; SFTPFile.seek flushes before moving, sets both positions per whence "
             "class and drops the read-ahead (evaluated), tell() is the logical position; every chunk read advances "
             "_realpos by its length, _write_all advances both positions by the count written, _read/_write address the "
             "server at _realpos with the size capped; SFTPHandle.read/write seek exactly when the requested offset differs "
             "from the tracked one, advance by the bytes moved, forget the offset on error and never seek in append mode "
             "(evaluated over tracked/requested/append/failure classes); truncate sends st_size only.",
        technique="finite-quotient evaluation of extracted ASTs (mode letters, flag subsets, whence classes, offset classes) + CFG dominance + cursor-agreement rules",
        note="each clause is a necessary condition; the behaviour as a whole is a value property outside this family"),
    "C28": dict(
        text="Partial - the structural clauses only; correctness under arbitrary short reads, response orders and seeks is "
             "arithmetic over a runtime map and is NOT decided. Decided: the chunk loops of prefetch() and readv() tile the "
             "requested range (cursor agreement, min(MAX_REQUEST_SIZE, remaining)); _prefetch_thread registers exactly the "
             "(offset, length) it requested under the number that request returned, sink = the file, under the lock; "
             "_async_response stores data under the registered offset, removes the registration under the lock, saves a "
             "converted STATUS error, raises on other types; _data_in_prefetch_buffers and _read_prefetch are evaluated from "
             "their ASTs over all orderings of (buffer start, length, position, size) on a small grid with opaque bytes: the "
             "bytes served are the file's at that position and the remainder still maps every other offset to its byte; "
             "_read falls back to an ordinary READ at _realpos when the buffers do not hold the position; readv seeks and "
             "reads each requested range in order.",
        technique="cursor-agreement rules + value-origin + finite-quotient evaluation of the buffer functions + CFG dominance",
        note="each clause is a necessary condition; the behaviour as a whole is a value property outside this family"),
    "C03": dict(
        text="Exact decision over a finite abstract domain: the framing arithmetic "
             "of Packetizer._build_packet is interpreted from the current AST for every "
             "installable block size x {classic, ETM, AEAD} x every residue of the payload "
             "length (so for every payload length), plus structural rules for the encrypted "
             "span, the MAC truncation and the MAC/cipher tables. Tests sample a few lengths; "
             "this covers all of them.",
        technique="abstract interpretation over residues (static, AST) + table/constant folding + per-mode CFG pruning",
        note="cipher/MAC primitives trusted; evaluator refuses (exit 2) outside its grammar",
        ref="DESIGN.md section 5 C03"),
}

# every property is claimed at least partially; C27 and C28 decide structural clauses only (see DESIGN section 6)
NOT_APPLICABLE = {}
