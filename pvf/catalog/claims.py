"""What MANIFEST.json claims per property.  tools/gen_manifest.py turns this
into MANIFEST.json; a property without an entry here is listed under
not_applicable with the reason in NOT_APPLICABLE (or 'rule not built')."""

TRUSTED = ("CPython's ast parser; the documented behaviour of struct, "
           "threading, cryptography, nacl; paramiko/*.py is the whole shipped "
           "program; application subclasses / monkey-patching are outside the model")

CLAIMS = {
    "C03": dict(
        text="Exact decision over a finite abstract domain: the framing arithmetic "
             "of Packetizer._build_packet is interpreted from the current AST for every "
             "installable block size x {classic, ETM, AEAD} x every residue of the payload "
             "length (so for every payload length), plus structural rules for the encrypted "
             "span, the MAC truncation and the MAC/cipher tables. Tests sample a few lengths; "
             "this covers all of them.",
        technique="abstract interpretation over residues (static, AST) + table/constant folding + per-mode CFG pruning",
        note="cipher/MAC primitives trusted; evaluator refuses (exit 2) outside its grammar",
        ref="DESIGN.md section 5 C03"),
}

NOT_APPLICABLE = {
    "C27": "Equivalence of arbitrary read/readline/write/seek/tell/truncate programs with a local "
           "binary file is a relation between runtime byte sequences and positions; no finite "
           "abstract domain is complete for it and no clause is a pure code shape.",
    "C28": "Prefetch/readv correctness is arithmetic over a runtime map of offsets to chunks under "
           "arbitrary short reads and response orders; deciding it needs the values, not the shape.",
}
