"""What MANIFEST.json claims per property.  tools/gen_manifest.py turns this
into MANIFEST.json; a property without an entry here is listed under
not_applicable with the reason in NOT_APPLICABLE (or 'rule not built')."""

TRUSTED = ("CPython's ast parser; the documented behaviour of struct, "
           "threading, cryptography, nacl; paramiko/*.py is the whole shipped "
           "program; application subclasses / monkey-patching are outside the model")

CLAIMS = {
    "C01": dict(
        text="Partial, structural: seven necessary conditions of faithful packet delivery are decided on "
             "every path of Packetizer.send_message/read_message/read_all and Transport._activate_* "
             "(direction discipline of all *_in/*_out fields, sequence numbers once per packet and "
             "used before they advance, AEAD nonce function and single application, stage order with "
             "stage-to-stage data flow, closed and well-formed algorithm tables, unpad inverts pad, "
             "fragment reassembly). Byte-stream equality through cipher/zlib/socket is not decided.",
        technique="per-mode pruned CFG dominance + reaching definitions + constant-folded tables (static, AST)",
        note="necessary conditions only; cipher/zlib inverses trusted"),
    "C02": dict(
        text="Structural decision of 'no unauthenticated delivery': in each keyed reader mode (classic+MAC, "
             "ETM, AEAD; the mode flags are fixed and infeasible CFG edges pruned) every path of "
             "read_message to a delivered message passes the MAC comparison's equal arm or the AEAD "
             "decrypt, the MAC covers seq||length||the very bytes delivered/decrypted, the comparator is "
             "total and constant-time, and the analysed flag valuations are exactly those "
             "_activate_inbound installs. All paths, not sampled tamperings.",
        technique="flag-specialised CFG dominance, value-origin (reaching definitions), comparator shape check",
        note="MAC/AEAD unforgeability is a cryptographic assumption"),
    "C04": dict(
        text="Structural decision against the RFC (not against the peer): the hash-input layout of "
             "Transport._compute_key (first block and extension blocks, accumulation, truncation), the 12 "
             "letter cells role x direction x {iv,key,mac} extracted by value-origin from _activate_*, "
             "client/server symmetry and in/out separation computed from that table, and the requested "
             "lengths. A symmetric-but-wrong derivation (which peer-to-peer tests cannot see) is a mismatch "
             "with the RFC template.",
        technique="wire-layout extraction in evaluation order + role-specialised reaching definitions, compared with an RFC 4253 7.2 template",
        note="numeric equality with an independent implementation is not decided"),
    "C05": dict(
        text="Structural decision for all 8 categories x 2 roles: which list the first-common-element "
             "selection iterates (must be the client's) and which it tests membership in (the server's), "
             "the KEXINIT direction field used, that the local operand is a disabled-filtered preferred_* "
             "property (server host keys also intersected with held keys), IncompatiblePeer exactly on "
             "empty agreement, pseudo-algorithm stripping, and KEXINIT writer/reader field order. Holds for "
             "all list contents because the rule is about which list is iterated.",
        technique="idiom-recognising selection matrix over role-pruned CFG + reaching definitions + layout extraction",
        note="filter/list-comprehension order semantics of Python trusted"),
    "C06": dict(
        text="Structural decision for every non-GSS engine in _kex_info x both roles: exchange-hash layout "
             "field by field (kind and source; peer values identified by their read position in the "
             "incoming message) against RFC 4253 s8 / 4419 s3 / 5656 s4; client order set_K_H < verify_key "
             "< activate_outbound; fail-closed _verify_key; all reply fields bound; session-id latch "
             "(who-may-write); server signs H with the negotiated algorithm and sends what it hashed; "
             "name<->hash/curve/group tables; handshake typestate.",
        technique="wire-layout extraction + value-origin classification into RFC slots, CFG dominance, who-may-write over the whole package",
        note="equality of the peers' big-integer secrets (DH algebra, library) not decided"),
    "C03": dict(
        text="Exact decision over a finite abstract domain: the framing arithmetic "
             "of Packetizer._build_packet is interpreted from the current AST for every "
             "installable block size x {classic, ETM, AEAD} x every residue of the payload "
             "length (so for every payload length), plus structural rules for the encrypted "
             "span, the MAC truncation and the MAC/cipher tables. Tests sample a few lengths; "
             "this covers all of them.",
        technique="abstract interpretation over residues (static, AST) + table/constant folding + per-mode CFG pruning",
        note="cipher/MAC primitives trusted; evaluator refuses (exit 2) outside its grammar",
        ref="DESIGN.md section 5 C03"),
}

NOT_APPLICABLE = {
    "C27": "Equivalence of arbitrary read/readline/write/seek/tell/truncate programs with a local "
           "binary file is a relation between runtime byte sequences and positions; no finite "
           "abstract domain is complete for it and no clause is a pure code shape.",
    "C28": "Prefetch/readv correctness is arithmetic over a runtime map of offsets to chunks under "
           "arbitrary short reads and response orders; deciding it needs the values, not the shape.",
}
