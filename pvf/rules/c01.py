"""C01 - the encrypted packet layer delivers exactly the message stream sent.

Partial: byte-stream equality through cipher/zlib/socket state is a value
property and is not decided.  Decided: seven structural conditions each of
which is necessary for it (direction discipline, sequence numbers, AEAD
nonce, stage order, table closure, unpad = pad, read_all reassembly).
"""
import ast
from ..core.model import AnalysisError, unparse, dotted, walk_no_defs
from ..core.consts import Folder, is_sym
from ..core.flow import Flow, node_calls, attr_writes
from ..core import match as M
from ._shared import check_inc_iv, check_compression_activation


def self_fields(node, skip_log=True):
    """[(attr name, Attribute node)] for self.<attr> uses under node, ignoring
    arguments of self._log(...) calls."""
    out = []
    skip = set()
    if skip_log:
        for n in walk_no_defs(node):
            if M.is_call(n, name="self._log"):
                for x in ast.walk(n):
                    skip.add(id(x))
    for n in walk_no_defs(node):
        if id(n) in skip:
            continue
        if isinstance(n, ast.Attribute) and isinstance(n.value, ast.Name) and n.value.id == "self":
            out.append((n.attr, n))
    return out


def once_on_all_paths(fl, nodes):
    """every normal path passes one of ``nodes`` and none passes two."""
    if not nodes:
        return False, "no such statement"
    if not fl.exit_dominated(guard_nodes=nodes):
        return False, "a path reaches the return without it: " + fl.witness([fl.cfg.exit.id], nodes)
    ids = set(n.id for n in nodes)
    for n in nodes:
        succ = [d for (d, lab) in fl.cfg.succ[n.id]]
        r = fl.cfg.reach(succ, avoid_edge=fl.avoid)
        if r & ids:
            return False, "may execute twice"
    return True, "exactly once on every normal path"


def run(prog, chk):
    fold = Folder(prog)
    chk.explanation = (
        "Partial. Decided (each a necessary condition of faithful delivery): R1 direction "
        "discipline of every *_in/*_out packetizer field and of local_*/remote_* in "
        "_activate_*; R2 sequence numbers advance exactly once per packet, by +1 mod 2^32, "
        "after their use; R3 AEAD nonce function and its single application per packet; R4 "
        "stage order compress<build<encrypt<MAC<write and verify/decrypt<unpad<decompress<"
        "Message with the data flowing stage to stage; R5 algorithm tables closed and "
        "well-formed; R6 the reader's unpadding inverts the writer's framing; R7 read_all "
        "reassembles fragmented reads without loss. Not decided: equality of byte streams "
        "through the cipher, zlib and socket (runtime values).")
    chk.assumptions = ["cryptography/zlib primitives are inverses of each other when keyed alike"]
    P = prog.cls("Packetizer")
    init = prog.func("Packetizer.__init__")
    dir_fields = sorted(set(t.attr for (st, t, v) in attr_writes(init.node)
                            if t.attr.endswith("_in") or t.attr.endswith("_out")))
    chk.floor("R1", "directional packetizer fields", len(dir_fields), 21)

    # R1 -------------------------------------------------------------------------
    for fname, bad_suffix in (("send_message", "_in"), ("_build_packet", "_in"), ("read_message", "_out"),
                              ("set_outbound_cipher", "_in"), ("set_inbound_cipher", "_out"),
                              ("set_outbound_compressor", "_in"), ("set_inbound_compressor", "_out"),
                              ("reset_seqno_out", "_in"), ("reset_seqno_in", "_out")):
        f = prog.func("Packetizer." + fname)
        wrong = [(a, n) for (a, n) in self_fields(f.node) if a in dir_fields and a.endswith(bad_suffix)]
        chk.ob("R1.direction", "Packetizer." + fname, not wrong, f.loc,
               "uses no %s field" % bad_suffix if not wrong else
               "uses %s at line %d" % (wrong[0][0], wrong[0][1].lineno))
    for fname, good, bad, setter, op, idx in (
            ("_activate_inbound", "remote_", "local_", "set_inbound_", "_DECRYPT", 1),
            ("_activate_outbound", "local_", "remote_", "set_outbound_", "_ENCRYPT", 0)):
        f = prog.func("Transport." + fname)
        wrong = [a for (a, n) in self_fields(f.node)
                 if a in (bad + "cipher", bad + "mac", bad + "compression")]
        chk.ob("R1.direction", "Transport.%s:fields" % fname, not wrong, f.loc,
               "only %s* algorithm fields" % good if not wrong else "uses %s" % wrong)
        setters = [dotted(c.func) for n in walk_no_defs(f.node) if isinstance(n, ast.Call)
                   for c in [n] if (dotted(c.func) or "").startswith("self.packetizer.set_")]
        wrongs = [s for s in setters if not s.startswith("self.packetizer." + setter)]
        chk.ob("R1.direction", "Transport.%s:setters" % fname, bool(setters) and not wrongs, f.loc,
               "calls %s" % sorted(set(setters)))
        ge = [c for c in walk_no_defs(f.node) if M.is_call(c, name="self._get_engine")]
        ok = len(ge) == 1 and unparse(M.arg(ge[0], 3, "operation")) == "self." + op \
            and unparse(M.arg(ge[0], 0, "name")) == "self." + good + "cipher"
        chk.ob("R1.direction", "Transport.%s:engine" % fname, ok, f.loc,
               unparse(ge[0])[:140] if ge else "no _get_engine call")
        comp = [n for n in walk_no_defs(f.node) if isinstance(n, ast.Subscript)
                and unparse(n.value) == "self._compression_info[self.%scompression]" % good]
        ok = bool(comp) and all(isinstance(c.slice, ast.Constant) and c.slice.value == idx for c in comp)
        chk.ob("R1.direction", "Transport.%s:compressor" % fname, ok, f.loc,
               "takes element %d of the (compressor, decompressor) pair" % idx)
    ci = fold.class_env("Transport").get("_compression_info")
    if not isinstance(ci, dict):
        raise AnalysisError("Transport._compression_info", "table not foldable")
    for name, row in sorted(ci.items()):
        ok = isinstance(row, tuple) and len(row) == 2 and (
            row == (None, None) or (is_sym(row[0]) and is_sym(row[1]) and
                                    row[0].text == "class:ZlibCompressor" and row[1].text == "class:ZlibDecompressor"))
        chk.ob("R5.compression-row", name, ok, prog.cls("Transport").module.path, repr(row))
    # _get_engine: encryptor for _ENCRYPT, decryptor otherwise
    ge = prog.func("Transport._get_engine")
    fl = Flow(prog, ge, env={"aead": False})
    encs = fl.nodes(lambda n: n.kind == "return" and "encryptor()" in unparse(n.ast))
    decs = fl.nodes(lambda n: n.kind == "return" and "decryptor()" in unparse(n.ast))
    ok = len(encs) == 1 and len(decs) == 1
    if ok:
        def is_enc_test(t):
            cp = M.compare_parts(t)
            return bool(cp and cp[1] in (ast.Is, ast.Eq) and unparse(cp[0]) == "operation" and unparse(cp[2]) == "self._ENCRYPT")
        ok = fl.dominated(encs, guard_edge=fl.edge_guard(is_enc_test, "T")) and \
            fl.dominated(decs, guard_edge=fl.edge_guard(is_enc_test, "F"))
    chk.ob("R1.direction", "Transport._get_engine", ok, ge.loc, "encryptor() only under operation is _ENCRYPT; decryptor() otherwise")

    # R2 sequence numbers ----------------------------------------------------------
    for fname, fld, use in (("send_message", "self.__sequence_number_out", "struct.pack"),
                            ("read_message", "self.__sequence_number_in", None)):
        f = prog.func("Packetizer." + fname)
        fl = Flow(prog, f, env={"self.__block_engine_out is not None": True, "self.__aead_out": False} if fname == "send_message" else None)
        fl_all = Flow(prog, f)
        w = fl_all.nodes(lambda n: n.kind == "stmt" and isinstance(n.ast, (ast.Assign, ast.AugAssign))
                         and any(unparse(t) == fld for t in (n.ast.targets if isinstance(n.ast, ast.Assign) else [n.ast.target])))
        ok, why = once_on_all_paths(fl_all, w)
        chk.ob("R2.seq-once", fname, ok, f.loc, why)
        good = bool(w)
        for n in w:
            if not isinstance(n.ast, ast.Assign):
                good = False
                continue
            alts = fl_all.expand_text(n.ast.value, n)
            if not all(t in ("%s + 1 & xffffffff" % fld, "%s + 1 & 4294967295" % fld, "(%s + 1) %% 4294967296" % fld) for t in alts):
                good = False
            chk.note("%s: %s <- %s" % (fname, fld, alts))
        chk.ob("R2.seq-increment", fname, good, f.loc, "new value is (old + 1) & 0xffffffff")
        # uses of the counter (MAC input, msg.seqno) come before the advance
        uses = []
        for n in fl_all.nodes(lambda n: n.kind in ("stmt", "cond")):
            if n in w:
                continue
            a = n.ast
            txt = unparse(a)
            if fld in txt and not (isinstance(a, ast.Assign) and unparse(a.targets[0]) == "next_seq"):
                uses.append(n)
        late = []
        for wn in w:
            r = fl_all.cfg.reach([d for (d, l) in fl_all.cfg.succ[wn.id]])
            late += [u for u in uses if u.id in r]
        chk.ob("R2.seq-use-before-advance", fname, bool(uses) and not late, f.loc,
               "%d use(s) of the counter, all before the advance" % len(uses) if not late else
               "use after advance at line %d" % late[0].lineno)
    rm = prog.func("Packetizer.read_message")
    flr = Flow(prog, rm)
    sq = flr.nodes(lambda n: n.kind == "stmt" and isinstance(n.ast, ast.Assign) and unparse(n.ast.targets[0]).endswith(".seqno"))
    ok = len(sq) == 1 and unparse(sq[0].ast.value) == "self.__sequence_number_in"
    if ok:
        # it is the returned message's seqno
        rets = flr.nodes(lambda n: n.kind == "return")
        tgt = unparse(sq[0].ast.targets[0]).split(".")[0]
        ok = all(isinstance(r.ast.value, ast.Tuple) and unparse(r.ast.value.elts[-1]) == tgt for r in rets) and \
            flr.exit_dominated(guard_nodes=sq)
    chk.ob("R2.msg-seqno", "read_message", ok, rm.loc, "msg.seqno = inbound counter (pre-increment) on every delivered message")
    for nm in ("reset_seqno_in", "reset_seqno_out"):
        f = prog.func("Packetizer." + nm)
        ws = attr_writes(f.node)
        want = "__sequence_number_" + nm.rsplit("_", 1)[1]
        ok = len(ws) == 1 and ws[0][1].attr == want and isinstance(ws[0][2], ast.Constant) and ws[0][2].value == 0
        chk.ob("R2.seq-reset", nm, ok, f.loc, "assigns 0 to %s" % want)

    # R3 nonce -------------------------------------------------------------------------
    check_inc_iv(prog, chk, "R3.nonce-function")
    for fname, fld, flags in (("send_message", "self.__iv_out", {"self.__aead_out": True, "self.__etm_out": False,
                                                               "self.__block_engine_out is not None": True}),
                              ("read_message", "self.__iv_in", {"self.__aead_in": True, "self.__etm_in": False})):
        f = prog.func("Packetizer." + fname)
        fl = Flow(prog, f, env=flags)
        inc = [n for (n, c) in fl.nodes_with_call(attr="_inc_iv_counter")
               if isinstance(n.ast, ast.Assign) and unparse(n.ast.targets[0]) == fld and unparse(c.args[0]) == fld]
        ok, why = once_on_all_paths(fl, inc)
        chk.ob("R3.nonce-once", fname, ok, f.loc, why)
        # and the crypt call using the nonce precedes the increment
        crypt = [n for (n, c) in fl.nodes_with_call() if isinstance(c.func, ast.Attribute)
                 and c.func.attr in ("encrypt", "decrypt") and c.args and unparse(c.args[0]) == fld]
        ok = len(crypt) == 1 and bool(inc) and fl.dominated(inc, guard_nodes=crypt)
        chk.ob("R3.nonce-after-use", fname, ok, f.loc, "nonce advanced after the AEAD call that uses it")
        # in non-AEAD modes the nonce is untouched
        fl2 = Flow(prog, f, env={k: (False if "aead" in k else v) for k, v in flags.items()})
        inc2 = fl2.nodes_with_call(attr="_inc_iv_counter")
        chk.ob("R3.nonce-only-aead", fname, not inc2, f.loc, "no nonce update outside AEAD mode")

    # R4 stage order -----------------------------------------------------------------------
    sm = prog.func("Packetizer.send_message")
    for mode, env in (("classic", {"self.__etm_out": False, "self.__aead_out": False}),
                      ("etm", {"self.__etm_out": True, "self.__aead_out": False}),
                      ("aead", {"self.__etm_out": False, "self.__aead_out": True})):
        e = dict(env)
        e.update({"self.__block_engine_out is not None": True, "self.__compress_engine_out is not None": True})
        fl = Flow(prog, sm, env=e)
        comp = [n for (n, c) in fl.nodes_with_call(name="self.__compress_engine_out")]
        build = [n for (n, c) in fl.nodes_with_call(name="self._build_packet")]
        enc = [n for (n, c) in fl.nodes_with_call() if isinstance(c.func, ast.Attribute)
               and unparse(c.func.value) == "self.__block_engine_out"]
        mac = [n for (n, c) in fl.nodes_with_call(name="compute_hmac")]
        wr = [n for (n, c) in fl.nodes_with_call(name="self.write_all")]
        stages = [("compress", comp), ("build", build), ("encrypt", enc)]
        if mode != "aead":
            stages.append(("mac", mac))
        stages.append(("write", wr))
        ok = all(len(s[1]) == 1 for s in stages)
        detail = " < ".join("%s@%s" % (nm, ",".join(str(x.lineno) for x in ns)) for nm, ns in stages)
        if ok:
            for (a, an), (b, bn) in zip(stages, stages[1:]):
                if not fl.dominated(bn, guard_nodes=an):
                    ok = False
                    detail += " | %s not always before %s" % (a, b)
            ok = ok and fl.exit_dominated(guard_nodes=wr)
            # data flow: build takes the compressed data
            bc = [c for c in node_calls(build[0]) if M.is_call(c, name="self._build_packet")][0]
            a0 = bc.args[0] if bc.args else None
            if not (isinstance(a0, ast.Name) and [d[0].id for d in fl.defs(a0.id, build[0])] == [comp[0].id]):
                ok = False
                detail += " | _build_packet does not take the compressor's output"
            cc = [c for c in node_calls(comp[0]) if M.is_call(c, name="self.__compress_engine_out")][0]
            if not (len(cc.args) == 1 and isinstance(cc.args[0], ast.Name)):
                ok = False
        chk.ob("R4.send-stages", mode, ok, sm.loc, detail)
    # the message bytes sent are the caller's message
    fl = Flow(prog, sm)
    first = [n for n in fl.nodes(lambda n: n.kind == "stmt" and isinstance(n.ast, ast.Assign)
                                 and unparse(n.ast.value) in ("data.asbytes()", "asbytes(data)"))]
    chk.ob("R4.send-source", "send_message", len(first) == 1, sm.loc, "payload = data.asbytes()")

    for mode, env in (("plain", {"self.__etm_in": False, "self.__aead_in": False, "self.__block_engine_in is not None": False,
                                 "self.__mac_size_in > 0": False}),
                      ("classic", {"self.__etm_in": False, "self.__aead_in": False, "self.__block_engine_in is not None": True,
                                   "self.__mac_size_in > 0": True}),
                      ("etm", {"self.__etm_in": True, "self.__aead_in": False, "self.__block_engine_in is not None": True,
                               "self.__mac_size_in > 0": True}),
                      ("aead", {"self.__etm_in": False, "self.__aead_in": True, "self.__block_engine_in is not None": True,
                                "self.__mac_size_in > 0": True})):
        e = dict(env)
        e["self.__compress_engine_in is not None"] = True
        fl = Flow(prog, rm, env=e)
        cut = fl.nodes(lambda n: n.kind == "stmt" and isinstance(n.ast, ast.Assign) and M.slice_of(n.ast.value)
                       and M.slice_of(n.ast.value)[2] and "padding" in M.slice_of(n.ast.value)[2])
        dec = [n for (n, c) in fl.nodes_with_call(name="self.__compress_engine_in")]
        msg = [n for (n, c) in fl.nodes_with_call(name="Message")]
        ok = len(cut) == 1 and len(dec) == 1 and len(msg) == 1
        detail = "unpad@%s < decompress@%s < Message@%s" % tuple(
            ",".join(str(x.lineno) for x in ns) for ns in (cut, dec, msg))
        if ok:
            # R6: shape of the cut
            base, lo, hi = M.slice_of(cut[0].ast.value)
            tgt = unparse(cut[0].ast.targets[0])
            pd = fl.defs("padding", cut[0])
            shape = isinstance(base, ast.Name) and lo == "1" and hi == "packet_size - padding" and len(pd) == 1 \
                and pd[0][1] is not None and unparse(pd[0][1]) in ("byte_ord(%s[0])" % base.id, "%s[0]" % base.id)
            psd = fl.defs("packet_size", cut[0])
            shape = shape and len(psd) == 1 and psd[0][1] is not None and \
                unparse(psd[0][1]).startswith("struct.unpack('>I', header[:4])[0]")
            chk.ob("R6.unpad", mode, shape, fl.where(cut[0]),
                   "%s ; padding <- %s ; packet_size <- %s" % (
                       unparse(cut[0].ast), [unparse(d[1]) for d in pd if d[1] is not None],
                       [unparse(d[1]) for d in psd if d[1] is not None]))
            dc = [c for c in node_calls(dec[0]) if M.is_call(c, name="self.__compress_engine_in")][0]
            ok = fl.dominated(dec, guard_nodes=cut) and fl.dominated(msg, guard_nodes=dec)
            a0 = dc.args[0] if dc.args else None
            ok = ok and isinstance(a0, ast.Name) and [d[0].id for d in fl.defs(a0.id, dec[0])] == [cut[0].id]
            mc = [c for c in node_calls(msg[0]) if M.is_call(c, name="Message")][0]
            sl = M.slice_of(mc.args[0]) if mc.args else None
            ok = ok and bool(sl and sl[1] == "1" and sl[2] is None and isinstance(sl[0], ast.Name)
                             and [d[0].id for d in fl.defs(sl[0].id, msg[0])] == [dec[0].id])
            # the returned command byte is byte 0 of the same payload
            rets = fl.nodes(lambda n: n.kind == "return")
            for r in rets:
                ok = ok and isinstance(r.ast.value, ast.Tuple) and len(r.ast.value.elts) == 2
                if ok:
                    cd = fl.defs(unparse(r.ast.value.elts[0]), r)
                    ok = len(cd) == 1 and cd[0][1] is not None and unparse(cd[0][1]) in (
                        "byte_ord(%s[0])" % sl[0].id, "%s[0]" % sl[0].id) and \
                        [d[0].id for d in fl.defs(sl[0].id, cd[0][0])] == [dec[0].id]
        chk.ob("R4.read-stages", mode, ok, rm.loc, detail)

    # R5 table closure ---------------------------------------------------------------------
    tenv = fold.class_env("Transport")
    tpath = prog.cls("Transport").module.path
    # every literal list stored into a _preferred_* attribute anywhere in the class
    infos = {"_preferred_ciphers": "_cipher_info", "_preferred_macs": "_mac_info",
             "_preferred_compression": "_compression_info", "_preferred_kex": "_kex_info",
             "_preferred_gsskex": "_kex_info", "_preferred_keys": "_key_info", "_preferred_pubkeys": "_key_info"}
    nlit = 0
    for n in ast.walk(prog.cls("Transport").node):
        if isinstance(n, ast.Assign) and isinstance(n.value, (ast.Tuple, ast.List)):
            for t in n.targets:
                nm = t.attr if isinstance(t, ast.Attribute) else (t.id if isinstance(t, ast.Name) else None)
                if nm in infos and all(isinstance(e, ast.Constant) and isinstance(e.value, str) for e in n.value.elts):
                    nlit += 1
                    missing = [e.value for e in n.value.elts if e.value not in tenv.get(infos[nm], {})]
                    chk.ob("R5.closure-literal", "%s=%s" % (nm, ",".join(e.value for e in n.value.elts)[:60]), not missing,
                           "%s:%d" % (tpath, n.lineno), "missing rows: %s" % missing)
    chk.floor("R5", "literal _preferred_* assignments", nlit, 9)
    pairs = (("_preferred_ciphers", "_cipher_info", 9), ("_preferred_macs", "_mac_info", 8),
             ("_preferred_compression", "_compression_info", 1), ("_preferred_kex", "_kex_info", 10),
             ("_preferred_keys", "_key_info", 6), ("_preferred_pubkeys", "_key_info", 5))
    for pref, info, floor in pairs:
        pv = tenv.get(pref)
        iv = tenv.get(info)
        if not isinstance(pv, (tuple, list)) or not isinstance(iv, dict):
            raise AnalysisError("Transport.%s/%s" % (pref, info), "tables not foldable")
        chk.floor("R5", pref, len(pv), floor)
        missing = [x for x in pv if x not in iv]
        chk.ob("R5.closure", pref, not missing, tpath, "every preferred name has a row in %s" % info if not missing else "no row for %s" % missing)
    expect = {"aes128": (16, 16), "aes192": (16, 24), "aes256": (16, 32), "3des": (8, 24)}
    for name, row in sorted(tenv["_cipher_info"].items()):
        fam = name.split("-")[0]
        ok = isinstance(row, dict) and all(k in row for k in ("class", "block-size", "key-size"))
        if ok and fam in expect:
            ok = (row["block-size"], row["key-size"]) == expect[fam]
        if ok:
            if row.get("is_aead"):
                ok = row.get("iv-size") == 12 and "mode" not in row and is_sym(row["class"]) and "AESGCM" in row["class"].text
            else:
                want_mode = {"ctr": "modes.CTR", "cbc": "modes.CBC"}.get(name.split("-")[-1])
                ok = is_sym(row.get("mode")) and row["mode"].text == want_mode and "iv-size" not in row
                ok = ok and is_sym(row["class"]) and (("AES" in row["class"].text) == fam.startswith("aes"))
        chk.ob("R5.cipher-row", name, ok, tpath, repr(row)[:160])
    for fname, side in (("_activate_inbound", "remote"), ("_activate_outbound", "local")):
        f = prog.func("Transport." + fname)
        fl = Flow(prog, f)
        calls = fl.nodes_with_call(attr="set_%sbound_cipher" % ("in" if side == "remote" else "out"))
        for (n, c) in calls:
            a = M.arg(c, None, "etm")
            alts = fl.expand_text(a, n) if a is not None else []
            want = "not self._cipher_info[self.%s_cipher].get('is_aead', False) and 'etm@openssh.com' in self.%s_mac" % (side, side)
            chk.ob("R5.etm-from-name", fname, alts == [want], fl.where(n), "etm <- %s" % alts)
        if side == "local":
            for (n, c) in calls:
                a = M.arg(c, None, "sdctr")
                alts = fl.expand_text(a, n) if a is not None else []
                chk.ob("R5.sdctr-from-name", fname, alts == ["self.local_cipher.endswith('-ctr')"], fl.where(n), "sdctr <- %s" % alts)

    check_compression_activation(prog, chk, "R8.compression-activation")

    # R7 read_all reassembly ------------------------------------------------------------------
    ra = prog.func("Packetizer.read_all")
    fl = Flow(prog, ra, implicit=False)
    recv = [(n, c) for (n, c) in fl.nodes_with_call(attr="recv")]
    ok = len(recv) == 1 and isinstance(recv[0][0].ast, ast.Assign) and isinstance(recv[0][0].ast.targets[0], ast.Name)
    detail = ""
    if ok:
        x = recv[0][0].ast.targets[0].id
        n_par = ra.params()[1]
        ok = unparse(recv[0][1].args[0]) == n_par
        app = fl.nodes(lambda n: n.kind == "stmt" and isinstance(n.ast, ast.AugAssign) and isinstance(n.ast.op, ast.Add)
                       and unparse(n.ast.value) == x)
        dec = fl.nodes(lambda n: n.kind == "stmt" and isinstance(n.ast, ast.AugAssign) and isinstance(n.ast.op, ast.Sub)
                       and unparse(n.ast.target) == n_par and unparse(n.ast.value) == "len(%s)" % x)
        ok = ok and len(app) == 1 and len(dec) == 1
        if ok:
            outv = unparse(app[0].ast.target)
            # after a successful non-empty recv both updates happen before the next recv / return
            empty = fl.edge_guard(lambda t: unparse(t) in ("len(%s) == 0" % x, "not %s" % x), "T")
            succ = [d for (d, l) in fl.cfg.succ[recv[0][0].id] if l != "exc"]
            for upd in (app, dec):
                r = fl.cfg.dominated([fl.cfg.exit.id, recv[0][0].id], guard_nodes=[u.id for u in upd],
                                     guard_edge=empty, start=succ)
                ok = ok and r
            rets = fl.nodes(lambda n: n.kind == "return")
            ok = ok and all(unparse(r.ast.value) == outv for r in rets)
            # remainder: out = rem[:n]; rem = rem[n:]
            rem = fl.nodes(lambda n: n.kind == "stmt" and isinstance(n.ast, ast.Assign) and "self.__remainder" in unparse(n.ast))
            texts = sorted(unparse(r.ast) for r in rem)
            ok = ok and texts == sorted(["%s = self.__remainder[:%s]" % (outv, n_par), "self.__remainder = self.__remainder[%s:]" % n_par])
            detail = "recv(%s) -> %s += x; %s -= len(x); remainder split %s" % (n_par, outv, n_par, texts)
            # loop runs until n == 0
            loops = fl.nodes(lambda n: n.kind == "cond" and unparse(n.ast) in ("%s > 0" % n_par, "%s != 0" % n_par))
            ok = ok and len(loops) >= 1
    chk.ob("R7.read_all", "Packetizer.read_all", ok, ra.loc, detail)
