"""C04 - session keys follow RFC 4253 section 7.2 and match across peers."""
import ast
from ..core.model import AnalysisError, unparse, dotted
from ..core.flow import Flow, node_calls
from ..core.layout import Extractor, split_messages
from ..core import match as M

# RFC 4253 7.2: A = IV c->s, B = IV s->c, C = key c->s, D = key s->c, E = MAC c->s, F = MAC s->c
RFC = {("client", "out", "iv"): "A", ("client", "in", "iv"): "B",
       ("client", "out", "key"): "C", ("client", "in", "key"): "D",
       ("client", "out", "mac"): "E", ("client", "in", "mac"): "F",
       ("server", "in", "iv"): "A", ("server", "out", "iv"): "B",
       ("server", "in", "key"): "C", ("server", "out", "key"): "D",
       ("server", "in", "mac"): "E", ("server", "out", "mac"): "F"}


def run(prog, chk):
    chk.explanation = (
        "Decided structurally: (R1) the hash input of Transport._compute_key is mpint K || H || byte "
        "letter || session_id for the first block and mpint K || H || all-output-so-far for each "
        "extension, looped until nbytes and truncated - compared field by field with RFC 4253 7.2, "
        "not with the peer, so a symmetric-but-wrong derivation is caught; (R2) the 12 letter cells "
        "(role x direction x {iv,key,mac}) equal the RFC's; (R3) client-out = server-in etc. and "
        "in/out letters are disjoint; (R4) requested lengths are iv-size|block-size, key-size, "
        "digest_size. Not decided: numeric equality with an independent oracle.")
    chk.assumptions = ["Message.add_mpint/add_bytes/add_byte encode per RFC 4251 (property C39)",
                       "hash_algo is the kex engine's (C06-R7)"]
    ck = prog.func("Transport._compute_key")
    ps = ck.params()
    if len(ps) != 3:
        raise AnalysisError("Transport._compute_key", "expected (self, id, nbytes)")
    idp, nb = ps[1], ps[2]
    # shape-independent necessary condition: K, H, the letter and the session id all
    # flow into the derivation (whatever the way the bytes are put together)
    used = set(unparse(n) for n in ast.walk(ck.node) if isinstance(n, (ast.Attribute, ast.Name))
               and isinstance(getattr(n, "ctx", None), ast.Load))
    for need in ("self.K", "self.H", "self.session_id", idp):
        chk.ob("R1.input-used", need, need in used, ck.loc,
               "%s %s the key derivation" % (need, "flows into" if need in used else "is never used in"))
    # idiom check: everything that is hashed is a Message built field by field
    for n in ast.walk(ck.node):
        if M.is_call(n, attr="digest") and M.is_call(n.func.value):
            h = n.func.value
            a0 = h.args[0] if h.args else None
            if not (a0 is not None and M.is_call(a0, attr="asbytes") and isinstance(a0.func.value, ast.Name) and not a0.args):
                raise AnalysisError("Transport._compute_key",
                                    "hash input %s is not <Message>.asbytes(); layout extractor does not model it"
                                    % unparse(a0)[:80])
    ex = Extractor()
    alts = ex.function(ck.node)
    first = set()
    ext = set()
    for (ev, kind) in alts:
        ms = split_messages(ev)
        if not ms:
            continue
        first.add(tuple(ms[0]["fields"]))
        for m in ms[1:]:
            ext.add(tuple(f for f in m["fields"] if f[0] not in ("loop", "endloop")))
    want_first = (("mpint", "self.K"), ("bytes", "self.H"), ("byte", "b(%s)" % idp), ("bytes", "self.session_id"))
    chk.ob("R1.first-block", "_compute_key", first == set([want_first]), ck.loc,
           "hash input %s (RFC: mpint K, H, byte X, session_id)" % sorted(first))
    fl = Flow(prog, ck)
    # extension blocks
    ok = len(ext) == 1
    acc = None
    if ok:
        e = list(ext)[0]
        ok = len(e) == 3 and e[0] == ("mpint", "self.K") and e[1] == ("bytes", "self.H") and e[2][0] == "bytes"
        acc = e[2][1] if ok else None
    chk.ob("R1.extension-block", "_compute_key", ok, ck.loc, "hash input %s (RFC: mpint K, H, K1||..||Kn)" % sorted(ext))
    # accumulator discipline: out/sofar start as the first digest; each iteration appends the new digest to both
    rets = fl.nodes(lambda n: n.kind == "return")
    good = len(rets) == 1 and M.slice_of(rets[0].ast.value) is not None
    detail = ""
    if good:
        base, lo, hi = M.slice_of(rets[0].ast.value)
        outv = unparse(base)
        good = lo is None and hi == nb
        loops = fl.nodes(lambda n: n.kind == "cond" and unparse(n.ast) == "len(%s) < %s" % (outv, nb))
        good = good and len(loops) == 1
        digs = [(n, c) for (n, c) in fl.nodes_with_call(attr="digest")]
        good = good and len(digs) == 2
        if good and acc is not None:
            # init: out = sofar = hash_algo(m.asbytes()).digest()
            init = [n for (n, c) in digs if isinstance(n.ast, ast.Assign) and
                    sorted(unparse(t) for t in n.ast.targets) == sorted(set([outv, acc]))]
            step = [n for (n, c) in digs if n not in init]
            good = len(init) == 1 and len(step) == 1 and isinstance(step[0].ast, ast.Assign)
            if good:
                dv = unparse(step[0].ast.targets[0])
                augs = fl.nodes(lambda n: n.kind == "stmt" and isinstance(n.ast, ast.AugAssign)
                                and isinstance(n.ast.op, ast.Add) and unparse(n.ast.value) == dv)
                tg = sorted(unparse(a.ast.target) for a in augs)
                good = tg == sorted(set([outv, acc]))
                detail = "out=%s acc=%s digest=%s appended to %s" % (outv, acc, dv, tg)
                for (n, c) in digs:
                    inner = c.func.value
                    good = good and M.is_call(inner) and unparse(inner.func) == "hash_algo" and \
                        len(inner.args) == 1 and unparse(inner.args[0]).endswith(".asbytes()")
        # hash_algo comes from the kex engine
        hd = [unparse(n.ast.value) for n in fl.nodes(lambda n: n.kind == "stmt" and isinstance(n.ast, ast.Assign)
                                                     and unparse(n.ast.targets[0]) == "hash_algo")]
        good = good and "getattr(self.kex_engine, 'hash_algo', None)" in hd and set(hd) <= set(
            ["getattr(self.kex_engine, 'hash_algo', None)", "sha1"])
    chk.ob("R1.accumulate-and-truncate", "_compute_key", good, ck.loc, detail or "loop/accumulator shape")

    # R2 letter table -------------------------------------------------------------------
    table = {}
    lens = {}
    for fname, direction, setter in (("_activate_inbound", "in", "set_inbound_cipher"),
                                     ("_activate_outbound", "out", "set_outbound_cipher")):
        f = prog.func("Transport." + fname)
        for role, sm in (("server", True), ("client", False)):
            fl = Flow(prog, f, env={"self.server_mode": sm})
            ge = fl.nodes_with_call(name="self._get_engine")
            sc = fl.nodes_with_call(attr=setter)
            if len(ge) != 1 or len(sc) != 1:
                raise AnalysisError("Transport." + fname, "expected one _get_engine and one %s call" % setter)
            srcs = {"iv": (ge[0], M.arg(ge[0][1], 2, "iv")), "key": (ge[0], M.arg(ge[0][1], 1, "key")),
                    "mac": (sc[0], M.arg(sc[0][1], 4, "mac_key"))}
            for what, ((n, c), a) in srcs.items():
                if a is None:
                    raise AnalysisError("Transport." + fname, "no %s argument" % what)
                alts = fl.expand(a, n, depth=3)
                letters = set()
                lengths = set()
                for alt in alts:
                    calls = [x for x in ast.walk(alt) if M.is_call(x, name="self._compute_key")]
                    if len(calls) != 1:
                        letters.add("?" + unparse(alt)[:60])
                        continue
                    a0 = calls[0].args[0]
                    letters.add(a0.value if isinstance(a0, ast.Constant) else "?" + unparse(a0))
                    lengths.add(unparse(calls[0].args[1]))
                table[(role, direction, what)] = letters
                lens[(role, direction, what)] = (lengths, fl, n)
    for cell in sorted(RFC):
        got = table.get(cell, set())
        chk.ob("R2.letter", "%s:%s:%s" % cell, got == set([RFC[cell]]),
               prog.func("Transport._activate_%sbound" % cell[1]).loc,
               "letter %s (RFC 4253 7.2 says %s)" % (sorted(got), RFC[cell]))
    chk.floor("R2", "letter cells", len(table), 12)
    # R3 symmetry + separation computed from the extracted table
    for what in ("iv", "key", "mac"):
        chk.ob("R3.symmetry", "client-out=server-in:" + what,
               table[("client", "out", what)] == table[("server", "in", what)] and len(table[("client", "out", what)]) == 1,
               ck.loc, "%s / %s" % (sorted(table[("client", "out", what)]), sorted(table[("server", "in", what)])))
        chk.ob("R3.symmetry", "client-in=server-out:" + what,
               table[("client", "in", what)] == table[("server", "out", what)] and len(table[("client", "in", what)]) == 1,
               ck.loc, "%s / %s" % (sorted(table[("client", "in", what)]), sorted(table[("server", "out", what)])))
    for role in ("client", "server"):
        ins = set().union(*[table[(role, "in", w)] for w in ("iv", "key", "mac")])
        outs = set().union(*[table[(role, "out", w)] for w in ("iv", "key", "mac")])
        allsix = [list(table[(role, d, w)])[0] for d in ("in", "out") for w in ("iv", "key", "mac") if len(table[(role, d, w)]) == 1]
        chk.ob("R3.separation", role, not (ins & outs) and len(set(allsix)) == 6, ck.loc,
               "in=%s out=%s all distinct" % (sorted(ins), sorted(outs)))
    # R4 lengths
    for cell, (lengths, fl, n) in sorted(lens.items()):
        role, direction, what = cell
        side = "remote" if direction == "in" else "local"
        exp = set()
        for l in lengths:
            try:
                e = ast.parse(l, mode="eval").body
            except SyntaxError:
                exp.add(l)
                continue
            exp |= set(fl.expand_text(e, n, depth=3))
        info = "self._cipher_info[self.%s_cipher]" % side
        want = {"iv": "%s.get('iv-size', %s['block-size'])" % (info, info),
                "key": "%s['key-size']" % info,
                "mac": "self._mac_info[self.%s_mac]['class']().digest_size" % side}[what]
        chk.ob("R4.length", "%s:%s:%s" % cell, exp == set([want]), fl.where(n), "length %s (want %s)" % (sorted(exp), want))
    # R5: the Packetizer installs exactly what the transport derived.  Each setter stores its key material parameters
    # (cipher object, MAC key, nonce) as passed in: no parameter is rebound and the stored expression is the bare
    # parameter - an IV "carried over" from the previous keys is not the initial IV of RFC 4253 s7.2.
    for setter, suffix in (("set_outbound_cipher", "_out"), ("set_inbound_cipher", "_in")):
        sf = prog.method("Packetizer", setter)
        fs = Flow(prog, sf, implicit=False)
        ps_ = sf.params()[1:]
        want = {"block_engine": "__block_engine" + suffix, "mac_key": "__mac_key" + suffix, "mac_engine": "__mac_engine" + suffix,
                "mac_size": "__mac_size" + suffix, "block_size": "__block_size" + suffix}
        ivp = [p_ for p_ in ps_ if p_.startswith("iv")]
        if len(ivp) == 1:
            want[ivp[0]] = "__iv" + suffix
        n5 = 0
        for par, attr in sorted(want.items()):
            if par not in ps_:
                raise AnalysisError("Packetizer.%s" % setter, "parameter %s not found" % par)
            ws = fs.nodes(lambda n: n.kind == "stmt" and isinstance(n.ast, ast.Assign) and any(unparse(t).endswith("self." + attr) or unparse(t) == "self." + attr for t in n.ast.targets))
            okp = len(ws) == 1 and isinstance(ws[0].ast.value, ast.Name) and ws[0].ast.value.id == par and all(dn.kind == "entry" for (dn, rhs) in fs.defs(par, ws[0]))
            n5 += 1
            chk.ob("R5.installed-as-derived", "%s:%s" % (setter, par), okp, sf.loc,
                   "self.%s = %s" % (attr, [unparse(w.ast.value) for w in ws] or "never assigned") + ("" if okp else " - not the parameter as passed in"))
        chk.floor("R5", "key-material parameters of %s" % setter, n5, 5)
