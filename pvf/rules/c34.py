"""C34 - default canonicalisation stays inside the served root."""
import ast
from ..core.model import AnalysisError, unparse, dotted, walk_no_defs
from ..core.flow import Flow, node_calls
from ..core import match as M


def run(prog, chk):
    chk.explanation = (
        "Decided structurally: every value SFTPServerInterface.canonicalize returns is os.path.normpath(p) - "
        "optionally followed, only on win32, by the backslash replacement - where on that path p is absolute: "
        "either the client's path under a true os.path.isabs(path), or '/' + path; nothing else touches the "
        "normalised result (no slicing, no unconditional rewriting); the REALPATH arm of the server passes the "
        "client's path to canonicalize and returns its result. Trusted: POSIX normpath of an absolute path is "
        "absolute and free of '.' and '..' components.")
    chk.assumptions = ["os.path.normpath semantics (POSIX: keeps the path absolute, resolves '.' and '..')"]
    f = prog.func("SFTPServerInterface.canonicalize")
    p = f.params()[1]
    if not any(M.is_call(c, name="os.path.normpath") for c in walk_no_defs(f.node)):
        raise AnalysisError("SFTPServerInterface.canonicalize",
                            "no longer delegates to os.path.normpath; a hand-written normaliser is outside what this rule can decide")
    fl = Flow(prog, f, implicit=False)
    rets = fl.nodes(lambda n: n.kind == "return")
    chk.floor("R1", "returns of canonicalize", len(rets), 1)
    allowed_inner = {"os.path.normpath(%s)" % p: "isabs", "os.path.normpath('/' + %s)" % p: "prefixed"}
    for i, r in enumerate(rets):
        alts = fl.expand(r.ast.value, r, depth=4)
        ok = bool(alts)
        seen = []
        for a in alts:
            t = unparse(a)
            inner = a
            replaced = False
            if M.is_call(a, attr="replace") and len(a.args) == 2 and isinstance(a.args[0], ast.Constant) and a.args[0].value == "\\" \
                    and isinstance(a.args[1], ast.Constant) and a.args[1].value == "/":
                inner = a.func.value
                replaced = True
            it = unparse(inner)
            seen.append(t)
            if it not in allowed_inner:
                ok = False
        chk.ob("R1.returns-normpath-of-absolute", "canonicalize#%d" % i, ok, fl.where(r), "returns %s" % seen)
    # the un-prefixed form only under isabs(path); the replacement only on win32
    plain = fl.nodes(lambda n: n.kind == "stmt" and isinstance(n.ast, ast.Assign) and unparse(n.ast.value) == "os.path.normpath(%s)" % p) + \
        [r for r in rets if unparse(r.ast.value) == "os.path.normpath(%s)" % p]
    g = fl.edge_guard(lambda t: unparse(t) == "os.path.isabs(%s)" % p, "T")
    chk.ob("R1.unprefixed-only-when-absolute", "canonicalize", all(fl.dominated([n], guard_edge=g) for n in plain), f.loc,
           "normpath(path) without the '/' prefix only under os.path.isabs(path) (%d site(s))" % len(plain))
    post = []
    for n in fl.nodes(lambda n: n.kind in ("stmt", "return")):
        for c in node_calls(n):
            if isinstance(c.func, ast.Attribute) and c.func.attr in ("replace", "lstrip", "strip", "rstrip", "removeprefix", "split", "join"):
                post.append((n, c))
        for x in walk_no_defs(n.ast):
            if isinstance(x, ast.Subscript) and isinstance(x.ctx, ast.Load):
                post.append((n, x))
    gw = fl.edge_guard(lambda t: unparse(t) == "sys.platform == 'win32'", "T")
    bad = [unparse(x)[:50] for (n, x) in post if not fl.dominated([n], guard_edge=gw)]
    chk.ob("R1.no-posix-postprocessing", "canonicalize", not bad, f.loc,
           "operations applied to the normalised path outside the win32 arm: %s" % bad if bad else "the normalised path is returned untouched on POSIX")
    # R2 REALPATH arm
    pr = prog.func("SFTPServer._process")
    env = {}
    for x in ast.walk(pr.node):
        if isinstance(x, ast.Compare) and unparse(x).startswith("t == CMD_"):
            env[unparse(x)] = (unparse(x) == "t == CMD_REALPATH")
    fp = Flow(prog, pr, env=env, implicit=False)
    cs = [(n, c) for (n, c) in fp.nodes_with_call(name="self.server.canonicalize")]
    ok = len(cs) == 1
    if ok:
        n, c = cs[0]
        pd = fp.defs(unparse(c.args[0]), n)
        ok = len(pd) == 1 and unparse(pd[0][1]) == "msg.get_text()"
        rv = unparse(n.ast.targets[0]) if isinstance(n.ast, ast.Assign) else None
        rs = [k for (x, k) in fp.nodes_with_call(name="self._response")]
        ok = ok and rv is not None and len(rs) == 1 and [unparse(a) for a in rs[0].args][:4] == ["request_number", "CMD_NAME", "1", rv]
    chk.ob("R2.realpath-uses-canonicalize", "_process:REALPATH", ok, pr.loc, "REALPATH -> canonicalize(client path) -> NAME reply with its result")
