"""C34 - default canonicalisation stays inside the served root."""
import ast
from ..core.model import AnalysisError, unparse, dotted, walk_no_defs
from ..core.flow import Flow, node_calls
from ..core import match as M


def run(prog, chk):
    chk.explanation = (
        "Decided structurally: every value SFTPServerInterface.canonicalize returns is os.path.normpath(p) - "
        "optionally followed, only on win32, by the backslash replacement - where on that path p is absolute: "
        "either the client's path under a true os.path.isabs(path), or '/' + path; nothing else touches the "
        "normalised result (no slicing, no unconditional rewriting); the REALPATH arm of the server passes the "
        "client's path to canonicalize and returns its result. Trusted: POSIX normpath of an absolute path is "
        "absolute and free of '.' and '..' components.")
    chk.assumptions = ["os.path.normpath semantics (POSIX: keeps the path absolute, resolves '.' and '..')"]
    f = prog.func("SFTPServerInterface.canonicalize")
    p = f.params()[1]
    if not any(M.is_call(c, name="os.path.normpath") for c in walk_no_defs(f.node)):
        _hand_written(prog, chk, f)
        _realpath_arm(prog, chk)
        return
    fl = Flow(prog, f, implicit=False)
    rets = fl.nodes(lambda n: n.kind == "return")
    chk.floor("R1", "returns of canonicalize", len(rets), 1)
    allowed_inner = {"os.path.normpath(%s)" % p: "isabs", "os.path.normpath('/' + %s)" % p: "prefixed"}
    for i, r in enumerate(rets):
        alts = fl.expand(r.ast.value, r, depth=4)
        ok = bool(alts)
        seen = []
        for a in alts:
            t = unparse(a)
            inner = a
            replaced = False
            if M.is_call(a, attr="replace") and len(a.args) == 2 and isinstance(a.args[0], ast.Constant) and a.args[0].value == "\\" \
                    and isinstance(a.args[1], ast.Constant) and a.args[1].value == "/":
                inner = a.func.value
                replaced = True
            it = unparse(inner)
            seen.append(t)
            if it not in allowed_inner:
                ok = False
        chk.ob("R1.returns-normpath-of-absolute", "canonicalize#%d" % i, ok, fl.where(r), "returns %s" % seen)
    # the un-prefixed form only under isabs(path); the replacement only on win32
    plain = fl.nodes(lambda n: n.kind == "stmt" and isinstance(n.ast, ast.Assign) and unparse(n.ast.value) == "os.path.normpath(%s)" % p) + \
        [r for r in rets if unparse(r.ast.value) == "os.path.normpath(%s)" % p]
    g = fl.edge_guard(lambda t: unparse(t) == "os.path.isabs(%s)" % p, "T")
    chk.ob("R1.unprefixed-only-when-absolute", "canonicalize", all(fl.dominated([n], guard_edge=g) for n in plain), f.loc,
           "normpath(path) without the '/' prefix only under os.path.isabs(path) (%d site(s))" % len(plain))
    post = []
    for n in fl.nodes(lambda n: n.kind in ("stmt", "return")):
        for c in node_calls(n):
            if isinstance(c.func, ast.Attribute) and c.func.attr in ("replace", "lstrip", "strip", "rstrip", "removeprefix", "split", "join"):
                post.append((n, c))
        for x in walk_no_defs(n.ast):
            if isinstance(x, ast.Subscript) and isinstance(x.ctx, ast.Load):
                post.append((n, x))
    gw = fl.edge_guard(lambda t: unparse(t) == "sys.platform == 'win32'", "T")
    bad = [unparse(x)[:50] for (n, x) in post if not fl.dominated([n], guard_edge=gw)]
    chk.ob("R1.no-posix-postprocessing", "canonicalize", not bad, f.loc,
           "operations applied to the normalised path outside the win32 arm: %s" % bad if bad else "the normalised path is returned untouched on POSIX")
    _realpath_arm(prog, chk)


def _hand_written(prog, chk, f):
    """A canonicalize that resolves the components itself touches the path only through its '/'-separated components,
    and the result's containment depends only on each component's class: '', '.', '..' or an ordinary name.  The
    function's AST is evaluated on every sequence of component classes up to length 6, with and without a leading
    '/', and compared with the statement: the result is absolute, has no '.', '..' or empty component, and equals
    what resolving the components against '/' gives (a '..' at the root stays at the root)."""
    import itertools
    from ..core.interp import Interp, Obj
    chk.exhaustive = True
    bad = None
    ncase = 0
    comps = ["", ".", "..", "n"]
    for L in range(0, 7):
        for seq in itertools.product(comps, repeat=L):
            names = []
            k = 0
            for c in seq:
                if c == "n":
                    k += 1
                    names.append("d%d" % k)
                else:
                    names.append(c)
            for lead in ("", "/"):
                ncase += 1
                path = lead + "/".join(names)
                stack = []
                for c in names:
                    if c in ("", "."):
                        continue
                    if c == "..":
                        if stack:
                            stack.pop()
                    else:
                        stack.append(c)
                want = "/" + "/".join(stack)
                it = Interp(intrinsics={"sys.platform": "linux", "os.path.isabs": lambda q: q.startswith("/"), "os.sep": "/"}, arith=True)
                kind, val = it.call_function(f.node, {f.params()[0]: Obj(), f.params()[1]: path})
                okv = kind == "return" and isinstance(val, str) and val.startswith("/") and \
                    not any(c in ("..", ".") for c in val.split("/")) and val == want
                if not okv and bad is None:
                    bad = "canonicalize(%r) -> %s %r, want %r" % (path, kind, val, want)
    chk.count("R1 component-class sequences evaluated", ncase)
    chk.ob("R1.hand-written-normaliser-stays-under-root", "canonicalize", bad is None, f.loc,
           "%d paths (all sequences of '', '.', '..', name up to 6 components, relative and absolute)%s" % (ncase, "" if bad is None else "; first failing: " + bad))


def _realpath_arm(prog, chk):
    # R2 REALPATH arm
    pr = prog.func("SFTPServer._process")
    env = {}
    for x in ast.walk(pr.node):
        if isinstance(x, ast.Compare) and unparse(x).startswith("t == CMD_"):
            env[unparse(x)] = (unparse(x) == "t == CMD_REALPATH")
    fp = Flow(prog, pr, env=env, implicit=False)
    cs = [(n, c) for (n, c) in fp.nodes_with_call(name="self.server.canonicalize")]
    ok = len(cs) == 1
    if ok:
        n, c = cs[0]
        pd = fp.defs(unparse(c.args[0]), n)
        ok = len(pd) == 1 and unparse(pd[0][1]) == "msg.get_text()"
        rv = unparse(n.ast.targets[0]) if isinstance(n.ast, ast.Assign) else None
        rsn = [(x, k) for (x, k) in fp.nodes_with_call(name="self._response")]
        rs = [k for (x, k) in rsn]
        ok = ok and rv is not None and len(rs) == 1 and [unparse(a) for a in rs[0].args][:4] == ["request_number", "CMD_NAME", "1", rv]
        if ok:
            # ... and on every path what is answered *is* canonicalize's result: no other definition of it reaches the reply
            ds = fp.defs(rv, rsn[0][0])
            ok = len(ds) == 1 and ds[0][1] is c
    chk.ob("R2.realpath-uses-canonicalize", "_process:REALPATH", ok, pr.loc, "REALPATH -> canonicalize(client path) -> NAME reply with its result")
    # R3: the path that leaves is the path that was normalised, byte for byte: util.u / util.b, which every path passes
    # through on its way in (get_text) and out (add_string), convert strictly.  A lenient error handler ("ignore",
    # "replace", "surrogateescape") lets bytes survive normalisation as part of a name and drops them afterwards, so
    # `.\xff.` leaves as `..`.
    for fname, meth in (("util.u", "decode"), ("util.b", "encode")):
        fu = prog.func(fname)
        calls = [c for c in walk_no_defs(fu.node) if isinstance(c, ast.Call) and isinstance(c.func, ast.Attribute) and c.func.attr == meth]
        chk.floor("R3", "%s calls in %s" % (meth, fname), len(calls), 1)
        for i, c in enumerate(calls):
            errs = [a for a in c.args[1:2]] + [k.value for k in c.keywords if k.arg == "errors"]
            strict = all(isinstance(e, ast.Constant) and e.value == "strict" for e in errs)
            chk.ob("R3.text-conversion-is-strict", "%s#%d" % (fname, i), strict, "%s:%d" % (fu.module.path, c.lineno),
                   "%s%s" % (unparse(c)[:60], "" if strict else " - a lenient error handler changes the path after it was normalised"))
