"""C02 - tampered traffic is never accepted as different data.

Decided structurally: in each keyed mode of ``Packetizer.read_message``
(classic+MAC, ETM, AEAD - obtained by fixing the mode flags and pruning the
CFG) every path to the normal exit passes a *verifier*; what is MACed and
what is compared; the comparator is total and constant-time; the block
alignment guard; and the flag valuations are the ones ``_activate_inbound``
can install.
"""
import ast
from ..core.model import AnalysisError, unparse, dotted, walk_no_defs
from ..core.consts import Folder, is_sym
from ..core.flow import Flow, node_calls
from ..core import match as M

MODES = {
    "classic": {"self.__etm_in": False, "self.__aead_in": False},
    "etm": {"self.__etm_in": True, "self.__aead_in": False},
    "aead": {"self.__etm_in": False, "self.__aead_in": True},
}
KEYED = {"self.__block_engine_in is not None": True,
         "self.__block_engine_in is None": False,
         "self.__mac_size_in > 0": True}
COMPARATORS = ("util.constant_time_bytes_eq", "constant_time_bytes_eq",
               "hmac.compare_digest", "compare_digest",
               "constant_time.bytes_eq")


def copy_root(fl, name, at, depth=4):
    """Follow plain copies ``x = y`` backwards; returns (name, frozenset of def
    node ids) identifying the value."""
    cur, node = name, at
    for _ in range(depth):
        ds = fl.defs(cur, node)
        if len(ds) == 1 and ds[0][1] is not None and isinstance(ds[0][1], ast.Name):
            node = ds[0][0]
            cur = ds[0][1].id
            continue
        break
    return cur, frozenset(d[0].id for d in fl.defs(cur, node))


def data_bases(expr):
    """Names a bytes expression takes its *data* from (index expressions and
    lengths are ignored): x, x[a:b], x + y, decompress(x), byte-neutral wraps."""
    if isinstance(expr, ast.Name):
        return [expr.id]
    if isinstance(expr, ast.Subscript):
        return data_bases(expr.value)
    if isinstance(expr, ast.BinOp) and isinstance(expr.op, ast.Add):
        return data_bases(expr.left) + data_bases(expr.right)
    if isinstance(expr, ast.Call) and unparse(expr.func) == "self.__compress_engine_in" and len(expr.args) == 1:
        return data_bases(expr.args[0])
    return None


def data_roots(fl, name, at, _seen=None):
    """Set of CFG node ids where the data of local ``name`` (as seen at node
    ``at``) is produced by something other than copying/slicing/concatenating
    other locals (i.e. by a call such as decrypt/update/read_all)."""
    seen = _seen if _seen is not None else set()
    out = set()
    for (dn, rhs) in fl.defs(name, at):
        if (dn.id, name) in seen:
            continue
        seen.add((dn.id, name))
        if dn.kind == "stmt" and isinstance(dn.ast, ast.AugAssign):
            out.add(dn.id)
            continue
        bases = data_bases(rhs) if rhs is not None else None
        if bases is None:
            out.add(dn.id)
            continue
        for b in bases:
            out |= data_roots(fl, b, dn, seen)
    return out


def check_comparator(prog, chk):
    f = prog.func("util.constant_time_bytes_eq")
    body = [s for s in f.node.body if not (isinstance(s, ast.Expr) and isinstance(s.value, ast.Constant))]
    ps = f.params()
    ok = False
    detail = ""
    if len(ps) == 2:
        a, b = ps
        # delegating form
        if len(body) == 1 and isinstance(body[0], ast.Return) and M.is_call(body[0].value) and \
                dotted(body[0].value.func) in ("hmac.compare_digest", "constant_time.bytes_eq") and \
                sorted(unparse(x) for x in body[0].value.args) == sorted([a, b]):
            ok = True
            detail = "delegates to " + dotted(body[0].value.func)
        else:
            has_len = False
            has_loop = False
            has_ret = False
            early = False
            acc = None
            for st in body:
                if isinstance(st, ast.If):
                    cp = M.compare_parts(st.test)
                    if cp and cp[1] is ast.NotEq and sorted([unparse(cp[0]), unparse(cp[2])]) == sorted(["len(%s)" % a, "len(%s)" % b]) \
                            and len(st.body) == 1 and isinstance(st.body[0], ast.Return) and \
                            isinstance(st.body[0].value, ast.Constant) and st.body[0].value.value is False and not st.orelse:
                        has_len = True
                    else:
                        early = True
                elif isinstance(st, ast.Assign) and len(st.targets) == 1 and isinstance(st.targets[0], ast.Name) \
                        and isinstance(st.value, ast.Constant) and st.value.value == 0:
                    acc = st.targets[0].id
                elif isinstance(st, ast.For):
                    inner_ok = True
                    for x in walk_no_defs(st):
                        if isinstance(x, (ast.Break, ast.Return, ast.Continue, ast.If, ast.IfExp)):
                            inner_ok = False
                    it = unparse(st.iter)
                    full = it in ("range(len(%s))" % a, "range(len(%s))" % b, "zip(%s, %s)" % (a, b), "zip(%s, %s)" % (b, a))
                    upd = [x for x in st.body if isinstance(x, ast.AugAssign) and isinstance(x.op, ast.BitOr)
                           and isinstance(x.target, ast.Name) and x.target.id == acc
                           and isinstance(x.value, ast.BinOp) and isinstance(x.value.op, ast.BitXor)]
                    if inner_ok and full and len(upd) == 1 and len(st.body) == 1 and not st.orelse:
                        xor = upd[0].value
                        both = unparse(xor)
                        if a in both and b in both:
                            has_loop = True
                elif isinstance(st, ast.Return):
                    cp = M.compare_parts(st.value)
                    if cp and cp[1] is ast.Eq and unparse(cp[0]) == acc and isinstance(cp[2], ast.Constant) and cp[2].value == 0:
                        has_ret = True
                else:
                    early = True
            ok = has_len and has_loop and has_ret and not early
            detail = "length test=%s, full OR-of-XOR loop=%s, returns acc==0=%s, other statements=%s" % (
                has_len, has_loop, has_ret, early)
    chk.ob("R3.comparator", "util.constant_time_bytes_eq", ok, f.loc, detail)


def run(prog, chk):
    fold = Folder(prog)
    chk.explanation = (
        "Decided structurally: (R1) in each keyed reader mode every path of "
        "Packetizer.read_message to a delivered message passes the MAC comparison "
        "(equal arm) or the AEAD decrypt; ETM verifies before decrypting; (R2) the local "
        "MAC is compute_hmac(mac_key_in, pack('>II', seq_in, packet_size) + <the very "
        "bytes that are delivered/decrypted>, mac_engine_in)[:mac_size_in] and the other "
        "operand comes from the wire; (R3) the comparator is total and constant-time; (R4) "
        "block-alignment guard; (R5) the flag valuations analysed are exactly those "
        "_activate_inbound installs. Not decided: MAC unforgeability (cryptographic assumption).")
    chk.assumptions = ["HMAC / AES-GCM are unforgeable; AESGCM.decrypt raises on a bad tag",
                       "read_message is the only producer of inbound messages (Transport.run)"]
    rm = prog.func("Packetizer.read_message")
    check_comparator(prog, chk)
    from ._shared import check_inc_iv
    check_inc_iv(prog, chk, "R2.aead-nonce-function")

    for mode, flags in sorted(MODES.items()):
        env = dict(KEYED)
        env.update(flags)
        fl = Flow(prog, rm, env=env)
        cfg = fl.cfg
        # verifiers ---------------------------------------------------------
        ver_nodes = []   # (node, guard kind)
        if mode == "aead":
            for (n, c) in fl.nodes_with_call(attr="decrypt"):
                if unparse(c.func.value) == "self.__block_engine_in":
                    ver_nodes.append((n, c))
            chk.ob("R1.verifier-present", mode, len(ver_nodes) >= 1, rm.loc,
                   "%d AEAD decrypt call(s)" % len(ver_nodes))
            ok = fl.exit_dominated(guard_nodes=[n for n, _ in ver_nodes])
            chk.ob("R1.verify-dominates-delivery", mode, ok, rm.loc,
                   "" if ok else "path to return without decrypt: " + fl.witness([cfg.exit.id], [n for n, _ in ver_nodes]))
            for (n, c) in ver_nodes:
                a_iv = M.arg(c, 0)
                good = len(c.args) == 3 and unparse(a_iv) == "self.__iv_in"
                # AAD = the 4 length bytes, ciphertext = everything after them (incl. tag)
                aad = fl.expand_text(c.args[2], n) if len(c.args) == 3 else []
                good = good and bool(aad) and all(t.endswith("[:4]") or t.endswith("[0:4]") for t in aad)
                chk.ob("R2.aead-inputs", mode, good, fl.where(n), unparse(c)[:160] + " aad<-%s" % aad)
                # delivered payload derives from the decrypt result
                a = n.ast
                tgt = a.targets[0].id if isinstance(a, ast.Assign) and isinstance(a.targets[0], ast.Name) else None
                msgs = fl.nodes_with_call(name="Message")
                good = tgt is not None and len(msgs) >= 1
                for (mn, mc) in msgs:
                    bases = data_bases(mc.args[0]) if mc.args else None
                    if not bases:
                        good = False
                        continue
                    roots = set()
                    for bname in bases:
                        roots |= data_roots(fl, bname, mn)
                    good = good and roots == set([n.id])
                chk.ob("R2.delivered-is-verified", mode, good, fl.where(n),
                       "Message(...) payload traces back to the decrypt result: %s" % good)
            # nonce: incremented exactly once per packet, stored back
            inc = [(x, c) for (x, c) in fl.nodes_with_call(attr="_inc_iv_counter")]
            good = len(inc) == 1 and isinstance(inc[0][0].ast, ast.Assign) and \
                unparse(inc[0][0].ast.targets[0]) == "self.__iv_in" and unparse(inc[0][1].args[0]) == "self.__iv_in"
            good = good and fl.exit_dominated(guard_nodes=[inc[0][0]]) if inc else False
            chk.ob("R2.aead-nonce-advances", mode, good, rm.loc, "%d _inc_iv_counter call(s) on the inbound IV" % len(inc))
            continue

        # classic / ETM: comparator cond nodes
        conds = []
        for n in fl.nodes(lambda n: n.kind == "cond"):
            if M.is_call(n.ast) and dotted(n.ast.func) in COMPARATORS:
                conds.append(n)
        chk.ob("R1.verifier-present", mode, len(conds) >= 1, rm.loc, "%d MAC comparison(s) live" % len(conds))
        if not conds:
            continue
        ids = set(c.id for c in conds)

        def guard_edge(s, lab, d, ids=ids):
            return s in ids and lab == "T"

        ok = fl.exit_dominated(guard_edge=guard_edge)
        chk.ob("R1.verify-dominates-delivery", mode, ok, rm.loc,
               "" if ok else "path to return without a passed MAC check: " + fl.witness([cfg.exit.id], guard_edge=guard_edge))
        # mismatch arm must not deliver: from the F edge the normal exit is unreachable
        for c in conds:
            fsucc = [d for (d, lab) in cfg.succ[c.id] if lab == "F"]
            r = cfg.reach(fsucc, avoid_edge=fl.avoid)
            chk.ob("R1.mismatch-raises", mode, cfg.exit.id not in r and bool(fsucc), fl.where(c),
                   "unequal arm of %s cannot reach the return" % unparse(c.ast)[:80])
            # R2: operands
            call = c.ast
            if len(call.args) != 2:
                raise AnalysisError("C02:comparator call", unparse(call))
            exps = [fl.expand(a, c, depth=2) for a in call.args]
            comp_idx = None
            for i, alts in enumerate(exps):
                if all(any(M.is_call(x, name="compute_hmac") for x in ast.walk(alt)) for alt in alts):
                    comp_idx = i
            good = comp_idx is not None
            detail = ""
            if good:
                other = exps[1 - comp_idx]
                for alt in exps[comp_idx]:
                    sl = M.slice_of(alt)
                    if not (sl and sl[1] is None and sl[2] == "self.__mac_size_in" and M.is_call(sl[0], name="compute_hmac")):
                        good = False
                        detail = "computed MAC is not compute_hmac(...)[:self.__mac_size_in]: " + unparse(alt)[:120]
                        break
                    h = sl[0]
                    if not (len(h.args) == 3 and unparse(h.args[0]) == "self.__mac_key_in" and unparse(h.args[2]) == "self.__mac_engine_in"):
                        good = False
                        detail = "wrong key/engine: " + unparse(h)[:120]
                        break
                # find the defining node of the computed mac to expand the payload there
                for alt in other:
                    t = unparse(alt)
                    if "compute_hmac" in t or "read_all" not in t:
                        # received MAC must come from the wire
                        wire = fl.expand_text(call.args[1 - comp_idx], c, depth=4)
                        if not all("read_all" in w and "compute_hmac" not in w for w in wire):
                            good = False
                            detail = "received MAC does not come from read_all: %s" % wire
                    if good:
                        sl = M.slice_of(alt)
                        # received side: read_all(mac_size_in) or post_packet[:mac_size_in]
                        if sl is not None and not (sl[1] is None and sl[2] == "self.__mac_size_in"):
                            good = False
                            detail = "received MAC slice " + t[:100]
                        if sl is None and M.is_call(alt, attr="read_all") and unparse(M.arg(alt, 0)) != "self.__mac_size_in":
                            good = False
                            detail = "received MAC read length " + t[:100]
            chk.ob("R2.mac-operands", mode, good, fl.where(c), detail or "computed[:mac_size_in] vs bytes from the wire")

            # R2: MAC payload = pack('>II', seq_in, packet_size) + <data>
            hm = None
            my = call.args[comp_idx] if comp_idx is not None else None
            mac_node = None
            if isinstance(my, ast.Name):
                ds = fl.defs(my.id, c)
                if len(ds) == 1:
                    mac_node = ds[0][0]
            if mac_node is None:
                mac_node = c
            hcalls = [x for x in node_calls(mac_node) if M.is_call(x, name="compute_hmac")]
            good = len(hcalls) == 1
            detail = ""
            data_var = None
            if good:
                pay = fl.expand(hcalls[0].args[1], mac_node, depth=1)
                for alt in pay:
                    parts = M.flatten_add(alt)
                    if not (len(parts) == 2 and M.is_call(parts[0], name="struct.pack") and len(parts[0].args) == 3
                            and isinstance(parts[0].args[0], ast.Constant) and parts[0].args[0].value in (">II", "!II")
                            and unparse(parts[0].args[1]) == "self.__sequence_number_in"
                            and unparse(parts[0].args[2]) == "packet_size" and isinstance(parts[1], ast.Name)):
                        good = False
                        detail = "MAC input is %s" % unparse(alt)[:160]
                        break
                    data_var = parts[1].id
            chk.ob("R2.mac-input", mode, good, fl.where(mac_node),
                   detail or "pack('>II', seq_in, packet_size) + %s" % data_var)
            if not good or data_var is None:
                continue
            # the MACed packet_size is the one used to cut the payload
            pay_nodes = [n for n in fl.nodes(lambda n: n.kind == "stmt" and isinstance(n.ast, ast.Assign)
                                             and unparse(n.ast.targets[0]) == "payload")]
            # payload node that slices the packet
            cut = [n for n in pay_nodes if M.slice_of(n.ast.value)]
            good = len(cut) == 1
            detail = ""
            if good:
                cn = cut[0]
                base, lo, hi = M.slice_of(cn.ast.value)
                good = isinstance(base, ast.Name) and lo == "1" and hi == "packet_size - padding"
                detail = unparse(cn.ast)
                if good:
                    pd = fl.defs("padding", cn)
                    good = len(pd) == 1 and pd[0][1] is not None and unparse(pd[0][1]) in (
                        "byte_ord(%s[0])" % base.id, "%s[0]" % base.id)
                if good:
                    if mode == "classic":
                        # same bytes are MACed and delivered
                        same = copy_root(fl, base.id, cn) == copy_root(fl, data_var, mac_node)
                        # and that data is decrypted wire data only
                        roots = data_roots(fl, base.id, cn)
                        for rid in roots:
                            ra = fl.cfg.nodes[rid].ast
                            if not (isinstance(ra, ast.Assign) and M.is_call(ra.value, attr="update")
                                    and unparse(ra.value.func.value) == "self.__block_engine_in"):
                                same = False
                        good = same
                        detail += " | delivered %s is the MACed %s: %s" % (base.id, data_var, same)
                    else:
                        # ETM: MAC covers ciphertext; decrypt input must be that ciphertext, after the check
                        dec = [(n, k) for (n, k) in fl.nodes_with_call(attr="update")
                               if unparse(k.func.value) == "self.__block_engine_in"]
                        good = len(dec) == 1
                        if good:
                            dn, dc = dec[0]
                            good = fl.dominated([dn], guard_edge=guard_edge)
                            detail += " | decrypt after verify: %s" % good
                            arg0 = dc.args[0]
                            same = isinstance(arg0, ast.Name) and copy_root(fl, arg0.id, dn) == copy_root(fl, data_var, mac_node)
                            detail += " | decrypt input is the MACed ciphertext: %s" % same
                            good = good and same
                            # delivered packet derives from the decrypt output
                            tgt = dn.ast.targets[0].id if isinstance(dn.ast, ast.Assign) and isinstance(dn.ast.targets[0], ast.Name) else None
                            roots = data_roots(fl, base.id, cn)
                            good = good and tgt is not None and roots == set([dn.id])
                            detail += " | delivered %s <- decrypt output: %s" % (base.id, roots == set([dn.id]))
                    ps1 = frozenset(d[0].id for d in fl.defs("packet_size", cn))
                    ps2 = frozenset(d[0].id for d in fl.defs("packet_size", mac_node))
                    good = good and ps1 == ps2
            chk.ob("R2.delivered-is-verified", mode, good, rm.loc, detail)

        # seq number used in the MAC is read before it is advanced
        seqw = fl.nodes(lambda n: n.kind == "stmt" and isinstance(n.ast, ast.Assign)
                        and unparse(n.ast.targets[0]) == "self.__sequence_number_in")
        good = len(seqw) == 1
        if good:
            r = cfg.reach([seqw[0].id], avoid_edge=fl.avoid)
            good = not any(c.id in r for c in conds)
        chk.ob("R2.seq-before-advance", mode, good, rm.loc, "MAC computed before sequence_number_in is advanced")

        if mode == "classic":
            # R4 alignment guard dominates the body read
            guards = []
            for n in fl.nodes(lambda n: n.kind == "cond"):
                cp = M.compare_parts(n.ast)
                if cp and cp[1] is ast.NotEq and isinstance(cp[2], ast.Constant) and cp[2].value == 0 and \
                        isinstance(cp[0], ast.BinOp) and isinstance(cp[0].op, ast.Mod) and \
                        unparse(cp[0].right) == "self.__block_size_in" and "packet_size" in unparse(cp[0].left):
                    guards.append(n)
            body_reads = [n for (n, c) in fl.nodes_with_call(name="self.read_all") if "packet_size" in unparse(c)]
            gids = set(g.id for g in guards)

            def ge(s, lab, d, gids=gids):
                return s in gids and lab == "F"

            ok = bool(guards) and bool(body_reads) and fl.dominated(body_reads, guard_edge=ge)
            for g in guards:
                tsucc = [d for (d, lab) in cfg.succ[g.id] if lab == "T"]
                r = cfg.reach(tsucc, avoid_edge=fl.avoid)
                ok = ok and cfg.exit.id not in r
            chk.ob("R4.alignment-guard", mode, ok, rm.loc,
                   "%d guard(s) (packet_size - len(leftover)) %% block_size_in != 0 -> raise before the body read" % len(guards))

    # R5: valuations ------------------------------------------------------------
    tenv = fold.class_env("Transport")
    mi = tenv.get("_mac_info")
    if not isinstance(mi, dict):
        raise AnalysisError("Transport._mac_info", "table not foldable")
    chk.floor("R5", "MAC rows", len(mi), 8)
    tpath = prog.cls("Transport").module.path
    for name, row in sorted(mi.items()):
        chk.ob("R5.mac-size-positive", name, isinstance(row.get("size"), int) and row["size"] > 0, tpath, "size=%r" % row.get("size"))
    ai = prog.func("Transport._activate_inbound")
    fl = Flow(prog, ai)
    calls = fl.nodes_with_call(attr="set_inbound_cipher")
    chk.floor("R5", "set_inbound_cipher call", len(calls), 1)
    AEAD = "self._cipher_info[self.remote_cipher].get('is_aead', False)"
    want = {
        "mac_size": "16 if %s else self._mac_info[self.remote_mac]['size']" % AEAD,
        "mac_engine": "None if %s else self._mac_info[self.remote_mac]['class']" % AEAD,
        "etm": "not %s and 'etm@openssh.com' in self.remote_mac" % AEAD,
        "aead": AEAD,
    }
    pos = {"block_engine": 0, "block_size": 1, "mac_engine": 2, "mac_size": 3, "mac_key": 4, "etm": 5, "aead": 6, "iv_in": 7}
    for (n, c) in calls:
        for kw, w in sorted(want.items()):
            a = M.arg(c, pos[kw], kw)
            alts = fl.expand_text(a, n) if a is not None else []
            chk.ob("R5.installed-valuation", kw, alts == [w], fl.where(n), "%s <- %s" % (kw, alts))
    si = prog.func("Packetizer.set_inbound_cipher")
    from ..core.flow import attr_writes
    got = {}
    for (st, t, val) in attr_writes(si.node):
        got.setdefault(t.attr, []).append(unparse(val))
    for fld, par in sorted({"__block_engine_in": "block_engine", "__mac_engine_in": "mac_engine",
                            "__mac_size_in": "mac_size", "__mac_key_in": "mac_key", "__etm_in": "etm",
                            "__aead_in": "aead", "__iv_in": "iv_in", "__block_size_in": "block_size"}.items()):
        chk.ob("R5.setter", fld, got.get(fld) == [par], si.loc, "%s <- %s" % (fld, got.get(fld)))
