"""C26 - receive buffers are lossless FIFOs with correct close and timeout rules (partial)."""
import ast
from ..core.model import AnalysisError, unparse, dotted, walk_no_defs
from ..core.flow import Flow, node_calls, attr_writes
from ..core.locks import LockFlow
from ..core import match as M

FIELDS = ("self._buffer", "self._closed", "self._event")
HELPERS = ("_buffer_frombytes", "_buffer_tobytes")  # only called with the lock held


def touches(node):
    a = node.ast
    if a is None or node.kind in ("entry", "loop_head", "try", "def", "with_exit"):
        return False
    t = unparse(a) if node.kind != "for_iter" else unparse(a.iter)
    return any(f in t for f in FIELDS) or any("self.%s(" % h in t for h in HELPERS)


def run(prog, chk):
    chk.explanation = (
        "Partial: equality of concatenations over interleavings is a value property and is not decided. "
        "Decided: (R1) every access to _buffer/_closed/_event of BufferedPipe is under _lock, released on every "
        "exit; (R2) paired slices: read removes exactly what it returns in both arms, empty returns all and "
        "deletes all; (R3) bytes are appended only by feed, at the tail; (R4) the blocking wait sits in a loop on "
        "(buffer empty and not closed) and feed/close notify_all; (R5) an empty result is returned only when "
        "closed and empty; (R6) inside the wait loop PipeTimeout is raised only after the predicate (still "
        "nothing to return) has been re-tested following the wake-up - a timeout only when no data is available.")
    chk.assumptions = ["array slicing / del have their Python meaning; Condition.wait reacquires the lock"]
    B = prog.classes["BufferedPipe"]
    # R1 ---------------------------------------------------------------------------------
    n = 0
    for f in B.methods.values():
        if f.name == "__init__" or f.name in HELPERS:
            continue
        lf = LockFlow(prog, f)
        acc = [x for x in lf.fl.cfg.nodes if x.id in lf.fl.live and touches(x)]
        if not acc:
            continue
        n += 1
        bad = [x for x in acc if not lf.holds(x, "self._lock")]
        leaks = lf.held_at_exit()
        chk.ob("R1.state-under-lock", f.qual, not bad and not leaks, f.loc,
               "%d accesses, all under _lock, lock released on every exit" % len(acc) if not bad and not leaks else
               "unlocked access at line %s; leaked: %s" % ([b.lineno for b in bad][:3], sorted(leaks)))
    chk.floor("R1", "BufferedPipe methods touching shared state", n, 7)
    for h in HELPERS:
        callers = []
        for f in prog.all_functions():
            for c in walk_no_defs(f.node):
                if M.is_call(c, attr=h):
                    callers.append(f)
        ok = bool(callers)
        for f in callers:
            lf = LockFlow(prog, f)
            for c in walk_no_defs(f.node):
                if M.is_call(c, attr=h):
                    ok = ok and all(lf.holds(x, "self._lock") for x in lf.fl.cfg.node_containing(c))
        chk.ob("R1.helper-callers-hold-lock", h, ok, prog.func("BufferedPipe." + h).loc, "called from %s, always under _lock" % sorted(set(f.qual for f in callers)))

    # R2 ---------------------------------------------------------------------------------
    tb = prog.func("BufferedPipe._buffer_tobytes")
    rets = [unparse(r.value) for r in walk_no_defs(tb.node) if isinstance(r, ast.Return)]
    lim = tb.params()[1]
    chk.ob("R2.tobytes-is-prefix", "_buffer_tobytes", rets == ["self._buffer[:%s].tobytes()" % lim], tb.loc, "returns %s" % rets)
    rd = prog.func("BufferedPipe.read")
    fr = Flow(prog, rd, implicit=False)
    nb = rd.params()[1]
    takes = fr.nodes(lambda x: x.kind == "stmt" and isinstance(x.ast, ast.Assign) and M.is_call(x.ast.value, name="self._buffer_tobytes"))
    dels = fr.nodes(lambda x: x.kind == "stmt" and isinstance(x.ast, ast.Delete))
    ok = len(takes) == 2 and len(dels) == 2
    pairs = []
    if ok:
        for t in takes:
            arg = unparse(t.ast.value.args[0]) if t.ast.value.args else None
            # the delete that follows this take on every path to the exit
            succ = [d for (d, l) in fr.cfg.succ[t.id]]
            mine = [d for d in dels if fr.cfg.dominated([fr.cfg.exit.id], guard_nodes=[d.id], start=succ)]
            good = len(mine) == 1
            if good:
                tgt = mine[0].ast.targets[0]
                sl = M.slice_of(tgt)
                good = bool(sl and unparse(sl[0]) == "self._buffer" and sl[1] is None and sl[2] == arg)
            pairs.append((arg, good))
            ok = ok and good
        # which arm takes the whole buffer: only when len(buffer) <= nbytes
        whole = [t for t in takes if not t.ast.value.args]
        part = [t for t in takes if t.ast.value.args]
        g_le = fr.edge_guard(lambda t_: unparse(t_) in ("len(self._buffer) <= %s" % nb, "%s >= len(self._buffer)" % nb), "T")
        g_gt = fr.edge_guard(lambda t_: unparse(t_) in ("len(self._buffer) <= %s" % nb, "%s >= len(self._buffer)" % nb), "F")
        g_gt2 = fr.edge_guard(lambda t_: unparse(t_) in ("len(self._buffer) > %s" % nb, "%s < len(self._buffer)" % nb), "T")
        g_le2 = fr.edge_guard(lambda t_: unparse(t_) in ("len(self._buffer) > %s" % nb, "%s < len(self._buffer)" % nb), "F")
        ok = ok and len(whole) == 1 and len(part) == 1 and unparse(part[0].ast.value.args[0]) == nb
        ok = ok and fr.dominated(whole, guard_edge=lambda s, lab, d: g_le(s, lab, d) or g_le2(s, lab, d))
        ok = ok and fr.dominated(part, guard_edge=lambda s, lab, d: g_gt(s, lab, d) or g_gt2(s, lab, d))
        outv = unparse(takes[0].ast.targets[0])
        rets = fr.nodes(lambda x: x.kind == "return")
        ok = ok and all(unparse(r.ast.value) == outv for r in rets)
    chk.ob("R2.read-removes-what-it-returns", "read", ok, rd.loc, "take/delete pairs: %s" % pairs)
    em = prog.func("BufferedPipe.empty")
    fe = Flow(prog, em, implicit=False)
    takes = fe.nodes(lambda x: x.kind == "stmt" and isinstance(x.ast, ast.Assign) and M.is_call(x.ast.value, name="self._buffer_tobytes") and not x.ast.value.args)
    dels = fe.nodes(lambda x: x.kind == "stmt" and isinstance(x.ast, ast.Delete) and unparse(x.ast.targets[0]) == "self._buffer[:]")
    rets = fe.nodes(lambda x: x.kind == "return")
    ok = len(takes) == 1 and len(dels) == 1 and len(rets) == 1 and unparse(rets[0].ast.value) == unparse(takes[0].ast.targets[0]) and \
        fe.dominated(dels, guard_nodes=takes) and fe.dominated(rets, guard_nodes=dels)
    chk.ob("R2.empty-returns-all-deletes-all", "empty", ok, em.loc, "out = all; del all; return out")

    # R3 ---------------------------------------------------------------------------------
    fb = prog.func("BufferedPipe._buffer_frombytes")
    body = [unparse(s) for s in fb.node.body if not (isinstance(s, ast.Expr) and isinstance(s.value, ast.Constant))]
    chk.ob("R3.append-at-tail", "_buffer_frombytes", body in (["self._buffer.frombytes(%s)" % fb.params()[1]], ["self._buffer.extend(%s)" % fb.params()[1]]),
           fb.loc, "body %s" % body)
    mut = {}
    for f in B.methods.values():
        for c in walk_no_defs(f.node):
            if isinstance(c, ast.Call) and isinstance(c.func, ast.Attribute) and unparse(c.func.value) == "self._buffer" and \
                    c.func.attr in ("frombytes", "extend", "append", "insert", "pop", "remove", "reverse", "fromlist"):
                mut.setdefault(f.name, []).append(c.func.attr)
            if M.is_call(c, name="self._buffer_frombytes"):
                mut.setdefault(f.name, []).append("_buffer_frombytes")
        for s in walk_no_defs(f.node):
            if isinstance(s, (ast.Assign, ast.AugAssign)):
                for t in (s.targets if isinstance(s, ast.Assign) else [s.target]):
                    if unparse(t).startswith("self._buffer") and f.name != "__init__":
                        mut.setdefault(f.name, []).append("assign")
    chk.ob("R3.only-feed-adds", "BufferedPipe", mut == {"_buffer_frombytes": ["frombytes"], "feed": ["_buffer_frombytes"]} or
           mut == {"_buffer_frombytes": ["extend"], "feed": ["_buffer_frombytes"]}, B.module.path, "mutators: %s" % mut)
    fd = prog.func("BufferedPipe.feed")
    ff = Flow(prog, fd, implicit=False)
    ap = [x for (x, c) in ff.nodes_with_call(name="self._buffer_frombytes")]
    nt = [x for (x, c) in ff.nodes_with_call(name="self._cv.notify_all")]
    ok = len(ap) == 1 and len(nt) == 1 and ff.exit_dominated(guard_nodes=ap) and ff.exit_dominated(guard_nodes=nt)
    if ok:
        c = [c for c in node_calls(ap[0]) if M.is_call(c, name="self._buffer_frombytes")][0]
        ok = unparse(c.args[0]) in ("b(%s)" % fd.params()[1], fd.params()[1])
    chk.ob("R3.feed-appends-and-notifies", "feed", ok, fd.loc, "appends all of the data and notify_all()")

    # R4 ---------------------------------------------------------------------------------
    waits = [x for (x, c) in fr.nodes_with_call(name="self._cv.wait")]
    ok = len(waits) == 1
    if ok:
        # the wait is inside a loop whose test is (len(buffer) == 0) and not closed
        g1 = fr.edge_guard(lambda t_: unparse(t_) == "len(self._buffer) == 0", "T")
        g2 = fr.edge_guard(lambda t_: unparse(t_) == "self._closed", "F")
        ok = fr.dominated(waits, guard_edge=g1) and fr.dominated(waits, guard_edge=g2)
        # and after the wait, before taking data, the predicate is evaluated again (loop): from the wait, the takes
        # are reached only through a test of the buffer length or closed
        succ = [d for (d, l) in fr.cfg.succ[waits[0].id]]
        tk = fr.nodes(lambda x: x.kind == "stmt" and isinstance(x.ast, ast.Assign) and M.is_call(x.ast.value, name="self._buffer_tobytes"))
        gl = lambda s, lab, d: (fr.cfg.nodes[s].kind == "cond" and unparse(fr.cfg.nodes[s].ast) == "len(self._buffer) == 0" and lab == "F") or \
                               (fr.cfg.nodes[s].kind == "cond" and unparse(fr.cfg.nodes[s].ast) == "self._closed" and lab == "T")
        ok = ok and fr.cfg.dominated([t.id for t in tk], guard_edge=gl, start=succ)
    chk.ob("R4.wait-in-predicate-loop", "read", ok, rd.loc, "wait only while (empty and not closed); predicate re-tested after every wake-up")
    cl = prog.func("BufferedPipe.close")
    fc = Flow(prog, cl, implicit=False)
    nt = [x for (x, c) in fc.nodes_with_call(name="self._cv.notify_all")]
    w = fc.nodes(lambda x: x.kind == "stmt" and isinstance(x.ast, ast.Assign) and unparse(x.ast.targets[0]) == "self._closed" and unparse(x.ast.value) == "True")
    chk.ob("R4.close-notifies-all", "close", len(nt) == 1 and len(w) == 1 and fc.exit_dominated(guard_nodes=nt) and fc.exit_dominated(guard_nodes=w), cl.loc,
           "_closed = True and notify_all()")

    # R5 ---------------------------------------------------------------------------------
    outv = None
    rets = fr.nodes(lambda x: x.kind == "return")
    early = []
    for r in rets:
        ds = fr.defs(unparse(r.ast.value), r)
        if any(rhs is not None and unparse(rhs) in ("bytes()", "b''") for (d, rhs) in ds):
            # an empty result can flow to this return: on the paths where it does, closed and empty hold
            empties = [d for (d, rhs) in ds if rhs is not None and unparse(rhs) in ("bytes()", "b''")]
            takes_ids = [t.id for t in fr.nodes(lambda x: x.kind == "stmt" and isinstance(x.ast, ast.Assign) and M.is_call(x.ast.value, name="self._buffer_tobytes"))]
            ge = fr.edge_guard(lambda t_: unparse(t_) == "self._closed", "T")
            gl_ = fr.edge_guard(lambda t_: unparse(t_) == "len(self._buffer) == 0", "T")
            ok5 = fr.dominated([r], guard_nodes=takes_ids, guard_edge=ge) and fr.dominated([r], guard_nodes=takes_ids, guard_edge=gl_)
            early.append(ok5)
    chk.ob("R5.empty-only-when-closed-and-drained", "read", bool(early) and all(early), rd.loc,
           "the initial empty value is returned only on paths through `len(buffer) == 0` and `_closed`")

    # R6 ---------------------------------------------------------------------------------
    raises = fr.nodes(lambda x: x.kind == "raise" and isinstance(x.ast, ast.Raise) and x.ast.exc is not None and "PipeTimeout" in unparse(x.ast.exc))
    chk.floor("R6", "PipeTimeout raise sites", len(raises), 2)
    g_empty = fr.edge_guard(lambda t_: unparse(t_) == "len(self._buffer) == 0", "T")
    g_empty2 = fr.edge_guard(lambda t_: unparse(t_) in ("len(self._buffer) > 0", "self._buffer"), "F")
    ge_ = lambda s, lab, d: g_empty(s, lab, d) or g_empty2(s, lab, d)
    for i, r in enumerate(sorted(raises, key=lambda x: x.lineno)):
        ok = fr.dominated([r], guard_edge=ge_)
        after_wait = False
        if waits:
            reach = fr.cfg.reach([d for (d, l) in fr.cfg.succ[waits[0].id]])
            if r.id in reach:
                after_wait = True
                succ = [d for (d, l) in fr.cfg.succ[waits[0].id]]
                ok = ok and fr.cfg.dominated([r.id], guard_edge=ge_, start=succ)
        chk.ob("R6.timeout-only-without-data", "read:%s" % ("after-wait" if after_wait else "non-blocking"), ok, fr.where(r),
               "PipeTimeout raised only after (re-)testing that the buffer is empty%s" % (" following the wake-up" if after_wait else ""))
