"""C16 - a server pins one username per connection and caps failed attempts."""
import ast
from ..core.model import AnalysisError, unparse, dotted, walk_no_defs
from ..core.consts import Folder
from ..core.flow import Flow, node_calls, attr_writes
from ..core.layout import Extractor, split_messages
from ..core import match as M
from .c14 import auth_methods, AUTH_CLASSES


def is_increment(st, field="self.auth_fail_count"):
    """x += 1  or  x = x + 1  or  x = 1 + x."""
    if isinstance(st, ast.AugAssign):
        return unparse(st.target) == field and isinstance(st.op, ast.Add) and \
            isinstance(st.value, ast.Constant) and st.value.value == 1
    if isinstance(st, ast.Assign) and len(st.targets) == 1 and unparse(st.targets[0]) == field:
        return unparse(st.value) in (field + " + 1", "1 + " + field)
    return False


def pin_rules(prog, chk, prefix=""):
    """R1-R3: service / username guards and the username pin (shared with C14)."""
    ar = prog.func("AuthHandler._parse_userauth_request")
    fl = Flow(prog, ar, env={"self.transport.server_mode": True, "self.authenticated": False})
    callbacks = [n for (n, c) in fl.nodes_with_call() if (dotted(c.func) or "").startswith("self.transport.server_object.")]
    replies = [n for (n, c) in fl.nodes_with_call(name="self._send_auth_result")] + \
              [n for (n, c) in fl.nodes_with_call(name="self._interactive_query")]
    chk.floor(prefix + "R1", "application callbacks in _parse_userauth_request", len(callbacks), 6)
    # R1 service
    g = g2 = None
    svc = fl.nodes(lambda n: n.kind == "cond" and unparse(n.ast) in ("service != 'ssh-connection'", "service == 'ssh-connection'"))
    ok = len(svc) == 1
    if ok:
        okarm = "F" if "!=" in unparse(svc[0].ast) else "T"
        g = lambda s, lab, d: s == svc[0].id and lab == okarm
        ok = fl.dominated(callbacks + replies, guard_edge=g)
        bad = [d for (d, lab) in fl.cfg.succ[svc[0].id] if lab != okarm and lab != "exc"]
        r = fl.cfg.reach(bad, avoid_edge=fl.avoid)
        dis = [n for (n, c) in fl.nodes_with_call(name="self._disconnect_service_not_available") if n.id in r]
        ok = ok and bool(dis) and not any(c.id in r for c in callbacks + replies)
        sd = fl.defs("service", svc[0])
        ok = ok and all(rhs is not None and unparse(rhs) == "m.get_text()" for (d, rhs) in sd)
    chk.ob(prefix + "R1.service-guard", "_parse_userauth_request", ok, ar.loc, "service != 'ssh-connection' => disconnect + return before any callback or reply")
    # R2 username
    un = fl.nodes(lambda n: n.kind == "cond" and unparse(n.ast) in ("self.auth_username != username", "self.auth_username == username"))
    nn = fl.nodes(lambda n: n.kind == "cond" and unparse(n.ast) in ("self.auth_username is not None", "self.auth_username is None"))
    ok = len(un) == 1 and len(nn) == 1
    if ok:
        # passing edges: auth_username is None, or equal to this username
        def g2(s, lab, d):
            if s == un[0].id:
                return lab == ("F" if "!=" in unparse(un[0].ast) else "T")
            if s == nn[0].id:
                return lab == ("F" if "is not None" in unparse(nn[0].ast) else "T")
            return False
        ok = fl.dominated(callbacks + replies, guard_edge=g2)
        bad = [d for (d, lab) in fl.cfg.succ[un[0].id] if lab == ("T" if "!=" in unparse(un[0].ast) else "F")]
        r = fl.cfg.reach(bad, avoid_edge=fl.avoid)
        dis = [n for (n, c) in fl.nodes_with_call(name="self._disconnect_no_more_auth") if n.id in r]
        ok = ok and bool(dis) and not any(c.id in r for c in callbacks + replies)
        ud = fl.defs("username", un[0])
        ok = ok and all(rhs is not None and unparse(rhs) == "m.get_text()" for (d, rhs) in ud)
    chk.ob(prefix + "R2.username-guard", "_parse_userauth_request", ok, ar.loc, "a different username => disconnect + return before any callback or reply")
    # R3 pin
    pin = fl.nodes(lambda n: n.kind == "stmt" and isinstance(n.ast, ast.Assign) and unparse(n.ast.targets[0]) == "self.auth_username")
    ok = len(pin) == 1 and unparse(pin[0].ast.value) == "username"
    if ok:
        ok = g is not None and g2 is not None and fl.dominated(pin, guard_edge=g) and fl.dominated(pin, guard_edge=g2)
        ok = ok and fl.dominated(callbacks + replies, guard_nodes=pin, complete=True)
    chk.ob(prefix + "R3.pin-before-callbacks", "_parse_userauth_request", ok, ar.loc,
           "auth_username = username after both tests and before every callback/reply (a probe pins the name)")
    writers = []
    for f in prog.all_functions():
        for (st, t, v) in attr_writes(f.node):
            if t.attr == "auth_username":
                writers.append(f.qual)
    chk.ob(prefix + "R3.auth-username-writers", "AuthHandler", sorted(set(writers)) == ["AuthHandler.__init__", "AuthHandler._parse_userauth_request"],
           ar.loc, "writers: %s" % sorted(set(writers)))
    # the handler object (holding the pin and the counter) is created once per connection
    pn = prog.func("Transport._parse_newkeys")
    fp = Flow(prog, pn)
    cr = fp.nodes(lambda n: n.kind == "stmt" and isinstance(n.ast, ast.Assign) and unparse(n.ast.targets[0]) == "self.auth_handler")
    ok = len(cr) == 1 and fp.dominated(cr, guard_edge=fp.edge_guard(lambda t: unparse(t) == "self.auth_handler is None", "T"))
    chk.ob(prefix + "R3.auth-handler-created-once", "Transport._parse_newkeys", ok, pn.loc, "AuthHandler(self) only when none exists; a rekey keeps pin and counter")
    srv_creators = []
    for f in prog.all_functions():
        if f.cls is not None and prog.is_subclass(f.cls.name, "Transport"):
            for (st, t, v) in attr_writes(f.node):
                if t.attr == "auth_handler" and isinstance(t.value, ast.Name) and t.value.id == "self" and M.is_call(v):
                    srv_creators.append(f.qual)
    chk.note("auth_handler creators (server: _parse_newkeys; the auth_* methods are client side): %s" % sorted(set(srv_creators)))



def run(prog, chk):
    fold = Folder(prog)
    chk.explanation = (
        "Decided structurally in AuthHandler._parse_userauth_request / _send_auth_result: (R1) the service "
        "test and (R2) the username test dominate every application callback and every reply, their failing "
        "arms disconnect and return; (R3) auth_username is written only there, after both tests and before "
        "any callback (so even a probe pins the name), and the per-connection AuthHandler is created only "
        "once (a rekey does not reset it); (R4) the disconnect helpers send MSG_DISCONNECT and close the "
        "transport; (R5) every non-partial failure increments auth_fail_count exactly once, the counter has "
        "no other writer and is never reset, and count >= 10 disconnects after the reply.")
    chk.assumptions = ["Transport.close() clears `active`, the run-loop condition (C13)"]
    pin_rules(prog, chk)

    # R4 disconnect helpers ----------------------------------------------------------------------
    cenv = fold.module_env("common")
    for nm in ("_disconnect_service_not_available", "_disconnect_no_more_auth"):
        f = prog.func("AuthHandler." + nm)
        ff = Flow(prog, f)
        ex = Extractor()
        lays = set()
        for (ev, kind) in ex.function(f.node):
            for m in split_messages(ev):
                lays.add(tuple(k for (k, t) in m["fields"]) + (m["fields"][0][1],))
        snd = [n for (n, c) in ff.nodes_with_call(name="self.transport._send_message")]
        cl = [n for (n, c) in ff.nodes_with_call(name="self.transport.close")]
        ok = lays == set([("byte", "uint32", "string", "string", "cMSG_DISCONNECT")]) and len(snd) == 1 and len(cl) == 1 and \
            ff.exit_dominated(guard_nodes=cl) and ff.dominated(cl, guard_nodes=snd) and cenv.get("cMSG_DISCONNECT") == b"\x01"
        chk.ob("R4.disconnect-helper", nm, ok, f.loc, "sends MSG_DISCONNECT then closes the transport")
    tc = prog.func("Transport.close")
    st_ = prog.func("Transport.stop_thread")
    ok = any(M.is_call(c, name="self.stop_thread") for c in walk_no_defs(tc.node)) and \
        any(t.attr == "active" and isinstance(v, ast.Constant) and v.value is False for (s, t, v) in attr_writes(st_.node))
    chk.ob("R4.close-deactivates", "Transport.close", ok, tc.loc, "close() -> stop_thread() -> active = False")

    # R5 failure cap ---------------------------------------------------------------------------------
    sar = prog.func("AuthHandler._send_auth_result")
    rp = sar.params()[3]
    env = {"%s == AUTH_SUCCESSFUL" % rp: False, "%s == AUTH_PARTIALLY_SUCCESSFUL" % rp: False}
    ff = Flow(prog, sar, env=env)
    inc = ff.nodes(lambda n: n.kind == "stmt" and is_increment(n.ast))
    ok = len(inc) == 1 and ff.exit_dominated(guard_nodes=inc)
    if ok:
        r = ff.cfg.reach([d for (d, l) in ff.cfg.succ[inc[0].id]], avoid_edge=ff.avoid)
        ok = inc[0].id not in r
    chk.ob("R5.failure-counted-once", "_send_auth_result", ok, sar.loc, "a failed (non-partial) attempt increments auth_fail_count exactly once")
    for lab, e2 in (("success", {"%s == AUTH_SUCCESSFUL" % rp: True}),
                    ("partial", {"%s == AUTH_SUCCESSFUL" % rp: False, "%s == AUTH_PARTIALLY_SUCCESSFUL" % rp: True})):
        f2 = Flow(prog, sar, env=e2)
        w = f2.nodes(lambda n: n.kind == "stmt" and isinstance(n.ast, (ast.Assign, ast.AugAssign)) and "auth_fail_count" in unparse(
            n.ast.targets[0] if isinstance(n.ast, ast.Assign) else n.ast.target))
        chk.ob("R5.counter-untouched-otherwise", lab, not w, sar.loc, "counter not modified on %s" % lab)
    fa = Flow(prog, sar)
    cap = fa.nodes(lambda n: n.kind == "cond" and M.at_least(n.ast, "self.auth_fail_count", 10))
    snd = [n for (n, c) in fa.nodes_with_call(name="self.transport._send_message")]
    dis = [n for (n, c) in fa.nodes_with_call(name="self._disconnect_no_more_auth")]
    ok = len(cap) == 1 and len(snd) == 1 and len(dis) == 1
    if ok:
        ok = fa.dominated(cap, guard_nodes=snd) and fa.dominated(dis, guard_edge=lambda s, lab, d: s == cap[0].id and lab == "T")
        # every normal path evaluates the cap after the reply
        ok = ok and fa.exit_dominated(guard_nodes=cap)
        # with count >= 10 the disconnect is unavoidable
        f3 = Flow(prog, sar, env={unparse(cap[0].ast): True})
        d3 = [n for (n, c) in f3.nodes_with_call(name="self._disconnect_no_more_auth")]
        ok = ok and bool(d3) and f3.exit_dominated(guard_nodes=d3)
    chk.ob("R5.cap-at-ten", "_send_auth_result", ok, sar.loc, "after the reply: auth_fail_count >= 10 => _disconnect_no_more_auth()")
    w = []
    for f in prog.all_functions():
        for (st, t, v) in attr_writes(f.node):
            if t.attr == "auth_fail_count":
                w.append((f.qual, "increment" if is_increment(st) else "%s %s" % (type(st).__name__, unparse(v))))
    chk.ob("R5.counter-writers", "auth_fail_count", sorted(w) == [("AuthHandler.__init__", "Assign 0"), ("AuthHandler._send_auth_result", "increment")],
           sar.loc, "writers: %s" % sorted(w))
