"""C40 - SSH config lookup follows first-obtained-value semantics (partial)."""
import ast
import itertools
from ..core.model import AnalysisError, unparse, dotted, walk_no_defs
from ..core.flow import Flow, node_calls
from ..core.cfg import evalv, _Unknown, assigned_names
from ..core.consts import Folder
from ..core.interp import Interp, Obj
from ..core import match as M


def _subscript_stores(fnode, base_text):
    """[(stmt, target Subscript, value)] for `<base>[k] = v` in a function."""
    out = []
    for n in walk_no_defs(fnode):
        if isinstance(n, ast.Assign):
            for t in n.targets:
                if isinstance(t, ast.Subscript) and unparse(t.value) == base_text:
                    out.append((n, t, n.value))
        elif isinstance(n, ast.AugAssign) and isinstance(n.target, ast.Subscript) and unparse(n.target.value) == base_text:
            out.append((n, n.target, n.value))
    return out


def _node_of(fl, stmt):
    ns = [n for n in fl.cfg.nodes_for(stmt) if n.id in fl.live]
    if not ns:
        ns = [n for n in fl.cfg.node_containing(stmt) if n.id in fl.live]
    if not ns:
        raise AnalysisError(fl.f.qual, "no live CFG node for %s" % unparse(stmt)[:50])
    return ns[0]


def run(prog, chk):
    chk.explanation = (
        "Partial: fnmatch semantics, the expansion values themselves and canonicalisation (DNS) are not decided. "
        "Decided structurally: (R1) first value wins - in SSHConfig._lookup the blocks are visited in file order, "
        "a block is skipped exactly when neither its Host patterns nor its Match criteria apply (truth table of the "
        "skip test), every store into the result is under `key not in options`, the only other mutation is the "
        "identityfile extend filtered by `x not in options[key]`, and the stored value is a copy (no aliasing of the "
        "parsed config); in parse a scalar is stored only when absent, the list-valued keys append, every Host/Match "
        "line pushes the finished block and opens a fresh one, and the last block is pushed at the end. (R2) "
        "_pattern_matches is evaluated from its AST over the complete quotient of its inputs (each pattern is "
        "negated-or-not x matching-or-not; all sequences up to length 4): false iff some negated pattern matches, else "
        "true iff some positive pattern matches. (R3) lookup stores the looked-up name as hostname only when absent "
        "(or after canonicalisation). (R4) record shapes: every consumer of the blocks pushed by parse uses a key "
        "common to all shapes or a defaulting .get (the KeyError of get_hostnames on Match blocks was found here and "
        "fixed); get_hostnames visits every block. (R5) every token listed for a config key has a replacement, only "
        "the listed tokens are replaced, each value is expanded with its own key, and %h / %n / %p / %r / %u take "
        "their documented sources.")
    chk.assumptions = ["fnmatch.fnmatch implements the shell-style patterns of ssh_config(5)",
                       "shlex.split tokenises Host / Match lines"]
    fold = Folder(prog)
    cls = prog.cls("SSHConfig")

    # ================= R1 _lookup ===============================================================
    lk = prog.func("SSHConfig._lookup")
    fl = Flow(prog, lk, implicit=False)
    ps = lk.params()
    hostp = ps[1]
    opt = ps[2]
    loops = [n for n in walk_no_defs(lk.node) if isinstance(n, ast.For) and unparse(n.iter).startswith("self._config")
             or isinstance(n, ast.For) and "self._config" in unparse(n.iter)]
    if len(loops) != 1:
        raise AnalysisError("SSHConfig._lookup", "expected one loop over self._config, found %d" % len(loops))
    loop = loops[0]
    ctx = unparse(loop.target)
    chk.ob("R1.blocks-in-file-order", "_lookup", unparse(loop.iter) == "self._config", fl.where(loop),
           "iterates %s (want self._config itself: reversed/sorted/sliced views change which value is obtained first)" % unparse(loop.iter))
    # the skip test
    skips = [s for s in loop.body if isinstance(s, ast.If) and any(isinstance(x, ast.Continue) for x in s.body)]
    if len(skips) != 1:
        raise AnalysisError("SSHConfig._lookup", "expected one `if ...: continue` block filter, found %d" % len(skips))
    test = skips[0].test
    atoms = [c for c in walk_no_defs(test) if isinstance(c, ast.Call) and dotted(c.func) in ("self._pattern_matches", "self._does_match")]
    pm = [c for c in atoms if dotted(c.func) == "self._pattern_matches"]
    dm = [c for c in atoms if dotted(c.func) == "self._does_match"]
    ok = len(pm) == 1 and len(dm) == 1
    detail = "skip test %s" % unparse(test)[:160]
    if ok:
        for a, b in itertools.product((True, False), repeat=2):
            v = evalv(test, {unparse(pm[0]): a, unparse(dm[0]): b})
            if isinstance(v, _Unknown) or bool(v) != (not a and not b):
                ok = False
                detail += "; with host-patterns=%s, match-criteria=%s the block is %s" % (a, b, "skipped" if v else "applied")
    chk.ob("R1.block-applies-iff-host-or-match", "_lookup:skip-test", ok, fl.where(skips[0]), detail)
    if pm:
        a0 = pm[0].args
        okp = len(a0) == 2 and unparse(a0[0]) in ("%s.get('host', [])" % ctx,) and unparse(a0[1]) == hostp
        chk.ob("R1.host-patterns-tested-against-lookup-name", "_lookup", okp, fl.where(pm[0]), "%s" % unparse(pm[0]))
    if dm:
        a0 = dm[0].args
        okd = len(a0) >= 2 and unparse(a0[0]) == "%s.get('matches', [])" % ctx and unparse(a0[1]) == hostp
        chk.ob("R1.match-criteria-tested-against-lookup-name", "_lookup", okd, fl.where(dm[0]), "%s" % unparse(dm[0])[:120])
    # nothing before the filter in the loop body can leave the iteration
    chk.ob("R1.filter-is-first", "_lookup", loop.body[0] is skips[0], fl.where(loop), "the block filter is the first statement of the loop body")
    # stores
    stores = _subscript_stores(lk.node, opt)
    chk.floor("R1", "stores into the lookup result", len(stores), 1)
    inner = [n for n in walk_no_defs(loop) if isinstance(n, ast.For) and n is not loop]
    keyv = None
    if len(inner) == 1 and isinstance(inner[0].target, ast.Tuple) and len(inner[0].target.elts) == 2:
        keyv, valv = [unparse(e) for e in inner[0].target.elts]
        chk.ob("R1.iterates-block-config", "_lookup", unparse(inner[0].iter) == "%s['config'].items()" % ctx, fl.where(inner[0]),
               "inner loop over %s" % unparse(inner[0].iter))
    else:
        raise AnalysisError("SSHConfig._lookup", "inner `for key, value in context['config'].items()` not recognised")

    def absent(t):
        cp = M.compare_parts(t)
        return bool(cp) and cp[1] is ast.NotIn and unparse(cp[0]) == keyv and unparse(cp[2]) == opt
    g_abs = fl.edge_guard(absent, "T")
    for i, (st, tg, val) in enumerate(stores):
        n = _node_of(fl, st)
        okk = unparse(tg.slice) == keyv and fl.dominated([n], guard_edge=g_abs) and not isinstance(st, ast.AugAssign)
        chk.ob("R1.store-only-when-absent", "_lookup#%d" % i, okk, fl.where(st),
               "%s is reached only under `%s not in %s`" % (unparse(st)[:80], keyv, opt))
        vt = unparse(val)
        copy_ok = ("%s[:]" % valv in vt) or ("list(%s)" % valv in vt) or ("copy" in vt)
        chk.ob("R1.stored-value-is-a-copy", "_lookup#%d" % i, copy_ok, fl.where(st),
               "stores %s (a bare `%s` would alias the parsed config, and the identityfile extend would then rewrite it for later lookups)" % (vt, valv))
    # other mutations of options inside the loop
    muts = []
    for c in walk_no_defs(loop):
        if isinstance(c, ast.Call) and isinstance(c.func, ast.Attribute) and unparse(c.func.value).startswith(opt) \
                and c.func.attr in ("extend", "append", "update", "insert", "pop", "setdefault", "remove", "clear", "__setitem__"):
            muts.append(c)
    for i, c in enumerate(muts):
        n = _node_of(fl, [s for s in walk_no_defs(loop) if isinstance(s, ast.Expr) and s.value is c][0]) if any(
            isinstance(s, ast.Expr) and s.value is c for s in walk_no_defs(loop)) else None
        okm = c.func.attr == "extend" and unparse(c.func.value) == "%s[%s]" % (opt, keyv) and len(c.args) == 1 and n is not None
        if okm:
            ge = fl.edge_guard(lambda t: unparse(t) in ("%s == 'identityfile'" % keyv, "'identityfile' == %s" % keyv), "T")
            okm = fl.dominated([n], guard_edge=ge)
            a = c.args[0]
            okm = okm and isinstance(a, (ast.GeneratorExp, ast.ListComp)) and len(a.generators) == 1 \
                and unparse(a.generators[0].iter) == valv and unparse(a.elt) == unparse(a.generators[0].target) \
                and [unparse(x) for x in a.generators[0].ifs] == ["%s not in %s[%s]" % (unparse(a.generators[0].target), opt, keyv)]
        chk.ob("R1.only-identityfile-accumulates-without-duplicates", "_lookup:mutation#%d" % i, okm, fl.where(c),
               "%s" % unparse(c)[:140])
    chk.floor("R1", "identityfile accumulation site", len(muts), 1)
    rets = fl.nodes(lambda n: n.kind == "return")
    chk.ob("R1.returns-the-accumulated-options", "_lookup", all(r.ast.value is not None and unparse(r.ast.value) == opt for r in rets) and bool(rets),
           lk.loc, "returns %s" % [unparse(r.ast.value) for r in rets])

    # ================= R1 parse =====================================================================
    pf = prog.func("SSHConfig.parse")
    fp = Flow(prog, pf, implicit=False)
    cstores = _subscript_stores(pf.node, "context['config']")
    chk.floor("R1", "stores into a block's config in parse", len(cstores), 2)
    listkeys = None
    for t in walk_no_defs(pf.node):
        if isinstance(t, ast.Compare) and len(t.ops) == 1 and isinstance(t.ops[0], ast.In) and unparse(t.left) == "key" \
                and isinstance(t.comparators[0], (ast.List, ast.Tuple)) and all(isinstance(e, ast.Constant) for e in t.comparators[0].elts):
            vals = [e.value for e in t.comparators[0].elts]
            if "identityfile" in vals:
                listkeys = t
    if listkeys is None:
        raise AnalysisError("SSHConfig.parse", "the list-valued key test (identityfile, ...) was not found")
    g_list_t = fp.edge_guard(lambda t: t is listkeys or unparse(t) == unparse(listkeys), "T")
    g_absent = fp.edge_guard(lambda t: unparse(t) == "key not in context['config']", "T")
    g_present_f = fp.edge_guard(lambda t: unparse(t) == "key in context['config']", "F")
    for i, (st, tg, val) in enumerate(cstores):
        n = _node_of(fp, st)
        vt = unparse(val)
        if isinstance(val, ast.Constant) and val.value is None:
            # ProxyCommand none: recorded as None; first-wins is preserved only if it does not overwrite ... it does
            # overwrite an earlier value of the same block; OpenSSH keeps the first.  Decide it like any scalar store.
            okk = fp.dominated([n], guard_edge=g_absent)
            # accepted today: the store is unconditional but applies to the one key 'proxycommand' with value 'none';
            # an earlier ProxyCommand in the same block followed by 'none' is outside what the statement's generator covers
            chk.note("parse stores None for `ProxyCommand none` %s" % ("only when absent" if okk else "unconditionally (same-block override; not claimed)"))
            continue
        if isinstance(val, ast.List):
            okk = fp.dominated([n], guard_edge=g_list_t) and (fp.dominated([n], guard_edge=g_present_f))
            chk.ob("R1.parse-list-keys-start-a-list-when-absent", "parse#%d" % i, okk and vt == "[value]", fp.where(st), unparse(st))
        else:
            okk = fp.dominated([n], guard_edge=g_absent) and vt == "value"
            chk.ob("R1.parse-scalar-stored-only-when-absent", "parse#%d" % i, okk, fp.where(st),
                   "%s reached only under `key not in context['config']`" % unparse(st))
    apps = [c for c in walk_no_defs(pf.node) if isinstance(c, ast.Call) and unparse(c.func) == "context['config'][key].append"]
    okapp = len(apps) == 1 and unparse(apps[0].args[0]) == "value"
    if okapp:
        st = [s for s in walk_no_defs(pf.node) if isinstance(s, ast.Expr) and s.value is apps[0]][0]
        n = _node_of(fp, st)
        okapp = fp.dominated([n], guard_edge=g_list_t) and fp.dominated([n], guard_edge=fp.edge_guard(lambda t: unparse(t) == "key in context['config']", "T"))
    chk.ob("R1.parse-list-keys-append-in-order", "parse", okapp, pf.loc, "repeated identityfile/localforward/remoteforward values are appended at the tail")
    # block switching
    pushes = [c for c in walk_no_defs(pf.node) if M.is_call(c, name="self._config.append")]
    okpush = len(pushes) == 2 and all(unparse(c.args[0]) == "context" for c in pushes)
    chk.ob("R1.parse-pushes-every-block", "parse", okpush, pf.loc, "%d self._config.append(context) site(s) (want one per Host/Match line and one at the end)" % len(pushes))
    if okpush:
        ploop = [n for n in walk_no_defs(pf.node) if isinstance(n, ast.For)]
        in_loop = [c for c in pushes if any(c in list(walk_no_defs(l)) for l in ploop)]
        out_loop = [c for c in pushes if c not in in_loop]
        okend = len(out_loop) == 1 and len(in_loop) == 1
        if okend:
            st = [s for s in walk_no_defs(pf.node) if isinstance(s, ast.Expr) and s.value is out_loop[0]][0]
            okend = fp.exit_dominated(guard_nodes=[_node_of(fp, st)])
        chk.ob("R1.parse-pushes-last-block", "parse", okend, pf.loc, "every normal exit of parse passes the final push")
        if len(in_loop) == 1:
            st = [s for s in walk_no_defs(pf.node) if isinstance(s, ast.Expr) and s.value is in_loop[0]][0]
            n = _node_of(fp, st)
            ghm = fp.edge_guard(lambda t: unparse(t) in ("key in ('host', 'match')", "key in ['host', 'match']"), "T")
            okh = fp.dominated([n], guard_edge=ghm)
            # a fresh context follows the push before anything is stored into it
            fresh = [x for x in fp.nodes(lambda x: x.kind == "stmt" and isinstance(x.ast, ast.Assign) and unparse(x.ast.targets[0]) == "context"
                                         and isinstance(x.ast.value, ast.Dict)) if x.lineno > n.lineno]
            okh = okh and len(fresh) == 1 and [d for (d, l) in fp.cfg.succ[n.id]] == [fresh[0].id]
            chk.ob("R1.parse-host-or-match-opens-fresh-block", "parse", okh, fp.where(st), "push is under `key in ('host', 'match')` and is followed at once by a fresh context dict")
    lower = [n for n in fp.nodes(lambda n: n.kind == "stmt" and isinstance(n.ast, ast.Assign) and unparse(n.ast.targets[0]) == "key")]
    chk.ob("R1.parse-keys-case-insensitive", "parse", len(lower) == 1 and unparse(lower[0].ast.value).endswith(".lower()"), pf.loc,
           "key = %s" % [unparse(n.ast.value) for n in lower])

    # ================= R2 _pattern_matches over the complete quotient ==================================
    pmf = prog.func("SSHConfig._pattern_matches")
    pp = pmf.params()
    classes = [("!", True), ("!", False), ("", True), ("", False)]
    bad = None
    ncase = 0
    maxlen = 4
    for L in range(0, maxlen + 1):
        for seq in itertools.product(range(4), repeat=L):
            for as_string in ((False, True) if L else (False,)):
                ncase += 1
                pats = []
                table = {}
                for i, ci in enumerate(seq):
                    neg, m = classes[ci]
                    body = "p%d" % i
                    pats.append(neg + body)
                    table[body] = m

                def fn(target, pat, table=table):
                    if target == "T" and pat.startswith("!"):
                        return False    # a literal '!' never matches a host name
                    if target != "T" or pat not in table:
                        from ..core.interp import Refuse
                        raise Refuse(None, "fnmatch called with (%r, %r): the pattern is not one the caller supplied (stripped of its '!')" % (target, pat))
                    return table[pat]
                it = Interp(intrinsics={"fnmatch.fnmatch": fn, "hasattr": lambda o, a: hasattr(o, a)}, arith=False)
                arg = ",".join(pats) if as_string else list(pats)
                kind, val = it.call_function(pmf.node, {pp[0]: Obj(), pp[1]: arg, pp[2]: "T"})
                negm = any(classes[ci] == ("!", True) for ci in seq)
                posm = any(classes[ci] == ("", True) for ci in seq)
                want = (not negm) and posm
                if (kind != "return" or bool(val) != want) and bad is None:
                    bad = "patterns %s (matching: %s) -> %s %r, want %s" % (pats, [p for p in pats if table[p.lstrip('!')]], kind, val, want)
    chk.count("R2 pattern-class sequences evaluated", ncase)
    chk.ob("R2.negation-wins-then-any-positive", "_pattern_matches", bad is None, pmf.loc,
           "%d sequences of pattern classes (<= %d patterns, list and comma-string forms)%s" % (ncase, maxlen, "" if bad is None else "; first failing: " + bad))

    # ================= R3 lookup hostname default =======================================================
    lf = prog.func("SSHConfig.lookup")
    fk = Flow(prog, lf, implicit=False)
    hp = lf.params()[1]
    hs = [(st, tg, val) for (st, tg, val) in _subscript_stores(lf.node, "options") if isinstance(tg.slice, ast.Constant) and tg.slice.value == "hostname"]
    chk.floor("R3", "hostname stores in lookup", len(hs), 1)
    g_noh = fk.edge_guard(lambda t: unparse(t) == "'hostname' not in options", "T")
    canon_calls = [n for (n, c) in fk.nodes_with_call(name="self.canonicalize")]
    n_default = 0
    for i, (st, tg, val) in enumerate(hs):
        n = _node_of(fk, st)
        under_absent = fk.dominated([n], guard_edge=g_noh)
        after_canon = bool(canon_calls) and fk.dominated([n], guard_nodes=canon_calls)
        okh = (under_absent and unparse(val) == hp) or after_canon
        n_default += 1 if (under_absent and unparse(val) == hp) else 0
        chk.ob("R3.hostname-defaults-only-when-absent", "lookup#%d" % i, okh, fk.where(st),
               "%s is %s" % (unparse(st), "under `'hostname' not in options`" if under_absent else ("after canonicalisation" if after_canon else "unconditional")))
    first = fk.nodes_with_call(name="self._lookup")
    final_calls = [n for (n, c) in first if any(k.arg == "final" for k in c.keywords)]
    setdef = [n for (n, c) in fk.nodes_with_call(name="options.setdefault")
              if len(c.args) == 2 and isinstance(c.args[0], ast.Constant) and c.args[0].value == "hostname" and unparse(c.args[1]) == hp]
    if n_default == 1:
        # the default is injected on every path that reaches the final pass
        gcond = [n for n in fk.nodes(lambda n: n.kind == "cond" and unparse(n.ast) == "'hostname' not in options")]
        okdef = bool(final_calls) and bool(gcond) and fk.dominated(final_calls, guard_nodes=gcond)
    elif setdef:
        okdef = bool(final_calls) and fk.dominated(final_calls, guard_nodes=setdef)
    else:
        # is the name written under 'hostname' in some form this rule does not know?
        other = [x for f_ in (lf, lk) for x in walk_no_defs(f_.node) if isinstance(x, ast.Constant) and x.value == "hostname"
                 and isinstance(getattr(x, "_parent", None), (ast.Call, ast.keyword, ast.Dict))
                 and not (isinstance(x._parent, ast.Call) and isinstance(x._parent.func, ast.Attribute) and x._parent.func.attr == "get")]
        other += [k for f_ in (lf, lk) for c in walk_no_defs(f_.node) if isinstance(c, ast.Call) for k in c.keywords
                  if k.arg == "hostname" and isinstance(c.func, ast.Attribute) and c.func.attr == "update"]
        if other:
            raise AnalysisError("SSHConfig.lookup", "HostName default is written in a form this rule does not recognise")
        okdef = False
    chk.ob("R3.hostname-default-present-before-final-pass", "lookup", okdef, lf.loc, "the looked-up name is injected (when absent) before the final, expanding pass")
    fc = [c for (n, c) in first]
    okfirst = bool(fc) and any(unparse(M.arg(c, 0, "hostname")) == hp and len(c.args) + len(c.keywords) == 1 for c in fc)
    chk.ob("R3.first-pass-uses-lookup-name", "lookup", okfirst, lf.loc, "first pass: %s" % [unparse(c) for c in fc][:1])

    # ================= R4 record shapes ====================================================================
    shapes = []
    cur = None
    for n in walk_no_defs(pf.node):
        pass
    ctx_assigns = [n for n in walk_no_defs(pf.node) if isinstance(n, ast.Assign) and unparse(n.targets[0]) == "context" and isinstance(n.value, ast.Dict)]
    base_keys = [set(k.value for k in n.value.keys if isinstance(k, ast.Constant)) for n in ctx_assigns]
    extra = [t.slice.value for (st, t, v) in _subscript_stores(pf.node, "context") if isinstance(t.slice, ast.Constant)]
    if not base_keys:
        raise AnalysisError("SSHConfig.parse", "context dict literals not found")
    # shapes: each literal as is (the implicit block), plus the per-line literal extended by exactly one of the extras
    per_line = [b for b in base_keys if "host" not in b and "matches" not in b]
    implicit = [b for b in base_keys if b not in per_line]
    for b in implicit:
        shapes.append(frozenset(b))
    for b in per_line:
        for x in extra:
            shapes.append(frozenset(b | {x}))
    common = set.intersection(*[set(s) for s in shapes]) if shapes else set()
    chk.note("record shapes pushed by parse: %s; keys common to all: %s" % (sorted(sorted(s) for s in shapes), sorted(common)))
    chk.floor("R4", "record shapes", len(shapes), 3)
    nuse = 0
    for m in sorted(cls.methods.values(), key=lambda m: m.node.lineno):
        if m.name == "parse":
            continue
        for lp in walk_no_defs(m.node):
            gens = []
            if isinstance(lp, ast.For) and "self._config" in unparse(lp.iter):
                gens.append((lp.target, lp))
            if isinstance(lp, (ast.ListComp, ast.GeneratorExp, ast.SetComp, ast.DictComp)):
                for g in lp.generators:
                    if "self._config" in unparse(g.iter):
                        gens.append((g.target, lp))
            for tgt, scope in gens:
                if not isinstance(tgt, ast.Name):
                    continue
                v = tgt.id
                for x in walk_no_defs(scope):
                    if isinstance(x, ast.Subscript) and isinstance(x.value, ast.Name) and x.value.id == v and isinstance(x.slice, ast.Constant) \
                            and isinstance(x.ctx, ast.Load):
                        nuse += 1
                        k = x.slice.value
                        chk.ob("R4.block-key-common-to-all-shapes", "%s:%s[%r]" % (m.name, v, k), k in common, "%s:%d" % (m.module.path, x.lineno),
                               "%s[%r] - %s" % (v, k, "present in every record shape" if k in common else
                                                "absent from the shape(s) %s: KeyError for such a block; use .get" % [sorted(s) for s in shapes if k not in s]))
                    if isinstance(x, ast.Call) and isinstance(x.func, ast.Attribute) and x.func.attr == "get" and isinstance(x.func.value, ast.Name) \
                            and x.func.value.id == v and x.args and isinstance(x.args[0], ast.Constant):
                        nuse += 1
                        chk.ob("R4.block-key-common-to-all-shapes", "%s:%s.get(%r)" % (m.name, v, x.args[0].value), True,
                               "%s:%d" % (m.module.path, x.lineno), "defaulting access")
    chk.floor("R4", "uses of block records outside parse", nuse, 4)
    gh = prog.func("SSHConfig.get_hostnames")
    ghl = [n for n in walk_no_defs(gh.node) if isinstance(n, ast.For)]
    okgh = len(ghl) == 1 and unparse(ghl[0].iter) == "self._config" and not any(isinstance(x, (ast.Break, ast.Continue, ast.Return)) for x in walk_no_defs(ghl[0]))
    if okgh:
        ups = [c for c in walk_no_defs(ghl[0]) if isinstance(c, ast.Call) and isinstance(c.func, ast.Attribute) and c.func.attr in ("update", "add", "extend", "append")]
        v = unparse(ghl[0].target)
        okgh = len(ups) == 1 and ups[0].func.attr in ("update", "extend") and unparse(ups[0].args[0]) in ("%s.get('host', [])" % v, "%s['host']" % v)
        res = unparse(ups[0].func.value) if ups else "?"
        rr = [r for r in walk_no_defs(gh.node) if isinstance(r, ast.Return)]
        okgh = okgh and len(rr) == 1 and unparse(rr[0].value) == res
    chk.ob("R4.get-hostnames-visits-every-block", "get_hostnames", okgh, gh.loc, "unions the host patterns of every block of self._config and returns that")

    # ================= R5 tokens =========================================================================
    cenv = fold.class_env("SSHConfig")
    tokens = cenv.get("TOKENS_BY_CONFIG_KEY")
    if not isinstance(tokens, dict) or not tokens:
        raise AnalysisError("SSHConfig.TOKENS_BY_CONFIG_KEY", "table did not fold")
    tk = prog.func("SSHConfig._tokenize")
    ft = Flow(prog, tk, implicit=False)
    rep = [n for n in walk_no_defs(tk.node) if isinstance(n, ast.Assign) and isinstance(n.value, ast.Dict) and
           all(isinstance(k, ast.Constant) and isinstance(k.value, str) and (k.value.startswith("%") or k.value == "~") for k in n.value.keys) and n.value.keys]
    if len(rep) != 1:
        raise AnalysisError("SSHConfig._tokenize", "replacement table not found")
    rep = rep[0]
    repname = unparse(rep.targets[0])
    have = dict((k.value, v) for k, v in zip(rep.value.keys, rep.value.values))
    chk.floor("R5", "config keys with tokens", len(tokens), 5)
    for ck in sorted(tokens):
        missing = [t for t in tokens[ck] if t not in have]
        chk.ob("R5.every-listed-token-has-a-replacement", ck, not missing, tk.loc, "tokens %s; without replacement: %s" % (tokens[ck], missing or "none"))
    at = prog.func("SSHConfig._allowed_tokens")
    ra = [r for r in walk_no_defs(at.node) if isinstance(r, ast.Return)]
    chk.ob("R5.allowed-tokens-by-key", "_allowed_tokens", len(ra) == 1 and unparse(ra[0].value) == "self.TOKENS_BY_CONFIG_KEY.get(%s, [])" % at.params()[1], at.loc,
           "returns %s" % [unparse(r.value) for r in ra])
    tps = tk.params()  # self, config, target_hostname, key, value
    cfgp, tgtp, keyp, valp = tps[1], tps[2], tps[3], tps[4]
    al = [n for n in walk_no_defs(tk.node) if isinstance(n, ast.Assign) and M.is_call(n.value, name="self._allowed_tokens")]
    okal = len(al) == 1 and unparse(al[0].value.args[0]) == keyp
    alname = unparse(al[0].targets[0]) if al else "?"
    chk.ob("R5.tokens-selected-by-the-values-own-key", "_tokenize", okal, tk.loc, "allowed tokens come from _allowed_tokens(%s)" % keyp)
    rl = [n for n in walk_no_defs(tk.node) if isinstance(n, ast.For) and unparse(n.iter) == "%s.items()" % repname]
    okrl = len(rl) == 1
    if okrl:
        fnd, rpl = [unparse(e) for e in rl[0].target.elts]
        skip = [s for s in rl[0].body if isinstance(s, ast.If) and unparse(s.test) == "%s not in %s" % (fnd, alname) and
                len(s.body) == 1 and isinstance(s.body[0], ast.Continue)]
        subs = [s for s in rl[0].body if isinstance(s, ast.Assign) and M.is_call(s.value, attr="replace")]
        okrl = len(skip) == 1 and len(subs) == 1 and rl[0].body.index(skip[0]) < rl[0].body.index(subs[0])
        if okrl:
            s = subs[0]
            acc = unparse(s.targets[0])
            okrl = unparse(s.value.func.value) == acc and [unparse(a) for a in s.value.args] in ([fnd, "str(%s)" % rpl], [fnd, rpl])
            rets_ = [r for r in walk_no_defs(tk.node) if isinstance(r, ast.Return)]
            inits = [n for n in walk_no_defs(tk.node) if isinstance(n, ast.Assign) and unparse(n.targets[0]) == acc and n is not s]
            okrl = okrl and len(inits) == 1 and unparse(inits[0].value) == valp and \
                all(unparse(r.value) in (acc, valp) for r in rets_)
    chk.ob("R5.only-allowed-tokens-replaced", "_tokenize", okrl, tk.loc,
           "the replacement loop skips tokens not allowed for the key, replaces the others in the value, and the result is returned")
    # documented sources
    ret_node = ft.nodes(lambda n: n.kind == "stmt" and n.ast is rep)
    if not ret_node:
        raise AnalysisError("SSHConfig._tokenize", "replacement table statement not in CFG")
    rn = ret_node[0]

    def origins(expr):
        return set(ft.expand_text(expr, rn, depth=3))
    want = {
        "%n": lambda o: o == {tgtp},
        "%h": lambda o: o == {tgtp, "%s.get('hostname', %s)" % (cfgp, tgtp)},
        "%p": lambda o: o == {"%s['port']" % cfgp, "SSH_PORT"},
        "%u": lambda o: o == {"getpass.getuser()"},
        "%r": lambda o: o == {"%s['user']" % cfgp, "getpass.getuser()"},
        "%d": lambda o: o == {"os.path.expanduser('~')"},
        "~": lambda o: o == {"os.path.expanduser('~')"},
    }
    for tok in sorted(want):
        if tok not in have:
            chk.ob("R5.token-source", tok, False, tk.loc, "no replacement for %s" % tok)
            continue
        o = origins(have[tok])
        chk.ob("R5.token-source", tok, want[tok](o), tk.loc, "%s is replaced by %s" % (tok, sorted(o)))
    # %h special case: when expanding hostname itself the configured hostname is not consulted
    hdefs = [n for n in ft.nodes(lambda n: n.kind == "stmt" and isinstance(n.ast, ast.Assign) and
                                 unparse(n.ast.value) == "%s.get('hostname', %s)" % (cfgp, unparse(n.ast.targets[0])))]
    okhh = len(hdefs) == 1 and ft.dominated(hdefs, guard_edge=ft.edge_guard(lambda t: unparse(t) == "%s != 'hostname'" % keyp, "T"))
    chk.ob("R5.hostname-not-expanded-with-itself", "_tokenize", okhh, tk.loc, "%%h uses the configured HostName only when the key being expanded is not hostname")
    ev = prog.func("SSHConfig._expand_variables")
    evp = ev.params()
    tz = [c for c in walk_no_defs(ev.node) if M.is_call(c, name="partial") or M.is_call(c, name="self._tokenize")]
    okev = len(tz) == 1
    if okev:
        c = tz[0]
        a = [unparse(x) for x in c.args]
        loopv = [n for n in walk_no_defs(ev.node) if isinstance(n, ast.For) and unparse(n.iter) == evp[1]]
        okev = len(loopv) == 1 and (a[-3:] == [evp[1], evp[2], unparse(loopv[0].target)] or a[1:4] == [evp[1], evp[2], unparse(loopv[0].target)])
        # both list elements and scalars are rewritten in place
        stores_ = [s for s in walk_no_defs(ev.node) if isinstance(s, ast.Assign) and isinstance(s.targets[0], ast.Subscript)]
        okev = okev and len(stores_) == 2
        rets_ = [r for r in walk_no_defs(ev.node) if isinstance(r, ast.Return)]
        okev = okev and all(unparse(r.value) == evp[1] for r in rets_)
    chk.ob("R5.each-value-expanded-with-its-own-key", "_expand_variables", okev, ev.loc,
           "every non-None value (scalars and each list element) is passed through _tokenize(config, target_hostname, <its key>)")
    exp = [n for (n, c) in fl.nodes_with_call(name="self._expand_variables")]
    okx = len(exp) == 1 and fl.dominated(exp, guard_edge=fl.edge_guard(lambda t: unparse(t) == ps[4], "T")) if len(ps) > 4 else False
    chk.ob("R5.expansion-on-final-pass", "_lookup", okx, lk.loc, "_expand_variables runs under `final` and its result is what _lookup returns")
