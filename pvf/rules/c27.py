"""C27 - remote SFTP files behave like local binary files (partial: the structural clauses only)."""
import ast
import itertools
import os
from ..core.model import AnalysisError, unparse, dotted, walk_no_defs
from ..core.flow import Flow, attr_writes
from ..core.consts import Folder
from ..core.interp import Interp, Obj, Refuse
from ..core import match as M


def run(prog, chk):
    chk.explanation = (
        "Partial. Equivalence of arbitrary read/readline/write/seek/tell/truncate programs with a local file is a "
        "relation between runtime byte sequences and positions and is NOT decided. Decided - clauses whose truth is in "
        "the shape of the code and whose failure breaks the behaviour for whole classes of programs: (R1) the "
        "mode -> open-flags table of SFTPClient.open, evaluated from its AST over every subset of the mode letters "
        "r w a + x b: each letter contributes exactly its documented flags (r: READ; w: WRITE|CREATE|TRUNC; a: "
        "WRITE|CREATE|APPEND; +: READ|WRITE; x: CREATE|EXCL), the same mode and bufsize reach SFTPFile, the handle is "
        "the one the server returned; (R2) the server's _convert_pflags evaluated over all 64 flag subsets: access mode "
        "from READ/WRITE, and APPEND/CREATE/TRUNC/EXCL map to their os.O_ counterparts and nothing else; (R3) "
        "SFTPFile.seek flushes pending writes before it moves, sets both positions for each whence class (SET: "
        "offset; CUR: current + offset; END: size + offset), and drops the read-ahead on every path; tell() is the "
        "logical position; (R4) position bookkeeping: every chunk obtained from _read advances _realpos by its "
        "length in the same iteration, _write_all advances both positions by the count written (append mode: to the "
        "new size), _read / _write address the server at _realpos and the request size is capped at "
        "MAX_REQUEST_SIZE; (R5) SFTPHandle.read/write seek the backing file exactly when the requested offset differs "
        "from the tracked one, advance the tracked offset by the bytes moved, forget it on error, and never seek in "
        "append mode; (R6) truncate sends st_size and nothing else.")
    chk.assumptions = ["the backing file object of SFTPHandle is a local binary file", "attributes arrive as sent (C33)"]
    fold = Folder(prog)
    senv = fold.module_env("sftp")
    F = dict((k, senv.get(k)) for k in ("SFTP_FLAG_READ", "SFTP_FLAG_WRITE", "SFTP_FLAG_APPEND", "SFTP_FLAG_CREATE", "SFTP_FLAG_TRUNC", "SFTP_FLAG_EXCL"))
    okf = all(isinstance(v, int) for v in F.values()) and sorted(F.values()) == [1, 2, 4, 8, 16, 32]
    chk.ob("R1.flag-constants", "SFTP_FLAG_*", okf, prog.module("sftp").path, "%s (draft-ietf-secsh-filexfer-02 s6.3: 1, 2, 4, 8, 0x10, 0x20)" % F)
    if not okf:
        raise AnalysisError("sftp.SFTP_FLAG_*", "flag constants did not fold")

    # ---- R1 ------------------------------------------------------------------------------------------------
    of = prog.func("SFTPClient.open")
    ps = of.params()
    letters = "rwa+xb"
    bad = None
    ncase = 0
    for r in range(0, len(letters) + 1):
        for sub in itertools.combinations(letters, r):
            ncase += 1
            mode = "".join(sub)
            seen = {}

            def request(*a, seen=seen):
                seen["request"] = a
                return (101, Obj(get_binary=lambda: b"HANDLE"))
            handle_msg = Obj()

            def sftpfile(*a, seen=seen):
                seen["file"] = a
                return "FILE"
            it = Interp(intrinsics=dict(F, **{"self._adjust_cwd": lambda p: "/cwd/" + p, "self._log": lambda *a, **k: None, "self._request": None,
                                              "SFTPAttributes": lambda: "ATTR", "SFTPFile": sftpfile, "hexlify": lambda b: b, "u": lambda b: "h",
                                              "CMD_OPEN": 3, "CMD_HANDLE": 101, "DEBUG": 10}), arith=True)
            it.intr["self._request"] = request
            # msg.get_binary() is a method on the returned object
            selfo = Obj()
            kind, val = it.call_function(of.node, {ps[0]: selfo, ps[1]: "name", ps[2]: mode, ps[3]: 4096}) if len(ps) >= 4 else ("raise", "?")
            want = 0
            if "r" in mode or "+" in mode:
                want |= F["SFTP_FLAG_READ"]
            if "w" in mode or "+" in mode or "a" in mode:
                want |= F["SFTP_FLAG_WRITE"]
            if "w" in mode:
                want |= F["SFTP_FLAG_CREATE"] | F["SFTP_FLAG_TRUNC"]
            if "a" in mode:
                want |= F["SFTP_FLAG_CREATE"] | F["SFTP_FLAG_APPEND"]
            if "x" in mode:
                want |= F["SFTP_FLAG_CREATE"] | F["SFTP_FLAG_EXCL"]
            req = seen.get("request")
            fil = seen.get("file")
            ok = kind == "return" and val == "FILE" and req is not None and len(req) == 4 and req[0] == 3 and req[1] == "/cwd/name" and req[2] == want \
                and fil is not None and len(fil) == 4 and fil[1] == b"HANDLE" and fil[2] == mode and fil[3] == 4096
            if not ok and bad is None:
                bad = "mode %r -> %s; request %r; file %r; want flags %#x" % (mode, kind, req, fil[1:] if fil else None, want)
    chk.count("R1 mode-letter subsets evaluated", ncase)
    chk.ob("R1.mode-to-open-flags", "SFTPClient.open", bad is None, of.loc, "%d mode strings%s" % (ncase, "" if bad is None else "; first failing: " + bad))

    # ---- R2 ------------------------------------------------------------------------------------------------
    cp = prog.func("SFTPServer._convert_pflags")
    O = {"os.O_RDONLY": 0x1000, "os.O_WRONLY": 0x2000, "os.O_RDWR": 0x4000, "os.O_APPEND": 1, "os.O_CREAT": 2, "os.O_TRUNC": 4, "os.O_EXCL": 8}
    bad = None
    for pf in range(64):
        it = Interp(intrinsics=dict(F, **O), arith=True)
        kind, val = it.call_function(cp.node, {cp.params()[0]: Obj(), cp.params()[1]: pf})
        rd, wr = pf & F["SFTP_FLAG_READ"], pf & F["SFTP_FLAG_WRITE"]
        want = O["os.O_RDWR"] if (rd and wr) else (O["os.O_WRONLY"] if wr else O["os.O_RDONLY"])
        for fl_, o in (("SFTP_FLAG_APPEND", "os.O_APPEND"), ("SFTP_FLAG_CREATE", "os.O_CREAT"), ("SFTP_FLAG_TRUNC", "os.O_TRUNC"), ("SFTP_FLAG_EXCL", "os.O_EXCL")):
            if pf & F[fl_]:
                want |= O[o]
        if (kind != "return" or val != want) and bad is None:
            bad = "pflags %#x -> %s %r, want %#x" % (pf, kind, val, want)
    chk.ob("R2.open-flags-to-os-flags", "SFTPServer._convert_pflags", bad is None, cp.loc, "64 flag subsets%s" % ("" if bad is None else "; first failing: " + bad))
    pr = prog.func("SFTPServer._process")
    opens = [c for c in walk_no_defs(pr.node) if M.is_call(c, name="self.server.open")]
    oko = len(opens) == 1
    if oko:
        fpr = Flow(prog, pr, implicit=False)
        n = [x for x in fpr.cfg.node_containing(opens[0]) if x.id in fpr.live][0]
        a = opens[0].args
        oko = len(a) == 3 and fpr.expand_text(a[1], n, depth=1) == ["self._convert_pflags(msg.get_int())"] and fpr.expand_text(a[0], n, depth=1) == ["msg.get_text()"]
    chk.ob("R2.open-arm-converts-the-clients-flags", "_process:OPEN", oko, pr.loc, "server.open(path, _convert_pflags(<flags from the request>), attr)")

    # ---- R3 ------------------------------------------------------------------------------------------------
    sk = prog.method("SFTPFile", "seek")
    fs = Flow(prog, sk, implicit=False)
    offp, whp = sk.params()[1], sk.params()[2]
    flush = [n for (n, c) in fs.nodes_with_call(name="self.flush")]
    poswrites = fs.nodes(lambda n: n.kind == "stmt" and isinstance(n.ast, (ast.Assign, ast.AugAssign)) and
                         any(t in unparse(n.ast).split("=")[0] for t in ("self._pos", "self._realpos")))
    ok = len(flush) == 1 and bool(poswrites) and fs.dominated(poswrites, guard_nodes=flush, complete=True)
    chk.ob("R3.seek-flushes-before-moving", "SFTPFile.seek", ok, sk.loc, "flush() dominates every position write (pending buffered writes belong to the old position)")
    bad = None
    nseek = 0
    for whence in (0, 1, 2):
        for start in (0, 7):
            for ahead in (0, 3):
                # targets: the logical position itself, the transport position (where the read-ahead stopped), elsewhere
                for target in sorted(set([start, start + ahead, start + 5, 0])) + ["after-flush"]:
                    # "after-flush": flushing pending appended data moves the position (to 50) - a relative seek counts
                    # from where the flush left it, so the position must not be sampled before the flush
                    moved = target == "after-flush"
                    base = 50 if moved else start
                    if moved:
                        target = base + 5
                    offset = {0: target, 1: target - base, 2: target - 100}[whence]
                    selfo = Obj(SEEK_SET=0, SEEK_CUR=1, SEEK_END=2, _pos=start, _realpos=start + ahead, _rbuffer=b"s" * ahead)

                    def _flush(selfo=selfo, moved=moved):
                        if moved:
                            selfo._pos = selfo._realpos = 50
                    it = Interp(intrinsics={"self.flush": _flush, "self._get_size": lambda: 100, "bytes": lambda: b"", "self.tell": lambda selfo=selfo: selfo._pos}, arith=True)
                    try:
                        kind, val = it.call_function(sk.node, {sk.params()[0]: selfo, offp: offset, whp: whence})
                    except Refuse as e:
                        raise AnalysisError("SFTPFile.seek", "not evaluable: %s" % (e,))
                    nseek += 1
                    if (kind != "return" or selfo._pos != target or selfo._realpos != target or selfo._rbuffer != b"") and bad is None:
                        bad = "whence %d offset %d from pos %d (read ahead to %d): pos %r realpos %r rbuffer %r, want %d / %d / empty" % (
                            whence, offset, start, start + ahead, selfo._pos, selfo._realpos, selfo._rbuffer, target, target)
    chk.ob("R3.seek-arithmetic-and-readahead-dropped", "SFTPFile.seek", bad is None, sk.loc,
           "%d cases: SET/CUR/END x positions with and without read-ahead x targets equal to the logical / the transport position / elsewhere%s" % (
               nseek, "" if bad is None else "; first failing: " + bad))
    # SEEK_END is measured from the file's size as the server reports it now (a size remembered on the client goes stale
    # with truncate() and with other writers)
    gs_ = prog.method("SFTPFile", "_get_size")
    rvals = [r.value for r in walk_no_defs(gs_.node) if isinstance(r, ast.Return) and r.value is not None]
    asks = [v for v in rvals if any(M.is_call(c, name="self.stat") for c in ast.walk(v))]
    cached = [unparse(v) for v in rvals if any(isinstance(x, ast.Attribute) and x.attr == "_size" for x in ast.walk(v))]
    chk.ob("R3.size-asked-from-the-server", "SFTPFile._get_size", bool(asks) and not cached, gs_.loc,
           "returns %s" % [unparse(v) for v in rvals])
    tl = prog.method("SFTPFile", "tell")
    rvs = [r.value for r in walk_no_defs(tl.node) if isinstance(r, ast.Return) and r.value is not None]
    rt = [unparse(v) for v in rvs]
    # the logical position (what the caller has consumed / produced), never the transport position; whether buffered
    # writes are counted is R4.tell-counts-buffered-writes
    okt = bool(rvs) and all(any(unparse(x) == "self._pos" for x in ast.walk(v)) and not any(unparse(x) == "self._realpos" for x in ast.walk(v)) for v in rvs)
    chk.ob("R3.tell-is-logical-position", "%s.tell" % tl.cls.name, okt, tl.loc, "returns %s" % rt)
    chk.ob("R3.seekable", "SFTPFile.seekable", [unparse(r.value) for r in walk_no_defs(prog.method("SFTPFile", "seekable").node) if isinstance(r, ast.Return)] == ["True"],
           prog.method("SFTPFile", "seekable").loc, "SFTPFile is seekable")

    # ---- R4 ------------------------------------------------------------------------------------------------
    for fname in ("read", "readline"):
        m = prog.method("BufferedFile", fname)
        fm = Flow(prog, m, implicit=False)
        for i, (n, c) in enumerate(fm.nodes_with_call(name="self._read")):
            v = unparse(n.ast.targets[0]) if isinstance(n.ast, ast.Assign) else None
            adv = fm.nodes(lambda x: x.kind == "stmt" and isinstance(x.ast, ast.AugAssign) and unparse(x.ast.target) == "self._realpos"
                           and isinstance(x.ast.op, ast.Add) and unparse(x.ast.value) == "len(%s)" % v)
            stop = set(x.id for (x, c2) in fm.nodes_with_call(name="self._read"))
            reach = fm.cfg.reach([d for (d, l) in fm.cfg.succ[n.id]], avoid_nodes=stop)
            hit = [a for a in adv if a.id in reach]
            # the data is used (appended) only on paths that also advance the position
            uses = fm.nodes(lambda x: x.kind == "stmt" and x.id in reach and ((isinstance(x.ast, ast.AugAssign) and unparse(x.ast.value) == v and "realpos" not in unparse(x.ast.target))
                                                                              or (isinstance(x.ast, ast.Expr) and M.is_call(x.ast.value, attr="extend") and unparse(x.ast.value.args[0]) == v)))
            ok = v is not None and len(hit) == 1 and bool(uses) and all(
                hit[0].id in fm.cfg.reach([u.id], avoid_nodes=stop) or u.id in fm.cfg.reach([hit[0].id], avoid_nodes=stop) for u in uses)
            chk.ob("R4.realpos-advances-by-bytes-read", "%s#%d" % (fname, i), ok, fm.where(n), "%s = self._read(..); self._realpos += len(%s) in the same iteration as the data is kept" % (v, v))
    wa = prog.method("BufferedFile", "_write_all")
    fwa = Flow(prog, wa, implicit=False)
    t = [unparse(s) for s in walk_no_defs(wa.node) if isinstance(s, (ast.Assign, ast.AugAssign)) and ("_pos" in unparse(s) or "_realpos" in unparse(s) or "_size" in unparse(s))]
    okw = sorted(t) == sorted(["self._size += count", "self._pos = self._realpos = self._size", "self._pos += count", "self._realpos += count"])
    if okw:
        is_app = lambda q: unparse(q) == "self._flags & self.FLAG_APPEND"
        for n in fwa.nodes(lambda n: n.kind == "stmt" and unparse(n.ast) in t):
            arm = "T" if "_size" in unparse(n.ast) else "F"
            okw = okw and fwa.dominated([n], guard_edge=fwa.edge_guard(is_app, arm))
        order = [unparse(n.ast) for n in sorted(fwa.nodes(lambda n: n.kind == "stmt" and "_size" in unparse(n.ast)), key=lambda n: n.lineno)]
        okw = okw and order == ["self._size += count", "self._pos = self._realpos = self._size"]
    chk.ob("R4.positions-advance-by-bytes-written", "BufferedFile._write_all", okw, wa.loc, "%s" % t)
    rd = prog.method("SFTPFile", "_read")
    frd = Flow(prog, rd, implicit=False)
    req = [c for (n, c) in frd.nodes_with_call(name="self.sftp._request")]
    okr = len(req) == 1 and [unparse(a) for a in req[0].args] == ["CMD_READ", "self.handle", "int64(self._realpos)", "int(%s)" % rd.params()[1]]
    cap = [s for s in walk_no_defs(rd.node) if isinstance(s, ast.Assign) and unparse(s.targets[0]) == rd.params()[1] and unparse(s.value) == "min(%s, self.MAX_REQUEST_SIZE)" % rd.params()[1]]
    chk.ob("R4.read-addresses-realpos", "SFTPFile._read", okr and len(cap) == 1, rd.loc, "READ(handle, _realpos, min(size, MAX_REQUEST_SIZE))")
    wr = prog.method("SFTPFile", "_write")
    wq = [c for c in walk_no_defs(wr.node) if M.is_call(c, name="self.sftp._async_request")]
    okw2 = len(wq) == 1 and [unparse(a) for a in wq[0].args][1:] == ["CMD_WRITE", "self.handle", "int64(self._realpos)", "%s[:chunk]" % wr.params()[1]]
    chk.ob("R4.write-addresses-realpos", "SFTPFile._write", okw2, wr.loc, "WRITE(handle, _realpos, data[:chunk])")
    mx = fold.class_env("SFTPFile").get("MAX_REQUEST_SIZE")
    chk.ob("R4.request-size-cap", "SFTPFile.MAX_REQUEST_SIZE", isinstance(mx, int) and 0 < mx <= 32768, rd.loc, "MAX_REQUEST_SIZE = %r (draft: servers must accept at least 32768)" % (mx,))

    # ---- R5 SFTPHandle ------------------------------------------------------------------------------------------
    hr = prog.method("SFTPHandle", "read")
    hw = prog.method("SFTPHandle", "write")
    for m, fileattr, app in ((hr, "readfile", False), (hw, "writefile", True)):
        bad = None
        for tell0 in (None, 0, 9):
            for offset in (0, 9):
                for append in ((False, True) if app else (False,)):
                    for fail in ((False, True, "eof") if not app else (False, True)):
                        eof = fail == "eof"
                        fail = fail is True
                        log = []

                        class FObj(object):
                            pass
                        pos = {"p": 4 if tell0 is None else tell0}      # what the handle believes at the start is true

                        def f_tell(pos=pos):
                            return pos["p"]

                        def f_seek(o, pos=pos, log=log):
                            log.append(("seek", o))
                            pos["p"] = o

                        def f_read(n, pos=pos, log=log, fail=fail, eof=eof):
                            if fail:
                                raise_ioerror()
                            log.append(("read", pos["p"], n))
                            if eof:
                                return b""      # at the end of the file: nothing read, the position stays
                            pos["p"] += 3
                            return b"abc"

                        def f_write(d, pos=pos, log=log, fail=fail):
                            if fail:
                                raise_ioerror()
                            log.append(("write", pos["p"], d))
                            pos["p"] += len(d)

                        def raise_ioerror():
                            from ..core.interp import Raised
                            raise Raised("IOError", None)
                        fo = Obj(tell=f_tell, seek=f_seek, read=f_read, write=f_write, flush=lambda: None)
                        selfo = Obj(**{"_SFTPHandle__tell": tell0, "_SFTPHandle__flags": (1 if append else 0)})
                        setattr(selfo, fileattr, fo)
                        it = _HandleInterp(intrinsics={"getattr": lambda o, a, d=None: getattr(o, a, d), "os.O_APPEND": 1, "SFTP_OP_UNSUPPORTED": "UNSUP", "SFTP_OK": "OK",
                                                       "SFTPServer.convert_errno": lambda e: "ERRNO", "len": len}, arith=True)
                        args = {m.params()[0]: selfo, m.params()[1]: offset}
                        args[m.params()[2]] = 5 if not app else b"xyz"
                        kind, val = it.call_function(m.node, args)
                        t_after = getattr(selfo, "_SFTPHandle__tell")
                        if fail:
                            okc = kind == "return" and val == "ERRNO" and t_after is None
                        elif append:
                            okc = kind == "return" and val == "OK" and not any(l[0] == "seek" for l in log) and t_after == (None if tell0 is None else tell0 + 3)
                        else:
                            cur = 4 if tell0 is None else tell0
                            want_seek = offset != cur
                            moved = 0 if eof else 3
                            okc = kind == "return" and ((val == (b"" if eof else b"abc")) if not app else val == "OK") and ([l for l in log if l[0] == "seek"] == ([("seek", offset)] if want_seek else [])) \
                                and t_after == offset + moved and [l for l in log if l[0] != "seek"][0][1] == offset
                        # whatever happened, what the handle believes is where the file really is (or it has forgotten)
                        if okc and not append and not fail and t_after != pos["p"]:
                            okc = False
                        if not okc and bad is None:
                            bad = "tracked %r, requested %r, append %s, %s -> %s %r, log %s, tracked after %r, file really at %r" % (
                                tell0, offset, append, "failing" if fail else ("at end of file" if eof else "ok"), kind, val, log, t_after, pos["p"])
        chk.ob("R5.handle-offset-tracking", "SFTPHandle.%s" % m.name, bad is None, m.loc,
               "seek exactly when the requested offset differs from the tracked one, advance by the bytes moved, forget on error%s%s" % (
                   ", never seek in append mode" if app else "", "" if bad is None else "; first failing: " + bad))
    # a fresh handle knows nothing about the file's position (a file opened for appending starts at its end): the
    # tracked offset starts as None so that the first request asks the file
    hi = prog.method("SFTPHandle", "__init__")
    tw = [unparse(st.value) for st in walk_no_defs(hi.node) if isinstance(st, ast.Assign) and any(unparse(t_).endswith("__tell") for t_ in st.targets)]
    chk.ob("R5.handle-offset-unknown-at-first", "SFTPHandle.__init__", tw == ["None"], hi.loc, "tracked offset initialised to %s" % (tw or "nothing"))

    # ---- R4b: tell() is the logical position, buffered writes included --------------------------------------------------
    # write() parks data in the write buffer without advancing _pos (only _write_all advances it), so either write()
    # advances _pos on its buffered path or tell() adds what is parked.  Neither -> tell() lags behind a local file's.
    wr_f = bf_method(prog, "write")
    tl_f = bf_method(prog, "tell")
    parks = [c for c in walk_no_defs(wr_f.node) if M.is_call(c, name="self._wbuffer.write")]
    chk.floor("R4", "writes into the write buffer in BufferedFile.write", len(parks), 1)
    adv_in_write = any(isinstance(x, (ast.AugAssign, ast.Assign)) and unparse(x.targets[0] if isinstance(x, ast.Assign) else x.target) == "self._pos" for x in walk_no_defs(wr_f.node))
    rets = [r for r in walk_no_defs(tl_f.node) if isinstance(r, ast.Return) and r.value is not None]
    counts_buffer = bool(rets) and all(any(isinstance(x, ast.Attribute) and x.attr == "_wbuffer" for x in ast.walk(r.value)) and
                                       any(isinstance(x, ast.Attribute) and unparse(x) == "self._pos" for x in ast.walk(r.value)) for r in rets)
    flushes_first = any(M.is_call(c, name="self.flush") for c in walk_no_defs(tl_f.node))
    chk.ob("R4.tell-counts-buffered-writes", "BufferedFile.tell", adv_in_write or counts_buffer or flushes_first, tl_f.loc,
           "tell() returns %s; write() %s _pos on its buffered path - %s" % (
               [unparse(r.value) for r in rets], "advances" if adv_in_write else "does not advance",
               "ok" if (adv_in_write or counts_buffer or flushes_first) else "bytes accepted by write() but not yet flushed are missing from tell() (a local file counts them)"))

    # ---- R4c: a write goes to the logical position ----------------------------------------------------------------------
    # reads pull more than they return, so _realpos (where _write addresses the server) runs ahead of _pos; before data is
    # accepted for writing the read-ahead is dropped and _realpos pulled back - or there is no read-ahead (test on _rbuffer)
    fwr = Flow(prog, wr_f, implicit=False)
    sinks = [n for (n, c) in fwr.nodes_with_call(name="self._write_all")] + [n for (n, c) in fwr.nodes_with_call(name="self._wbuffer.write")]
    resync = fwr.nodes(lambda n: n.kind == "stmt" and isinstance(n.ast, ast.Assign) and any(unparse(t_) == "self._realpos" for t_ in n.ast.targets)
                       and (unparse(n.ast.value) == "self._pos" or any(unparse(t_) == "self._pos" for t_ in n.ast.targets)))
    drop = fwr.nodes(lambda n: n.kind == "stmt" and isinstance(n.ast, ast.Assign) and any(unparse(t_) == "self._rbuffer" for t_ in n.ast.targets)
                     and (M.is_call(n.ast.value, name="bytes") or (isinstance(n.ast.value, ast.Constant) and n.ast.value.value == b"")))

    def _no_readahead(t_):
        # "there is read-ahead (on a file that has positions at all)": leaving such a test through its false arm means
        # there is nothing to re-synchronise
        return unparse(t_) in ("self._rbuffer", "len(self._rbuffer) > 0", "len(self._rbuffer) != 0", "len(self._rbuffer)", "self.seekable()")
    gnone = fwr.edge_guard(_no_readahead, "F")
    rs_ids, dr_ids = set(n.id for n in resync), set(n.id for n in drop)
    okw = bool(sinks) and all(
        fwr.cfg.dominated([s_.id], guard_nodes=rs_ids, guard_edge=gnone, avoid_edge=fwr.avoid) and
        fwr.cfg.dominated([s_.id], guard_nodes=dr_ids, guard_edge=gnone, avoid_edge=fwr.avoid) for s_ in sinks)
    chk.ob("R4.write-goes-to-logical-position", "BufferedFile.write", okw, wr_f.loc,
           "%d sink(s); read-ahead dropped (%d) and _realpos pulled back to _pos (%d) before data is accepted%s" % (
               len(sinks), len(drop), len(resync), "" if okw else " - not on every path: after a buffered read the data lands past the read-ahead"))

    # ---- R4d: a read that hands bytes out advances the logical position on every path --------------------------------
    # every return of read() that can carry data (anything but a literal empty value) is dominated by an advance of
    # _pos; a path that returns read-ahead bytes without one leaves tell() / relative seeks short by those bytes
    rd_f = bf_method(prog, "read")
    frd = Flow(prog, rd_f, implicit=False)
    rrets = frd.nodes(lambda n: n.kind == "return" and isinstance(n.ast, ast.Return) and n.ast.value is not None
                      and not (isinstance(n.ast.value, ast.Constant) and not n.ast.value.value)
                      and not (M.is_call(n.ast.value, name="bytes") and not n.ast.value.args))
    chk.floor("R4", "data-carrying returns in BufferedFile.read", len(rrets), 3)
    adv = frd.nodes(lambda n: n.kind == "stmt" and (
        (isinstance(n.ast, ast.AugAssign) and isinstance(n.ast.op, ast.Add) and unparse(n.ast.target) == "self._pos") or
        (isinstance(n.ast, ast.Assign) and any(unparse(t_) == "self._pos" for t_ in n.ast.targets))))
    adv_ids = set(n.id for n in adv)
    badr = [r_ for r_ in rrets if not frd.cfg.dominated([r_.id], guard_nodes=adv_ids, avoid_edge=frd.avoid)]
    chk.ob("R4.read-advances-logical-position", "BufferedFile.read", not badr, rd_f.loc,
           "%d data-carrying return(s), %d advance(s) of _pos%s" % (
               len(rrets), len(adv), "" if not badr else
               " - `%s` is reachable without advancing _pos: bytes taken from the read-ahead are handed out but tell() does not count them" % unparse(badr[0].ast)))

    # ---- R6 truncate ------------------------------------------------------------------------------------------------
    tr = prog.method("SFTPFile", "truncate")
    w = [(unparse(s.targets[0]), unparse(s.value)) for s in walk_no_defs(tr.node) if isinstance(s, ast.Assign) and unparse(s.targets[0]).startswith("attr.")]
    rq = [c for c in walk_no_defs(tr.node) if M.is_call(c, name="self.sftp._request")]
    chk.ob("R6.truncate-sets-size-only", "SFTPFile.truncate", w == [("attr.st_size", tr.params()[1])] and len(rq) == 1 and
           [unparse(a) for a in rq[0].args] == ["CMD_FSETSTAT", "self.handle", "attr"], tr.loc, "sets %s and sends FSETSTAT(handle, attr)" % w)
    ftr = Flow(prog, tr, implicit=False)
    # what write() has buffered is written out before the size changes (a local file's truncate() flushes first);
    # otherwise the buffered bytes land after the truncation and the file ends up longer than asked
    fls = [n for (n, c) in ftr.nodes_with_call(name="self.flush")]
    rqn = [n for (n, c) in ftr.nodes_with_call(name="self.sftp._request")]
    chk.ob("R6.truncate-flushes-first", "SFTPFile.truncate", bool(fls) and bool(rqn) and ftr.dominated(rqn, guard_nodes=fls, complete=True), tr.loc,
           "flush() %s the FSETSTAT request" % ("precedes" if fls else "does not precede"))
    sz = tr.params()[1]
    wn = [n for n in ftr.nodes(lambda n: n.kind == "stmt" and isinstance(n.ast, ast.Assign) and unparse(n.ast.targets[0]) == "attr.st_size")]
    okp = len(wn) == 1 and all(dn.kind == "entry" for (dn, rhs) in ftr.defs(sz, wn[0]))
    chk.ob("R6.truncate-size-is-the-callers", "SFTPFile.truncate", okp, tr.loc,
           "the value stored in attr.st_size is the parameter %s as passed in (a rebinding such as `size or self.tell()` turns truncate(0) into something else)" % sz)


def bf_method(prog, name):
    return prog.method("BufferedFile", name)


def pos_before(log, tell0, offset):
    """position of the backing file when the read/write happened and no seek was needed: it is wherever the file
    was (4 in the harness) - the handle trusts its tracked offset."""
    return 4


class _HandleInterp(Interp):
    """name-mangled private attributes (self.__tell inside class SFTPHandle) live as _SFTPHandle__tell."""

    def expr(self, e, env):
        if isinstance(e, ast.Attribute) and e.attr.startswith("__") and not e.attr.endswith("__"):
            e2 = ast.Attribute(value=e.value, attr="_SFTPHandle" + e.attr, ctx=e.ctx)
            return Interp.expr(self, ast.copy_location(e2, e), env)
        return Interp.expr(self, e, env)

    def bind(self, t, v, env):
        if isinstance(t, ast.Attribute) and t.attr.startswith("__") and not t.attr.endswith("__"):
            t = ast.copy_location(ast.Attribute(value=t.value, attr="_SFTPHandle" + t.attr, ctx=t.ctx), t)
        return Interp.bind(self, t, v, env)

    def stmt(self, st, env):
        if isinstance(st, ast.Try):
            from ..core.interp import Raised
            try:
                self.block(st.body, env)
            except Raised as r:
                for h in st.handlers:
                    names = [unparse(h.type)] if h.type is not None and not isinstance(h.type, ast.Tuple) else ([unparse(x) for x in h.type.elts] if h.type is not None else None)
                    if names is None or r.cls in names or "Exception" in names or (r.cls == "IOError" and "OSError" in names):
                        if h.name:
                            env[h.name] = Obj(errno=5)
                        self.block(h.body, env)
                        break
                else:
                    raise
            else:
                self.block(st.orelse, env)
            self.block(st.finalbody, env)
            return
        return Interp.stmt(self, st, env)
