"""C09 - strict key exchange (Terrapin)."""
import ast
from ..core.model import AnalysisError, unparse, dotted, walk_no_defs
from ..core.consts import Folder
from ..core.flow import Flow, node_calls, attr_writes
from ..core import match as M
from . import _kex

STRICT = {"self.agreed_on_strict_kex": True, "self.initial_kex_done": False}


def run_loop_facts(prog):
    """(Flow of Transport.run, read node, loop head id)."""
    run = prog.func("Transport.run")
    fl = Flow(prog, run)
    reads = fl.nodes_with_call(name="self.packetizer.read_message")
    if len(reads) != 1:
        raise AnalysisError("Transport.run", "expected one read_message call")
    return run, fl, reads[0][0]


def dispatch_nodes(fl):
    """CFG nodes of Transport.run that hand a message to a handler."""
    out = []
    for (n, c) in fl.nodes_with_call():
        f = c.func
        t = unparse(f)
        if isinstance(f, ast.Subscript) and unparse(f.value) in ("self._handler_table", "self._channel_handler_table"):
            out.append((n, t))
        elif t == "handler" or t == "self.kex_engine.parse_next":
            out.append((n, t))
        elif t == "self._ensure_authed":
            out.append((n, t))
    return out


def run(prog, chk):
    fold = Folder(prog)
    chk.explanation = (
        "Decided structurally: (R1) IGNORE/DEBUG arms of the run loop call _enforce_strict_kex before "
        "continuing and that function raises MessageOrderError exactly under strict && !initial_kex_done; "
        "(R2) with a non-empty expected-packet set every dispatch in the loop is dominated by the "
        "membership test whose mismatch arm raises (MessageOrderError when strict), cleared only on a "
        "match; (R3) typestate: the expected set is armed before the loop and re-armed by every handshake "
        "step (start_kex of every engine, every non-final kex handler, _activate_outbound), and only "
        "_expect_packet / the match arm write it; (R4) KEXINIT with seqno != 0 raises in strict first kex, "
        "before any selection; (R5) sequence numbers reset in both directions under strict on every "
        "NEWKEYS, outbound after NEWKEYS is sent and before any other send; (R6) strict mode needs both "
        "sides: agreed = marker for the peer's role && advertise, written only in the marker branch, and "
        "the marker is advertised only under advertise_strict_kex. Not decided: the end-to-end 'no "
        "shifted session' statement (conjunction of these with MAC security).")
    chk.assumptions = ["msg.seqno is the pre-increment inbound counter (C01-R2)"]
    run_f, fl, readn = run_loop_facts(prog)
    cfg = fl.cfg
    after_read = [d for (d, lab) in cfg.succ[readn.id] if lab != "exc"]
    loop_heads = [n.id for n in cfg.nodes if n.kind == "loop_head" and unparse(n.ast.test) == "self.active"]
    if len(loop_heads) != 1:
        raise AnalysisError("Transport.run", "main loop `while self.active` not found")

    # R1 ------------------------------------------------------------------------------------
    enf = [n for (n, c) in fl.nodes_with_call(name="self._enforce_strict_kex")]
    for mt in ("MSG_IGNORE", "MSG_DEBUG"):
        conds = fl.nodes(lambda n: n.kind == "cond" and unparse(n.ast) == "ptype == %s" % mt)
        ok = len(conds) == 1
        if ok:
            ts = [d for (d, lab) in cfg.succ[conds[0].id] if lab == "T"]
            # from the arm, neither the loop head nor any dispatch nor the read is reachable without enforce
            targets = loop_heads + [readn.id, cfg.exit.id] + [n.id for (n, t) in dispatch_nodes(fl)]
            ok = cfg.dominated(targets, guard_nodes=[e.id for e in enf], start=ts)
        chk.ob("R1.enforce-on-arm", mt, ok, run_f.loc, "_enforce_strict_kex(ptype) precedes `continue` on the %s arm" % mt)
    # other pre-dispatch arms (DISCONNECT) end the loop
    es = prog.func("Transport._enforce_strict_kex")
    f2 = Flow(prog, es, env=STRICT)
    raises = f2.nodes(lambda n: n.kind == "raise")
    ok = cfg is not None and f2.cfg.exit.id not in f2.live and len(raises) >= 1 and \
        all("MessageOrderError" in unparse(r.ast.exc) for r in raises if isinstance(r.ast, ast.Raise))
    chk.ob("R1.enforce-raises", "strict&&!initial_kex_done", ok, es.loc,
           "under strict and before the first NEWKEYS the function cannot return normally")
    for env, lab in (({"self.agreed_on_strict_kex": False}, "not-strict"),
                     ({"self.agreed_on_strict_kex": True, "self.initial_kex_done": True}, "after-initial-kex")):
        f3 = Flow(prog, es, env=env)
        chk.ob("R1.enforce-quiet", lab, not f3.nodes(lambda n: n.kind == "raise"), es.loc, "no raise when %s" % lab)

    # R2 ------------------------------------------------------------------------------------
    fe = Flow(prog, run_f, env={"len(self._expected_packet) > 0": True})
    cf = fe.cfg
    rd = fe.nodes_with_call(name="self.packetizer.read_message")[0][0]
    start = [d for (d, lab) in cf.succ[rd.id] if lab != "exc"]
    member = fe.nodes(lambda n: n.kind == "cond" and unparse(n.ast) in ("ptype not in self._expected_packet", "ptype in self._expected_packet"))
    ok = len(member) == 1
    disp = dispatch_nodes(fe)
    chk.floor("R2", "dispatch sites in run()", len(disp), 5)
    if ok:
        mnode = member[0]
        okarm = "F" if unparse(mnode.ast).startswith("ptype not in") else "T"
        badarm = "T" if okarm == "F" else "F"
        g = lambda s, lab, d: s == mnode.id and lab == okarm
        for (n, t) in disp:
            chk.ob("R2.expected-dominates-dispatch", t, cf.dominated([n.id], guard_edge=g, avoid_edge=fe.avoid, start=start),
                   fe.where(n), "with an expectation armed, %s is reached only through the membership test" % t)
        bs = [d for (d, lab) in cf.succ[mnode.id] if lab == badarm]
        r = cf.reach(bs, avoid_edge=fe.avoid)
        leaks = [t for (n, t) in disp if n.id in r] + (["loop head"] if loop_heads and any(
            h.id in r for h in cf.nodes if h.kind == "loop_head" and unparse(h.ast.test) == "self.active") else [])
        chk.ob("R2.mismatch-raises", "run", not leaks and bool(bs), fe.where(mnode), "mismatch arm reaches: %s" % (leaks or "only the raise"))
        # exception class under strict
        fs = Flow(prog, run_f, env={"len(self._expected_packet) > 0": True, "self.agreed_on_strict_kex": True})
        rs = [n for n in fs.nodes(lambda n: n.kind == "raise" and isinstance(n.ast, ast.Raise) and n.ast.exc is not None
                                  and "Expecting packet" in unparse(n.ast.exc))]
        ok2 = len(rs) == 1
        if ok2:
            fnm = rs[0].ast.exc.func
            cls = fs.expand_text(fnm, rs[0], depth=2)
            ok2 = cls == ["MessageOrderError"]
            chk.note("strict mismatch raises %s" % cls)
        chk.ob("R2.strict-raises-MessageOrderError", "run", ok2, run_f.loc, "exception class under strict mode")
        clr = fe.nodes(lambda n: n.kind == "stmt" and isinstance(n.ast, ast.Assign) and unparse(n.ast.targets[0]) == "self._expected_packet")
        chk.ob("R2.cleared-only-on-match", "run", len(clr) == 1 and cf.dominated([clr[0].id], guard_edge=g, avoid_edge=fe.avoid, start=start),
               run_f.loc, "expected set cleared only after a match")
    else:
        chk.ob("R2.expected-test", "run", False, run_f.loc, "membership test on _expected_packet not found")

    # R3 typestate ----------------------------------------------------------------------------
    arm = [n for (n, c) in fl.nodes_with_call(name="self._expect_packet") if unparse(c.args[0]) == "MSG_KEXINIT"]
    chk.ob("R3.armed-before-loop", "run", len(arm) == 1 and fl.dominated(loop_heads, guard_nodes=arm), run_f.loc,
           "_expect_packet(MSG_KEXINIT) dominates the loop")
    writers = []
    for f in prog.all_functions():
        if f.cls is None or not prog.is_subclass(f.cls.name, "Transport"):
            continue
        for (st, t, v) in attr_writes(f.node):
            if t.attr == "_expected_packet":
                writers.append(f.qual)
    chk.ob("R3.who-writes-expected", "Transport", sorted(set(writers)) == ["Transport.__init__", "Transport._expect_packet", "Transport.run"],
           run_f.loc, "writers: %s" % sorted(set(writers)))
    ep = prog.func("Transport._expect_packet")
    w = attr_writes(ep.node)
    chk.ob("R3.expect-packet-sets", "_expect_packet", len(w) == 1 and unparse(w[0][2]) in ("tuple(ptypes)", "ptypes"), ep.loc, "stores its arguments")
    # every engine: start_kex arms; non-final handlers arm; finals reach _activate_outbound (C06-R8)
    engs = _kex.engines(prog, fold)
    seen = set()
    for (alg, cn, fam) in engs:
        todo = [prog.method(cn, "start_kex")]
        pn = prog.method(cn, "parse_next")
        for c in walk_no_defs(pn.node):
            if isinstance(c, ast.Call) and isinstance(c.func, ast.Attribute) and unparse(c.func.value) == "self" \
                    and c.func.attr.startswith("_parse_"):
                todo.append(prog.method(cn, c.func.attr))
        for f in todo:
            if f.qual in seen:
                continue
            seen.add(f.qual)
            ff = Flow(prog, f)
            arms = [n for (n, c) in ff.nodes_with_call(name="self.transport._expect_packet")] + \
                   [n for (n, c) in ff.nodes_with_call(name="self.transport._activate_outbound")]
            ok = bool(arms) and ff.exit_dominated(guard_nodes=arms)
            chk.ob("R3.handshake-step-arms-next", f.qual, ok, f.loc, "every normal exit has armed the next expected packet")
    ao = prog.func("Transport._activate_outbound")
    fa = Flow(prog, ao)
    en = [n for (n, c) in fa.nodes_with_call(name="self._expect_packet") if unparse(c.args[0]) == "MSG_NEWKEYS"]
    # ... and nothing but NEWKEYS: every further type in that expectation is a message an attacker may insert in front of
    # the peer's NEWKEYS (and once it has consumed the expectation, anything may follow)
    allexp = [c for (n, c) in fa.nodes_with_call(name="self._expect_packet")]
    only = all([unparse(a) for a in c.args] == ["MSG_NEWKEYS"] and not c.keywords for c in allexp)
    chk.ob("R3.only-newkeys-expected-after-our-newkeys", "Transport._activate_outbound", bool(allexp) and only, ao.loc,
           "expectations armed here: %s" % [", ".join(unparse(a) for a in c.args) for c in allexp])
    chk.ob("R3.handshake-step-arms-next", "Transport._activate_outbound", bool(en) and fa.exit_dominated(guard_nodes=en), ao.loc,
           "always expects NEWKEYS next")
    nk = prog.func("Transport._negotiate_keys")
    fn = Flow(prog, nk)
    sk = [n for (n, c) in fn.nodes_with_call(name="self.kex_engine.start_kex")]
    pk = [n for (n, c) in fn.nodes_with_call(name="self._parse_kex_init")]
    chk.ob("R3.handshake-step-arms-next", "Transport._negotiate_keys",
           bool(sk) and bool(pk) and fn.exit_dominated(guard_nodes=sk) and fn.dominated(sk, guard_nodes=pk), nk.loc,
           "parses the KEXINIT then starts the engine on every path")
    # the kex dispatch in run(): 30..41 go to the engine only under the expectation
    # (covered by R2 dispatch list: self.kex_engine.parse_next)

    # R4 ------------------------------------------------------------------------------------
    pki = prog.func("Transport._parse_kex_init")
    f4 = Flow(prog, pki, env=STRICT)
    sq = f4.nodes(lambda n: n.kind == "cond" and unparse(n.ast) in ("m.seqno != 0", "m.seqno > 0", "m.seqno == 0"))
    ok = len(sq) == 1
    if ok:
        c = sq[0]
        okarm = "T" if unparse(c.ast) == "m.seqno == 0" else "F"
        g = lambda s, lab, d: s == c.id and lab == okarm
        sels = f4.nodes(lambda n: n.kind == "stmt" and isinstance(n.ast, ast.Assign) and unparse(n.ast.targets[0]).startswith("agreed_"))
        ke = f4.nodes(lambda n: n.kind == "stmt" and isinstance(n.ast, ast.Assign) and unparse(n.ast.targets[0]) == "self.kex_engine")
        ok = bool(sels) and bool(ke) and f4.dominated(sels + ke, guard_edge=g) and f4.exit_dominated(guard_edge=g)
        bad = [d for (d, lab) in f4.cfg.succ[c.id] if lab != okarm and lab != "exc"]
        r = f4.cfg.reach(bad, avoid_edge=f4.avoid)
        ok = ok and f4.cfg.exit.id not in r
        rz = [n for n in f4.cfg.nodes if n.id in r and n.kind == "raise" and isinstance(n.ast, ast.Raise)]
        ok = ok and any("MessageOrderError" in unparse(x.ast.exc) for x in rz if x.ast.exc is not None)
        # the test runs after the marker loop decided agreed_on_strict_kex
        wr = f4.nodes(lambda n: n.kind == "stmt" and isinstance(n.ast, ast.Assign) and unparse(n.ast.targets[0]) == "self.agreed_on_strict_kex")
        for wn in wr:
            ok = ok and c.id in f4.cfg.reach([wn.id])
    chk.ob("R4.kexinit-seqno-zero", "_parse_kex_init", ok, pki.loc, "strict first kex: m.seqno != 0 raises MessageOrderError before any selection")
    # ... which means "the peer's first packet" only while the counter cannot wrap back to 0 before the first exchange
    # is over: in both directions the *masked* successor is compared with 0 and that raises while the initial kex is on
    for fname, fld in (("send_message", "self.__sequence_number_out"), ("read_message", "self.__sequence_number_in")):
        pf = prog.func("Packetizer." + fname)
        fp_ = Flow(prog, pf, implicit=False)
        masked = ("%s + 1 & xffffffff" % fld, "%s + 1 & 4294967295" % fld, "(%s + 1) %% 4294967296" % fld)
        tests = []
        for c in fp_.nodes(lambda n: n.kind == "cond" and isinstance(n.ast, ast.Compare) and len(n.ast.ops) == 1 and isinstance(n.ast.ops[0], ast.Eq)):
            l_, r_ = c.ast.left, c.ast.comparators[0]
            if isinstance(l_, ast.Constant):
                l_, r_ = r_, l_
            if isinstance(r_, ast.Constant) and r_.value == 0 and any(t in masked for t in fp_.expand_text(l_, c)):
                if all(t in masked for t in fp_.expand_text(l_, c)):
                    tests.append(c)
        rs = fp_.nodes(lambda n: n.kind == "raise")
        ids = set(c.id for c in tests)
        gk = fp_.edge_guard(lambda t: unparse(t) == "self._initial_kex_done", "F")
        okr = bool(tests) and any(fp_.dominated([r], guard_edge=lambda s_, lab, d_: s_ in ids and lab == "T") and fp_.dominated([r], guard_edge=gk) for r in rs)
        chk.ob("R4.counter-cannot-wrap-during-first-kex", fname, okr, pf.loc,
               "(%s + 1) & 0xffffffff == 0 while not _initial_kex_done raises (%d such test(s))" % (fld.split(".")[-1], len(tests)))

    # R5 ------------------------------------------------------------------------------------
    for fname, reset in (("_activate_inbound", "self.packetizer.reset_seqno_in"), ("_activate_outbound", "self.packetizer.reset_seqno_out")):
        f = prog.func("Transport." + fname)
        ff = Flow(prog, f, env={"self.agreed_on_strict_kex": True})
        rs = [n for (n, c) in ff.nodes_with_call(name=reset)]
        ok = len(rs) == 1 and ff.exit_dominated(guard_nodes=rs)
        chk.ob("R5.reset-under-strict", fname, ok, f.loc, "%s() on every path when strict was agreed (initial kex and every rekey)" % reset)
        fq = Flow(prog, f, env={"self.agreed_on_strict_kex": False})
        chk.ob("R5.no-reset-when-not-strict", fname, not fq.nodes_with_call(name=reset), f.loc, "no reset without strict mode")
        if fname == "_activate_outbound" and ok:
            sends = [n for (n, c) in ff.nodes_with_call(name="self._send_message")]
            first = [n for n in sends if ff.dominated([rs[0]], guard_nodes=[n])]
            # NEWKEYS send dominates the reset; no other send can precede the reset
            others = [n for n in sends if n not in first]
            ok2 = len(first) == 1 and all(ff.dominated([o], guard_nodes=rs) for o in others)
            # the first send is the NEWKEYS message
            ok2 = ok2 and ff.dominated([rs[0]], guard_nodes=first)
            chk.ob("R5.outbound-order", fname, ok2, f.loc, "send NEWKEYS < reset_seqno_out < any other send")
    pn = prog.func("Transport._parse_newkeys")
    fp = Flow(prog, pn)
    ai = [n for (n, c) in fp.nodes_with_call(name="self._activate_inbound")]
    chk.ob("R5.newkeys-activates-inbound", "_parse_newkeys", len(ai) == 1 and fp.exit_dominated(guard_nodes=ai), pn.loc,
           "_activate_inbound on every path")
    # who writes initial_kex_done
    wr = []
    for f in prog.all_functions():
        if f.cls is not None and prog.is_subclass(f.cls.name, "Transport"):
            for (st, t, v) in attr_writes(f.node):
                if t.attr == "initial_kex_done":
                    wr.append((f.qual, unparse(v)))
    chk.ob("R5.initial-kex-done-writers", "Transport", sorted(wr) == [("Transport.__init__", "False"), ("Transport._parse_newkeys", "True")],
           pn.loc, "writers: %s" % sorted(wr))

    # R6 ------------------------------------------------------------------------------------
    f6 = Flow(prog, pki)
    wr = f6.nodes(lambda n: n.kind == "stmt" and isinstance(n.ast, (ast.Assign, ast.AugAssign)) and
                  any(unparse(t) == "self.agreed_on_strict_kex" for t in (n.ast.targets if isinstance(n.ast, ast.Assign) else [n.ast.target])))
    ok = len(wr) == 1
    detail = ""
    if ok:
        g = f6.edge_guard(lambda t: M.is_call(t, attr="startswith") and t.args and isinstance(t.args[0], ast.Constant)
                          and t.args[0].value == "kex-strict-", "T")
        ok = f6.dominated(wr, guard_edge=g)
        for role, sm, letter in (("server", True, "c"), ("client", False, "s")):
            fr = Flow(prog, pki, env={"self.server_mode": sm})
            w2 = [n for n in fr.nodes(lambda n: n.kind == "stmt" and isinstance(n.ast, ast.Assign)
                                      and unparse(n.ast.targets[0]) == "self.agreed_on_strict_kex")]
            alts = fr.expand_text(w2[0].ast.value, w2[0], depth=3, simplify=True) if w2 else []
            want2 = "algo == 'kex-strict-%s-v00@openssh.com' and self.advertise_strict_kex" % letter
            want3 = "self.advertise_strict_kex and algo == 'kex-strict-%s-v00@openssh.com'" % letter
            good = len(alts) == 1 and alts[0] in (want2, want3)
            chk.ob("R6.agreed-needs-both", role, good and ok, pki.loc, "agreed <- %s" % alts)
    else:
        chk.ob("R6.agreed-single-writer", "_parse_kex_init", False, pki.loc, "%d writes to agreed_on_strict_kex" % len(wr))
    allw = []
    for f in prog.all_functions():
        if f.cls is not None and prog.is_subclass(f.cls.name, "Transport"):
            for (st, t, v) in attr_writes(f.node):
                if t.attr == "agreed_on_strict_kex":
                    allw.append(f.qual)
    chk.ob("R6.agreed-writers", "Transport", sorted(allw) == ["Transport.__init__", "Transport._parse_kex_init"], pki.loc, "writers: %s" % sorted(allw))
    ski = prog.func("Transport._send_kex_init")
    for role, sm, letter in (("server", True, "s"), ("client", False, "c")):
        fsk = Flow(prog, ski, env={"self.server_mode": sm})
        apps = [(n, c) for (n, c) in fsk.nodes_with_call(name="kex_algos.append")
                if "kex-strict" in " ".join(fsk.expand_text(c.args[0], n, depth=3, simplify=True))]
        ok = len(apps) == 1
        if ok:
            n, c = apps[0]
            t = fsk.expand_text(c.args[0], n, depth=3, simplify=True)
            ok = t == ["'kex-strict-%s-v00@openssh.com'" % letter]
            ok = ok and fsk.dominated([n], guard_edge=fsk.edge_guard(lambda x: unparse(x) == "self.advertise_strict_kex", "T"))
        chk.ob("R6.marker-advertised", role, ok, ski.loc, "own-role marker appended only under advertise_strict_kex")
