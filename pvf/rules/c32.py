"""C32 - check-file returns the correct hashes for the requested ranges (partial)."""
import ast
from ..core.model import AnalysisError, unparse, dotted, walk_no_defs
from ..core.flow import Flow, node_calls
from ..core.layout import Extractor, split_messages, reads
from ..core import match as M


def run(prog, chk):
    chk.explanation = (
        "Partial: digest values are runtime values and are not decided. Decided - the block walk of "
        "SFTPServer._check_file: (R1) cursor agreement: the offset handed to f.read and the per-block counter "
        "both advance by exactly the length of what that read returned; (R2) loop progress: an empty read "
        "leaves the loops; (R3) one hash object per block, its digest appended exactly once per block; (R4) "
        "a block is min(block_size, end - offset) and a read never asks for more than what is left of the "
        "block (and at most 64 KiB); (R5) the range ends at end of file when length is 0 or runs past it "
        "(needs the stat in both cases); (R6) block sizes below 256 are refused after the 0 -> whole-range "
        "substitution; (R7) request and reply layouts agree between SFTPFile.check and the server.")
    chk.assumptions = ["SFTPHandle.read(offset, n) returns at most n bytes starting at offset (or an error code)"]
    cf = prog.func("SFTPServer._check_file")
    fl = Flow(prog, cf, implicit=False)
    reads_ = [(n, c) for (n, c) in fl.nodes_with_call(attr="read") if len(c.args) == 2]
    if len(reads_) != 1:
        raise AnalysisError("SFTPServer._check_file", "expected one f.read(offset, n) call")
    rn, rc = reads_[0]
    off = unparse(rc.args[0])
    data = unparse(rn.ast.targets[0]) if isinstance(rn.ast, ast.Assign) else None
    succ = [d for (d, l) in fl.cfg.succ[rn.id]]
    # R1 ---------------------------------------------------------------------------------
    adv = fl.nodes(lambda n: n.kind == "stmt" and isinstance(n.ast, ast.AugAssign) and isinstance(n.ast.op, ast.Add)
                   and unparse(n.ast.target) == off)
    ok = data is not None and len(adv) == 1 and unparse(adv[0].ast.value) == "len(%s)" % data
    chk.ob("R1.offset-advances-by-bytes-read", "_check_file", ok, fl.where(rn),
           "%s += %s after %s = f.read(%s, ...)" % (off, unparse(adv[0].ast.value) if adv else "?", data, off))
    cnts = fl.nodes(lambda n: n.kind == "stmt" and isinstance(n.ast, ast.AugAssign) and isinstance(n.ast.op, ast.Add)
                    and unparse(n.ast.target) != off and unparse(n.ast.value) == "len(%s)" % data)
    ok = len(cnts) == 1
    cnt = unparse(cnts[0].ast.target) if ok else None
    chk.ob("R1.block-counter-advances-by-bytes-read", "_check_file", ok, fl.where(rn), "per-block counter %s += len(%s)" % (cnt, data))
    flags = sorted(set(t_.id for s_ in walk_no_defs(cf.node) if isinstance(s_, ast.Assign) and isinstance(s_.value, ast.Constant)
                       and isinstance(s_.value.value, bool) for t_ in s_.targets if isinstance(t_, ast.Name)))
    if adv and cnts:
        # both updates on every way back to the read (path-sensitive on boolean flags such as `eof`)
        back = fl.dominated_ps([rn.id], flags, guard_nodes=[adv[0].id], start=succ) and \
            fl.dominated_ps([rn.id], flags, guard_nodes=[cnts[0].id], start=succ)
        chk.ob("R1.updates-on-every-iteration", "_check_file", back, fl.where(rn), "no way back to the read without advancing both cursors")
    # R2 ---------------------------------------------------------------------------------
    def nonempty(s, lab, d):
        n = fl.cfg.nodes[s]
        if n.kind != "cond" or data is None:
            return False
        t = unparse(n.ast)
        return (t in ("len(%s) == 0" % data, "not %s" % data) and lab == "F") or (t in (data, "len(%s) > 0" % data) and lab == "T")
    ok = fl.dominated_ps([rn.id], flags, guard_edge=nonempty, start=succ)
    chk.ob("R2.empty-read-leaves-loop", "_check_file", ok, fl.where(rn),
           "an empty read (end of file) cannot lead back to another read" if ok else "at end of file the inner loop reads again forever")
    # error code from read: status and return
    isb = fl.nodes(lambda n: n.kind == "cond" and unparse(n.ast) == "isinstance(%s, bytes)" % data)
    ok = len(isb) == 1 and fl.cfg.dominated([a.id for a in adv], guard_edge=lambda s, lab, d: s == isb[0].id and lab == "T", start=succ)
    chk.ob("R2.read-error-answered", "_check_file", ok, fl.where(rn), "a non-bytes result of read is answered with a status, not hashed")
    # R3 ---------------------------------------------------------------------------------
    mk = fl.nodes(lambda n: n.kind == "stmt" and isinstance(n.ast, ast.Assign) and unparse(n.ast.value) == "alg()")
    dg = [(n, c) for (n, c) in fl.nodes_with_call(attr="digest")]
    upd = [(n, c) for (n, c) in fl.nodes_with_call(attr="update")]
    ok = len(mk) == 1 and len(dg) == 1 and len(upd) == 1
    if ok:
        hv = unparse(mk[0].ast.targets[0])
        ok = unparse(dg[0][1].func.value) == hv and unparse(upd[0][1].func.value) == hv and unparse(upd[0][1].args[0]) == data
        ok = ok and isinstance(dg[0][0].ast, ast.AugAssign) and isinstance(dg[0][0].ast.op, ast.Add)
        # per block: new hash object -> (reads) -> one digest; the read cannot be reached from the digest without a new object
        ok = ok and fl.cfg.dominated([rn.id], guard_nodes=[mk[0].id], start=[d for (d, l) in fl.cfg.succ[dg[0][0].id]])
        ok = ok and fl.cfg.dominated([dg[0][0].id], guard_nodes=[mk[0].id], start=[d for (d, l) in fl.cfg.succ[dg[0][0].id]])
        ok = ok and fl.dominated([dg[0][0]], guard_nodes=mk)
    chk.ob("R3.one-digest-per-block", "_check_file", ok, cf.loc, "hash object created per block, updated with each chunk, digest appended once")
    # R4 ---------------------------------------------------------------------------------
    n_arg = fl.expand_text(rc.args[1], rn, depth=0)
    if isinstance(rc.args[1], ast.Name):
        n_arg = fl.expand_text(rc.args[1], rn, depth=1)
    bl = None
    ok = False
    if cnt is not None and len(n_arg) == 1:
        t = n_arg[0]
        for cand in fl.nodes(lambda n: n.kind == "stmt" and isinstance(n.ast, ast.Assign) and M.is_call(n.ast.value, name="min")):
            nm = unparse(cand.ast.targets[0])
            if t in ("min(%s - %s, 65536)" % (nm, cnt), "min(65536, %s - %s)" % (nm, cnt)):
                bl = cand
                ok = True
    chk.ob("R4.read-stays-inside-block", "_check_file", ok, fl.where(rn),
           "read length %s (must be min(block remaining, 65536))" % n_arg)
    if bl is not None:
        a = [unparse(x) for x in bl.ast.value.args]
        endv = [x for x in a if x != "block_size"]
        ok = "block_size" in a and len(endv) == 1 and endv[0].endswith("- %s" % off)
        chk.ob("R4.block-length", "_check_file", ok, fl.where(bl), "block length = %s" % unparse(bl.ast.value))
    # outer loop: while offset < end
    heads = [n for n in fl.cfg.nodes if n.kind == "loop_head" and unparse(n.ast.test).startswith(off + " < ")]
    chk.ob("R4.outer-loop-bound", "_check_file", len(heads) == 1, cf.loc, "outer loop: %s" % [unparse(h.ast.test) for h in heads])
    # R5 ---------------------------------------------------------------------------------
    lw = fl.nodes(lambda n: n.kind == "stmt" and isinstance(n.ast, ast.Assign) and unparse(n.ast.targets[0]) == "length"
                  and "st_size" in unparse(n.ast.value))
    ok = len(lw) == 1 and "st.st_size - start" in unparse(lw[0].ast.value)
    if ok:
        z = fl.edge_guard(lambda t: unparse(t) == "length == 0", "T")
        p = fl.edge_guard(lambda t: unparse(t) in ("start + length > st.st_size", "st.st_size < start + length", "length > st.st_size - start"), "T")
        ok = fl.dominated(lw, guard_edge=lambda s, lab, d: z(s, lab, d) or p(s, lab, d))
        # both tests exist
        tests = set(unparse(n.ast) for n in fl.nodes(lambda n: n.kind == "cond"))
        ok = ok and "length == 0" in tests and any(t in tests for t in ("start + length > st.st_size", "st.st_size < start + length", "length > st.st_size - start"))
        # with either condition true the clamp is unavoidable before the block walk
        for env in ({"length == 0": True}, {"length == 0": False, "start + length > st.st_size": True}):
            fe = Flow(prog, cf, env=env, implicit=False)
            l2 = fe.nodes(lambda n: n.kind == "stmt" and isinstance(n.ast, ast.Assign) and unparse(n.ast.targets[0]) == "length"
                          and "st_size" in unparse(n.ast.value))
            r2 = [n for (n, c) in fe.nodes_with_call(attr="read") if len(c.args) == 2]
            ok = ok and bool(l2) and fe.dominated(r2, guard_nodes=l2)
    chk.ob("R5.range-ends-at-eof", "_check_file", ok, cf.loc, "length := size - start when it is 0 or runs past the end of the file")
    # R6 ---------------------------------------------------------------------------------
    bs = fl.nodes(lambda n: n.kind == "cond" and M.at_most(n.ast, "block_size", 255))
    sub = fl.nodes(lambda n: n.kind == "stmt" and isinstance(n.ast, ast.Assign) and unparse(n.ast) == "block_size = length")
    ok = len(bs) == 1 and len(sub) == 1 and fl.dominated([rn], guard_edge=lambda s, lab, d: s == bs[0].id and lab == "F")
    if ok:
        ok = bs[0].id in fl.cfg.reach([sub[0].id]) and fl.dominated(sub, guard_edge=fl.edge_guard(lambda t: unparse(t) == "block_size == 0", "T"))
        ts = [d for (d, l) in fl.cfg.succ[bs[0].id] if l == "T"]
        r = fl.cfg.reach(ts)
        st = [n for (n, c) in fl.nodes_with_call(name="self._send_status") if n.id in r and "SFTP_FAILURE" in unparse(c)]
        ok = ok and bool(st) and rn.id not in r
    chk.ob("R6.min-block-size", "_check_file", ok, cf.loc, "block_size < 256 (after 0 -> whole range) is refused with a FAILURE status; 256 itself is accepted")
    # R7 ---------------------------------------------------------------------------------
    par = cf.params()[2]
    ex = Extractor()
    rseq = set(tuple(k for (k, m) in reads(ev, par)) for (ev, kind) in ex.function(cf.node))
    want_r = ("string", "list", "uint64", "uint64", "uint32")
    chk.ob("R7.request-reader", "_check_file", rseq == set([want_r]), cf.loc, "server reads %s" % sorted(rseq))
    ck = prog.func("SFTPFile.check")
    reqs = [c for c in walk_no_defs(ck.node) if M.is_call(c, name="self.sftp._request")]
    ok = len(reqs) == 1
    if ok:
        a = [unparse(x) for x in reqs[0].args]
        p = ck.params()
        ok = a == ["CMD_EXTENDED", "'check-file'", "self.handle", p[1], "int64(%s)" % p[2], "int64(%s)" % p[3], p[4]]
    chk.ob("R7.request-writer", "SFTPFile.check", ok, ck.loc, "client sends %s" % ([unparse(x) for x in reqs[0].args] if reqs else "?"))
    lay = set()
    for (ev, kind) in ex.function(cf.node):
        for m in split_messages(ev):
            if len(m["fields"]) >= 3:
                lay.add(tuple(m["fields"]))
    want_w = (("uint32", "request_number"), ("string", "'check-file'"), ("string", "algname"), ("bytes", "sum_out"))
    chk.ob("R7.reply-writer", "_check_file", lay == set([want_w]), cf.loc, "server replies %s" % sorted(lay))
    gets = [unparse(c.func) for c in walk_no_defs(ck.node) if isinstance(c, ast.Call) and isinstance(c.func, ast.Attribute)
            and unparse(c.func.value) == "msg" and c.func.attr.startswith("get_")]
    chk.ob("R7.reply-reader", "SFTPFile.check", gets == ["msg.get_text", "msg.get_text", "msg.get_remainder"], ck.loc, "client reads %s" % gets)
    # R8: the handle's cached file position (cursor agreement for SFTPHandle.read/write) -----------------
    for mn, fobj in (("read", "readfile"), ("write", "writefile")):
        f = prog.func("SFTPHandle." + mn)
        fh = Flow(prog, f, implicit=True)
        offp = f.params()[1]
        seeks = [n for (n, c) in fh.nodes_with_call(name=fobj + ".seek") if unparse(c.args[0]) == offp]
        setp = fh.nodes(lambda n: n.kind == "stmt" and isinstance(n.ast, ast.Assign) and unparse(n.ast.targets[0]) == "self.__tell"
                        and unparse(n.ast.value) == offp)
        io = [n for (n, c) in fh.nodes_with_call(name="%s.%s" % (fobj, mn))]
        ok = len(seeks) == 1 and len(setp) == 1 and len(io) == 1
        if ok:
            g = fh.edge_guard(lambda t: unparse(t) in ("%s != self.__tell" % offp, "self.__tell != %s" % offp), "T")
            ok = fh.dominated(seeks, guard_edge=g)
            # after a seek, the cached position is updated before the transfer
            s_succ = [d for (d, l) in fh.cfg.succ[seeks[0].id] if l != "exc"]
            ok = ok and fh.cfg.dominated([io[0].id], guard_nodes=[setp[0].id], start=s_succ)
            adv = fh.nodes(lambda n: n.kind == "stmt" and isinstance(n.ast, ast.AugAssign) and unparse(n.ast.target) == "self.__tell"
                           and isinstance(n.ast.op, ast.Add) and unparse(n.ast.value) == "len(data)")
            ok = ok and len(adv) == 1
            rst = fh.nodes(lambda n: n.kind == "stmt" and isinstance(n.ast, ast.Assign) and unparse(n.ast.targets[0]) == "self.__tell"
                           and unparse(n.ast.value) == "None")
            ok = ok and len(rst) == 1
        chk.ob("R8.cached-position-tracks-the-file", "SFTPHandle." + mn, ok, f.loc,
               "seek only when offset != cached position, cache := offset after the seek, += len(data) after the transfer, reset on error")
