"""C45 - agent signing requests ask for the hash the caller requested."""
import ast
from ..core.model import AnalysisError, unparse, dotted, walk_no_defs
from ..core.flow import Flow, node_calls
from ..core.consts import Folder, is_sym
from ..core.layout import Extractor, split_messages, RET
from ..core import match as M

CERT = "-cert-v01@openssh.com"
# draft-miller-ssh-agent section 4.5.1: SSH_AGENT_RSA_SHA2_256 = 2, SSH_AGENT_RSA_SHA2_512 = 4
WANT_TABLE = {"rsa-sha2-256": 2, "rsa-sha2-512": 4, "rsa-sha2-256" + CERT: 2, "rsa-sha2-512" + CERT: 4}


def run(prog, chk):
    chk.explanation = (
        "Decided structurally. (R1) AgentKey.sign_ssh_data builds, on its only path, the message [byte 13 "
        "SSH2_AGENTC_SIGN_REQUEST, string self.asbytes(), string <the caller's data>, uint32 flags] "
        "(draft-miller-ssh-agent s4.5) and hands that very message to the agent connection; (R2) flags is a "
        "defaulting lookup ALGORITHM_FLAG_MAP.get(<the caller's algorithm>, 0) and the table - folded from the "
        "module source including the loop that adds the certificate forms - is exactly {rsa-sha2-256: 2, "
        "rsa-sha2-512: 4} plus the two -cert-v01@openssh.com forms, so the flags select SHA-256/512 exactly for "
        "those names and are zero for every other name (all names, not a sample); nothing else in the package "
        "writes the table; (R3) the reply type is compared with SSH2_AGENT_SIGN_RESPONSE (14) with a raising "
        "arm that dominates the return, and the value returned is result.get_binary() of that very reply, "
        "unchanged; (R4) asbytes() is the inner key's bytes or the agent's blob, and _send_message frames the "
        "request as uint32 length || payload, reads back exactly the announced length through a read loop that "
        "raises on end of stream, and returns the reply's first byte as its type.")
    chk.assumptions = ["Message.add_*/get_* are inverses (C39)", "the agent socket delivers bytes in order"]
    fold = Folder(prog)
    env = fold.module_env("agent")
    f = prog.func("AgentKey.sign_ssh_data")
    ps = f.params()
    if len(ps) < 3:
        raise AnalysisError("AgentKey.sign_ssh_data", "expected (self, data, algorithm)")
    data_p, alg_p = ps[1], ps[2]

    # ---- R1 layout ------------------------------------------------------------------------------
    ex = Extractor(calls_of_interest=lambda name, call: "send" if isinstance(call.func, ast.Attribute)
                   and call.func.attr == "_send_message" else None)
    alts = [(e, k) for (e, k) in ex.function(f.node) if k == RET]
    chk.floor("R1", "returning paths of sign_ssh_data", len(alts), 1)
    for i, (events, kind) in enumerate(alts):
        msgs = split_messages(events)
        ok = len(msgs) == 1
        detail = "built %d message(s)" % len(msgs)
        if ok:
            m = msgs[0]
            fields = m["fields"]
            kinds = [k for (k, a) in fields]
            detail = "fields %s" % fields
            ok = kinds == ["byte", "string", "string", "uint32"]
            if ok:
                t = fold.eval(ast.parse(fields[0][1], mode="eval").body, env, prog.module("agent"))
                ok = t == b"\r"
                detail += "; type byte folds to %r" % (t,)
            chk.ob("R1.request-layout", "sign_ssh_data#%d" % i, ok, f.loc, detail + " (want byte 13, string key blob, string data, uint32 flags)")
            chk.ob("R1.key-blob-field", "sign_ssh_data#%d" % i, len(fields) > 1 and fields[1][1] == "self.asbytes()", f.loc,
                   "second field is %s" % (fields[1][1] if len(fields) > 1 else "?"))
            chk.ob("R1.data-field", "sign_ssh_data#%d" % i, len(fields) > 2 and fields[2][1] == data_p, f.loc,
                   "third field is %s (the caller's %s, unmodified)" % (fields[2][1] if len(fields) > 2 else "?", data_p))
            want = "ALGORITHM_FLAG_MAP.get(%s, 0)" % alg_p
            chk.ob("R2.flags-defaulting-lookup", "sign_ssh_data#%d" % i, len(fields) > 3 and fields[3][1] == want, f.loc,
                   "flags field is %s (want %s: zero for every name not in the table)" % (fields[3][1] if len(fields) > 3 else "?", want))
            sent = [ev for ev in m["after"] if ev[1] == "send"]
            oks = len(sent) == 1 and sent[0][2] == "self.agent._send_message(%s)" % m["var"]
            chk.ob("R1.built-message-is-sent", "sign_ssh_data#%d" % i, oks, f.loc, "after building: %s" % [s[2] for s in sent])
        else:
            chk.ob("R1.request-layout", "sign_ssh_data#%d" % i, False, f.loc, detail)
    # no rebinding of data / algorithm before use
    fl = Flow(prog, f, implicit=False)
    rebinds = [n for n in fl.nodes(lambda n: n.kind in ("stmt", "for_iter", "with_enter"))
               if {data_p, alg_p} & __import__("pvf.core.cfg", fromlist=["assigned_names"]).assigned_names(n)]
    if rebinds:
        # a rebinding may or may not preserve the value: not an idiom this rule can decide
        raise AnalysisError("AgentKey.sign_ssh_data", "parameter %s/%s is reassigned at %s before it is written into the request; "
                            "the field-origin rule cannot follow that" % (data_p, alg_p, ", ".join(fl.where(n) for n in rebinds)))
    chk.ob("R1.parameters-not-rebound", "sign_ssh_data", True, f.loc, "data/algorithm reach the request fields as passed in")

    # ---- R2 table ---------------------------------------------------------------------------------
    table = env.get("ALGORITHM_FLAG_MAP")
    if not isinstance(table, dict) or any(is_sym(k) or is_sym(v) for k, v in table.items()):
        raise AnalysisError("agent.ALGORITHM_FLAG_MAP", "table did not fold to constants: %r" % (table,))
    chk.floor("R2", "ALGORITHM_FLAG_MAP rows", len(table), 1)
    for name in sorted(set(table) | set(WANT_TABLE)):
        chk.ob("R2.flag-table", name, table.get(name) == WANT_TABLE.get(name), prog.module("agent").path,
               "%s -> %r (draft-miller-ssh-agent s4.5.1 wants %r)" % (name, table.get(name), WANT_TABLE.get(name)))
    writers = []
    for g in prog.all_functions():
        for n in walk_no_defs(g.node):
            if isinstance(n, (ast.Assign, ast.AugAssign, ast.Delete)):
                tg = n.targets if not isinstance(n, ast.AugAssign) else [n.target]
                for t in tg:
                    if isinstance(t, ast.Subscript) and unparse(t.value).endswith("ALGORITHM_FLAG_MAP"):
                        writers.append("%s:%d" % (g.module.path, n.lineno))
                    if isinstance(t, ast.Name) and t.id == "ALGORITHM_FLAG_MAP":
                        writers.append("%s:%d" % (g.module.path, n.lineno))
            if isinstance(n, ast.Call) and isinstance(n.func, ast.Attribute) and unparse(n.func.value).endswith("ALGORITHM_FLAG_MAP") \
                    and n.func.attr in ("update", "pop", "clear", "setdefault", "popitem", "__setitem__"):
                writers.append("%s:%d" % (g.module.path, n.lineno))
    chk.ob("R2.table-written-only-at-module-level", "ALGORITHM_FLAG_MAP", not writers, prog.module("agent").path,
           "writers inside functions: %s" % (writers or "none"))

    # ---- R3 reply ------------------------------------------------------------------------------------
    rets = fl.nodes(lambda n: n.kind == "return")
    sends = fl.nodes_with_call(attr="_send_message")
    if len(sends) != 1 or not (isinstance(sends[0][0].ast, ast.Assign) and isinstance(sends[0][0].ast.targets[0], ast.Tuple)
                               and len(sends[0][0].ast.targets[0].elts) == 2):
        raise AnalysisError("AgentKey.sign_ssh_data", "expected `ptype, result = self.agent._send_message(msg)`")
    pt, res = [unparse(e) for e in sends[0][0].ast.targets[0].elts]
    resp = env.get("SSH2_AGENT_SIGN_RESPONSE")
    chk.ob("R3.sign-response-constant", "SSH2_AGENT_SIGN_RESPONSE", resp == 14, prog.module("agent").path, "folds to %r (draft: 14)" % (resp,))

    def is_type_test(t, arm):
        cp = M.compare_parts(t)
        if not cp:
            return None
        l, op, r = unparse(cp[0]), cp[1], unparse(cp[2])
        if {l, r} != {pt, "SSH2_AGENT_SIGN_RESPONSE"}:
            return None
        return "F" if op is ast.NotEq else ("T" if op is ast.Eq else None)
    g = lambda s, lab, d: fl.cfg.nodes[s].kind == "cond" and is_type_test(fl.cfg.nodes[s].ast, None) == lab
    chk.floor("R3", "returns of sign_ssh_data", len(rets), 1)
    for i, r in enumerate(rets):
        ok = fl.dominated([r], guard_edge=g, start=[d for (d, _) in fl.cfg.succ[sends[0][0].id]])
        chk.ob("R3.reply-type-checked", "return#%d" % i, ok, fl.where(r),
               "return reached only when %s == SSH2_AGENT_SIGN_RESPONSE%s" % (pt, "" if ok else "; path: " + fl.witness([r], guard_edge=g)))
        val = unparse(r.ast.value) if r.ast.value is not None else "None"
        chk.ob("R3.signature-returned-unchanged", "return#%d" % i, val == "%s.get_binary()" % res, fl.where(r),
               "returns %s (want %s.get_binary(): the agent's signature blob as is)" % (val, res))
    # the mismatch arm raises
    conds = fl.nodes(lambda n: n.kind == "cond" and is_type_test(n.ast, None) is not None)
    okr = bool(conds)
    for c in conds:
        arm = "T" if is_type_test(c.ast, None) == "F" else "F"
        tgt = [d for (d, lab) in fl.cfg.succ[c.id] if lab == arm]
        okr = okr and all(not (fl.cfg.reach([t], avoid_edge=fl.avoid) & {fl.cfg.exit.id}) for t in tgt)
    chk.ob("R3.non-signature-reply-raises", "sign_ssh_data", okr, f.loc, "the mismatch arm never reaches a normal return")

    # ---- R4 asbytes / framing --------------------------------------------------------------------------
    ab = prog.func("AgentKey.asbytes")
    fa = Flow(prog, ab, implicit=False)
    ar = fa.nodes(lambda n: n.kind == "return")
    texts = sorted(unparse(r.ast.value) for r in ar if r.ast.value is not None)
    okab = texts in (["self.inner_key.asbytes() if self.inner_key else self.blob"],
                     ["self.inner_key.asbytes() if self.inner_key is not None else self.blob"],
                     ["self.blob", "self.inner_key.asbytes()"])
    chk.ob("R4.asbytes-is-public-blob", "AgentKey.asbytes", okab, ab.loc, "returns %s" % texts)
    init = prog.func("AgentKey.__init__")
    blobw = [unparse(v) for (s, t, v) in __import__("pvf.core.flow", fromlist=["attr_writes"]).attr_writes(init.node)
             if t.attr == "blob" and v is not None]
    chk.ob("R4.blob-is-agents", "AgentKey.__init__", blobw == ["blob"], init.loc, "self.blob = %s" % blobw)

    sm = prog.func("AgentSSH._send_message")
    fs = Flow(prog, sm, implicit=False)
    p0 = sm.params()[1]
    snd = [c for (n, c) in fs.nodes_with_call(attr="send")]
    oks = False
    detail = "no send"
    if len(snd) == 1 and snd[0].args:
        raw = unparse(snd[0].args[0])
        detail = "sends %s" % raw
        parts = M.flatten_add(snd[0].args[0])
        oks = len(parts) == 2 and M.is_call(parts[0], name="struct.pack") and len(parts[0].args) == 2 \
            and M.arg(parts[0], 0) is not None and getattr(parts[0].args[0], "value", None) == ">I" \
            and unparse(parts[0].args[1]) == "len(%s)" % unparse(parts[1]) and unparse(parts[1]) == p0 \
            and unparse(snd[0].func.value) == "self._conn"
    chk.ob("R4.request-framing", "_send_message:send", oks, sm.loc, detail + " (uint32 big-endian length, then the payload)")
    conv = fs.nodes(lambda n: n.kind == "stmt" and isinstance(n.ast, ast.Assign) and unparse(n.ast.targets[0]) == p0)
    okc = bool(conv) and unparse(conv[0].ast.value) == "asbytes(%s)" % p0
    chk.ob("R4.request-framing", "_send_message:payload", okc, sm.loc, "payload is asbytes(%s) of the message handed in" % p0)
    ra = [(n, c) for (n, c) in fs.nodes_with_call(name="self._read_all")]
    okl = len(ra) == 2
    detail = "%d _read_all calls" % len(ra)
    if okl:
        ra.sort(key=lambda nc: (nc[1].lineno, nc[1].col_offset))
        first, second = ra[0][1], ra[1][1]
        okl = unparse(first.args[0]) == "4"
        lenexpr = fs.expand_text(second.args[0], ra[1][0], depth=2)
        okl = okl and lenexpr == ["struct.unpack('>I', self._read_all(4))[0]"]
        detail = "reads 4 bytes, then %s bytes" % (lenexpr,)
    chk.ob("R4.reply-framing", "_send_message:length", okl, sm.loc, detail)
    rr = fs.nodes(lambda n: n.kind == "return")
    okt = len(rr) == 1 and rr[0].ast.value is not None
    if okt:
        v = rr[0].ast.value
        okt = isinstance(v, ast.Tuple) and len(v.elts) == 2 and unparse(v.elts[0]) == "ord(%s.get_byte())" % unparse(v.elts[1])
        if okt:
            d = fs.defs(unparse(v.elts[1]), rr[0])
            okt = len(d) == 1 and d[0][1] is not None and M.is_call(d[0][1], name="Message") and \
                M.is_call(d[0][1].args[0], name="self._read_all") if d and d[0][1] is not None and getattr(d[0][1], "args", None) else False
    chk.ob("R4.reply-framing", "_send_message:type", okt, sm.loc, "returns (first byte of the reply, the reply message positioned after it)")

    rd = prog.func("AgentSSH._read_all")
    fr = Flow(prog, rd, implicit=False)
    w = rd.params()[1]
    loops = [n for n in walk_no_defs(rd.node) if isinstance(n, ast.While)]
    okp = len(loops) == 1
    detail = "%d loops" % len(loops)
    if okp:
        lp = loops[0]
        acc = None
        cp = M.compare_parts(lp.test)
        if cp and cp[1] is ast.Lt and M.is_call(cp[0], name="len") and unparse(cp[2]) == w:
            acc = unparse(cp[0].args[0])
        okp = acc is not None
        detail = "loop test %s" % unparse(lp.test)
        if okp:
            recvs = [c for c in walk_no_defs(lp) if M.is_call(c, attr="recv")]
            okp = len(recvs) == 1 and unparse(recvs[0].args[0]) == "%s - len(%s)" % (w, acc)
            detail += "; asks for %s" % (unparse(recvs[0].args[0]) if recvs else "?")
            # an empty read leaves the loop by raising
            ext = None
            for st in lp.body:
                if isinstance(st, ast.Assign) and M.is_call(st.value, attr="recv"):
                    ext = unparse(st.targets[0])
            empties = [n for n in fr.nodes(lambda n: n.kind == "cond") if ext and unparse(n.ast) in ("len(%s) == 0" % ext, "not %s" % ext)]
            okp = okp and bool(empties) and all(
                not (fr.cfg.reach([d for (d, lab) in fr.cfg.succ[e.id] if lab == "T"]) & {fr.cfg.exit.id} - set()) or False for e in empties)
            # T arm must raise: the loop head must not be reachable from it either
            for e in empties:
                tsucc = [d for (d, lab) in fr.cfg.succ[e.id] if lab == "T"]
                r = fr.cfg.reach(tsucc)
                heads = [n.id for n in fr.cfg.nodes if n.kind == "loop_head"]
                if set(heads) & r or fr.cfg.exit.id in r:
                    okp = False
            aug = [st for st in lp.body if isinstance(st, ast.AugAssign) and unparse(st.target) == acc and isinstance(st.op, ast.Add)
                   and unparse(st.value) == ext]
            okp = okp and len(aug) == 1
            rets_ = fr.nodes(lambda n: n.kind == "return")
            okp = okp and len(rets_) == 1 and unparse(rets_[0].ast.value) == acc
    chk.ob("R4.read-loop", "AgentSSH._read_all", okp, rd.loc,
           detail + " (accumulates until the announced length, requests only what is missing, raises on an empty read, returns the accumulator)")
