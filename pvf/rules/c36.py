"""C36 - keys survive serialisation; new key files are private (partial)."""
import ast
import re
from ..core.model import AnalysisError, unparse, dotted, walk_no_defs
from ..core.flow import Flow, clone
from ..core.consts import Folder, is_sym
from ..core.callgraph import CallGraph
from ..core.layout import eval_order
from ..core import match as M

KEYS = ["RSAKey", "ECDSAKey", "Ed25519Key"]
# what a _fields tuple may mention: public material only (one reason per row)
PUBLIC_ALLOW = [
    (r"^self\.get_name\(\)$", "algorithm name"),
    (r"^self\.name$", "algorithm name"),
    (r"^self\.public_numbers\.(e|n)$", "RSA public exponent / modulus"),
    (r"^self\.verifying_key\.public_numbers\(\)\.(x|y)$", "ECDSA public point"),
    (r"^self\._signing_key\.verify_key$", "Ed25519 public half derived from the private key"),
    (r"^self\._verifying_key$", "Ed25519 public key"),
    (r"^self\.blob$", "agent-held public blob"),
    (r"^self\.inner_key\._fields$", "delegation to the inner key's public fields"),
]


def _msg_ops(fnode, var):
    """add_*/get_* calls on Message variable `var` in evaluation order: [(method, arg text)]."""
    out = []

    def visit(x):
        if isinstance(x, ast.Call) and isinstance(x.func, ast.Attribute) and unparse(x.func.value) == var and \
                (x.func.attr.startswith("add_") or x.func.attr.startswith("get_")):
            out.append((x.func.attr, unparse(x.args[0]) if x.args else ""))
    for st in fnode.body:
        _eo(st, visit)
    return out


def _eo(st, visit):
    """statement-level evaluation-order walk (descends into compound statements in source order)."""
    if isinstance(st, (ast.If, ast.While)):
        eval_order(st.test, visit)
        for s in st.body + st.orelse:
            _eo(s, visit)
    elif isinstance(st, ast.For):
        eval_order(st.iter, visit)
        for s in st.body + st.orelse:
            _eo(s, visit)
    elif isinstance(st, ast.Try):
        for s in st.body + [x for h in st.handlers for x in h.body] + st.orelse + st.finalbody:
            _eo(s, visit)
    elif isinstance(st, ast.With):
        for it in st.items:
            eval_order(it.context_expr, visit)
        for s in st.body:
            _eo(s, visit)
    elif isinstance(st, (ast.FunctionDef, ast.ClassDef)):
        return
    else:
        eval_order(st, visit)


KIND = {"add_string": "string", "get_string": "string", "get_binary": "string", "get_text": "string",
        "add_mpint": "mpint", "get_mpint": "mpint", "add_int": "uint32", "get_int": "uint32"}


def run(prog, chk):
    chk.explanation = (
        "Partial: private-key round trips and passphrase behaviour of the serialisation library are not decided. "
        "Decided: (R1) owner-only creation - every write_private_key_file reaches the disk only through "
        "PKey._write_private_key_file, which creates the file with os.open(flags including O_CREAT, mode=0o600) and "
        "wraps that descriptor; no other file-creating call (builtin open in a write mode, os.open without the "
        "0600 mode, chmod-after-create) is reachable from any write_private_key_file; the unencrypted form is chosen "
        "exactly under `password is None` (an empty passphrase is still a passphrase). (R2) __eq__ and __hash__ are "
        "functions of _fields only, no key class overrides them, and each _fields tuple mentions only public material "
        "(allow-list with reasons). (R3) public encoding agreement: for RSA / ECDSA / Ed25519 the field kinds and "
        "order written by asbytes() equal what the constructor reads from msg after the type field (keyword "
        "arguments in evaluation order); the two ECDSA coordinates are encoded by statements that are identical up to "
        "renaming x<->y (sibling agreement) and both padded to the curve's byte size. (R4) get_fingerprint, "
        "fingerprint, get_base64 and __bytes__ depend on asbytes() only; from_type_string builds the class whose "
        "identifiers contain the type from the raw bytes.")
    chk.assumptions = ["cryptography's private_bytes / load_*_private_key are inverses and enforce the passphrase",
                       "os.open(mode=0o600) creates the file owner-only (modulo umask, which can only remove bits)"]
    fold = Folder(prog)
    cg = CallGraph(prog, [])

    # ---- R1 ---------------------------------------------------------------------------------------------------
    o600 = fold.name("common", "o600")
    chk.ob("R1.mode-constant", "o600", o600 == 0o600, prog.module("common").path, "o600 folds to %s" % (oct(o600) if isinstance(o600, int) else o600))
    writers = []
    for c in prog.classes.values():
        if prog.is_subclass(c.name, "PKey") and "write_private_key_file" in c.methods and c.name != "PKey":
            writers.append(c.methods["write_private_key_file"])
    chk.floor("R1", "write_private_key_file implementations", len(writers), 2)
    wpf = prog.func("PKey._write_private_key_file")
    for w in sorted(writers, key=lambda f: f.qual):
        clo = cg.closure([w.qual])
        creators = []
        for q in sorted(clo):
            f = cg.funcs.get(q)
            if f is None or f.module.name not in ("pkey", "rsakey", "ecdsakey", "ed25519key", "agent"):
                continue
            for x in walk_no_defs(f.node):
                if isinstance(x, ast.Call):
                    nm = dotted(x.func)
                    if nm == "open":
                        mode = M.arg(x, 1, "mode")
                        mv = mode.value if isinstance(mode, ast.Constant) else None
                        if mv is None and mode is not None:
                            creators.append((q, x, "open with a computed mode"))
                        elif mv is not None and any(ch in mv for ch in "wax+"):
                            creators.append((q, x, "builtin open(%r) creates the file with the umask-default mode" % mv))
                    elif nm == "os.open":
                        fl_ = M.arg(x, 1, "flags")
                        md = M.arg(x, 2, "mode")
                        has_creat = fl_ is not None and "O_CREAT" in unparse(fl_)
                        mdv = fold.eval(md, fold.module_env(f.module.name), f.module) if md is not None else None
                        if has_creat and mdv != 0o600:
                            creators.append((q, x, "os.open with O_CREAT and mode %r" % (mdv,)))
                    elif nm in ("os.chmod", "os.fchmod"):
                        creators.append((q, x, "chmod after creation leaves a window in which the file has the default mode"))
        reaches = wpf.qual in clo
        chk.ob("R1.writes-through-the-0600-creator", w.qual, reaches, w.loc, "%s %s PKey._write_private_key_file" % (w.qual, "reaches" if reaches else "does not reach"))
        chk.ob("R1.no-other-file-creating-call", w.qual, not creators, w.loc,
               "file-creating calls reachable besides os.open(..., O_CREAT, mode=0o600): %s" % (
                   ["%s: %s (%s)" % (q, unparse(x)[:60], why) for (q, x, why) in creators] or "none"))
    opens = [x for x in walk_no_defs(wpf.node) if M.is_call(x, name="os.open")]
    oko = len(opens) == 1
    detail = "%d os.open calls" % len(opens)
    if oko:
        x = opens[0]
        fl_ = M.arg(x, 1, "flags")
        md = M.arg(x, 2, "mode")
        flags_t = unparse(fl_) if fl_ is not None else ""
        mdv = fold.eval(md, fold.module_env("pkey"), prog.module("pkey")) if md is not None else None
        oko = unparse(x.args[0]) == wpf.params()[1] and all(t in flags_t for t in ("os.O_WRONLY", "os.O_CREAT")) and mdv == 0o600
        detail = "os.open(%s, flags=%s, mode=%s)" % (unparse(x.args[0]), flags_t, oct(mdv) if isinstance(mdv, int) else mdv)
        par = getattr(x, "_parent", None)
        oko = oko and M.is_call(par, name="os.fdopen") and par.args and par.args[0] is x
    chk.ob("R1.creates-owner-only", "PKey._write_private_key_file", oko, wpf.loc, detail + " wrapped by os.fdopen")
    wk = [c for c in walk_no_defs(wpf.node) if M.is_call(c, name="self._write_private_key")]
    okw = len(wk) == 1 and isinstance(getattr(wk[0], "_parent", None), ast.Expr)
    if okw:
        w_ = wk[0]
        p = w_._parent
        while p is not None and not isinstance(p, ast.With):
            p = getattr(p, "_parent", None)
        okw = p is not None and any(o is p.items[0].context_expr or o in list(ast.walk(p.items[0].context_expr)) for o in opens) and \
            unparse(w_.args[0]) == unparse(p.items[0].optional_vars)
    chk.ob("R1.key-written-into-that-descriptor", "PKey._write_private_key_file", okw, wpf.loc, "the serialiser writes into the file object of the 0600 descriptor")
    wp = prog.func("PKey._write_private_key")
    fw = Flow(prog, wp, implicit=False)
    pw = [p for p in wp.params() if p == "password"]
    if not pw:
        raise AnalysisError("PKey._write_private_key", "password parameter not found")
    noenc = fw.nodes(lambda n: n.kind == "stmt" and isinstance(n.ast, ast.Assign) and "NoEncryption" in unparse(n.ast.value))
    enc = fw.nodes(lambda n: n.kind == "stmt" and isinstance(n.ast, ast.Assign) and "BestAvailableEncryption" in unparse(n.ast.value))
    conds = fw.nodes(lambda n: n.kind == "cond")
    oke = len(noenc) == 1 and len(enc) == 1 and len(conds) == 1
    detail = "tests %s" % [unparse(c.ast) for c in conds]
    if oke:
        s = M.is_none_test(conds[0].ast, "password")
        arm = "T" if s == 1 else ("F" if s == -1 else None)
        oke = arm is not None and fw.dominated(noenc, guard_edge=fw.edge_guard(lambda t: t is conds[0].ast, arm)) and \
            fw.dominated(enc, guard_edge=fw.edge_guard(lambda t: t is conds[0].ast, "F" if arm == "T" else "T"))
        detail = "NoEncryption chosen under `%s`%s" % (unparse(conds[0].ast), "" if arm else " - a truthiness test treats the empty passphrase as no passphrase")
        oke = oke and unparse(enc[0].ast.value).endswith("BestAvailableEncryption(b(password))")
    chk.ob("R1.unencrypted-only-without-passphrase", "PKey._write_private_key", oke, wp.loc, detail)

    # ---- R2 ---------------------------------------------------------------------------------------------------
    eq = prog.func("PKey.__eq__")
    rt = [unparse(r.value) for r in walk_no_defs(eq.node) if isinstance(r, ast.Return)]
    o = eq.params()[1]
    chk.ob("R2.eq-is-fields", "PKey.__eq__", rt in (["isinstance(%s, PKey) and self._fields == %s._fields" % (o, o)],), eq.loc, "returns %s" % rt)
    hs = prog.func("PKey.__hash__")
    rt = [unparse(r.value) for r in walk_no_defs(hs.node) if isinstance(r, ast.Return)]
    chk.ob("R2.hash-is-fields", "PKey.__hash__", rt == ["hash(self._fields)"], hs.loc, "returns %s" % rt)
    nfields = 0
    for c in sorted(prog.classes.values(), key=lambda c: c.name):
        if c.name == "PKey" or not prog.is_subclass(c.name, "PKey"):
            continue
        over = [m for m in ("__eq__", "__hash__", "__ne__") if m in c.methods]
        chk.ob("R2.no-override-of-equality", c.name, not over, c.module.path, "overrides %s" % (over or "nothing"))
        if "_fields" in c.methods:
            nfields += 1
            fm = c.methods["_fields"]
            ff = Flow(prog, fm, implicit=False)
            rets = ff.nodes(lambda n: n.kind == "return")
            for r in rets:
                for alt in ff.expand(r.ast.value, r, depth=2):
                    elts = alt.elts if isinstance(alt, (ast.Tuple, ast.List)) else ([alt.body, alt.orelse] if isinstance(alt, ast.IfExp) else [alt])
                    flat = []
                    for e in elts:
                        flat += e.elts if isinstance(e, (ast.Tuple, ast.List)) else [e]
                    for e in flat:
                        t = unparse(e)
                        why = [w for (pat, w) in PUBLIC_ALLOW if re.match(pat, t)]
                        chk.ob("R2.fields-are-public-material", "%s._fields:%s" % (c.name, t), bool(why), fm.loc,
                               "%s - %s" % (t, why[0] if why else "not on the allow-list of public material (private numbers / signing key would make equality depend on the private half)"))
    chk.floor("R2", "_fields implementations", nfields, 4)
    # equality must look at *all* the public material the encoding carries: the public-number components mentioned by
    # _fields are the ones asbytes() writes (a tuple (name, x, x) makes a key equal to its negated-point twin)
    comp = {"RSAKey": ("e", "n"), "ECDSAKey": ("x", "y")}
    for K, names in sorted(comp.items()):
        fm = prog.cls(K).methods["_fields"]
        ab_ = prog.method(K, "asbytes")

        def comps(fn):
            out = []
            for x in walk_no_defs(fn.node):
                if isinstance(x, ast.Attribute) and x.attr in names and isinstance(x.ctx, ast.Load) and \
                        ("public_numbers" in unparse(x.value) or unparse(x.value) == "numbers"):
                    out.append(x.attr)
            return out
        fcs, acs = comps(fm), comps(ab_)
        chk.ob("R2.fields-cover-the-encoded-public-numbers", K, sorted(fcs) == sorted(set(acs)) and len(set(fcs)) == len(names), fm.loc,
               "_fields compares %s; asbytes() encodes %s (each component exactly once in _fields)" % (fcs, sorted(set(acs))))

    # ---- R3 ---------------------------------------------------------------------------------------------------
    def reader_ops(cls):
        init = prog.method(cls, "__init__")
        ops = _msg_ops(init.node, "msg")
        return init, ops

    # RSA
    ab = prog.method("RSAKey", "asbytes")
    wops = _msg_ops(ab.node, "m")
    init, rops = reader_ops("RSAKey")
    wk_ = [(KIND.get(a), t) for (a, t) in wops]
    chk.ob("R3.public-layout", "RSAKey.asbytes", wk_ == [("string", "self.name"), ("mpint", "self.public_numbers.e"), ("mpint", "self.public_numbers.n")], ab.loc, "writes %s" % wops)
    rn = [c for c in walk_no_defs(init.node) if M.is_call(c, name="rsa.RSAPublicNumbers")]
    okr = len(rn) == 1
    if okr:
        order = [(k.arg, unparse(k.value)) for k in rn[0].keywords] + [(None, unparse(a)) for a in rn[0].args]
        okr = [k for (k, v) in order] == ["e", "n"] and all(v == "msg.get_mpint()" for (k, v) in order)
    chk.ob("R3.public-layout", "RSAKey.__init__", okr and [KIND.get(a) for (a, t) in rops] == ["mpint", "mpint"], init.loc,
           "after the type field reads %s into RSAPublicNumbers(%s)" % (rops, ", ".join("%s=%s" % kv for kv in order) if rn else "?"))
    # ECDSA
    ab = prog.method("ECDSAKey", "asbytes")
    wops = _msg_ops(ab.node, "m")
    init, rops = reader_ops("ECDSAKey")
    chk.ob("R3.public-layout", "ECDSAKey.asbytes", [(KIND.get(a), t) for (a, t) in wops] == [
        ("string", "self.ecdsa_curve.key_format_identifier"), ("string", "self.ecdsa_curve.nist_name"), ("string", "point_str")], ab.loc, "writes %s" % wops)
    chk.ob("R3.public-layout", "ECDSAKey.__init__", [a for (a, t) in rops] == ["get_text", "get_text", "get_binary"], init.loc,
           "reads %s (type, curve name, point)" % rops)
    fa = Flow(prog, ab, implicit=False)
    ps = [n for n in fa.nodes(lambda n: n.kind == "stmt" and isinstance(n.ast, ast.Assign) and unparse(n.ast.targets[0]) == "point_str")]
    okp = len(ps) == 1 and [unparse(p) for p in M.flatten_add(ps[0].ast.value)] == ["four_byte", "x_bytes", "y_bytes"]
    chk.ob("R3.ecdsa-point-encoding", "ECDSAKey.asbytes:point", okp, ab.loc, "point_str = %s (uncompressed point: 0x04 || X || Y)" % (unparse(ps[0].ast.value) if ps else "?"))
    xs = [s for s in walk_no_defs(ab.node) if isinstance(s, ast.Assign) and unparse(s.targets[0]) == "x_bytes"]
    ys = [s for s in walk_no_defs(ab.node) if isinstance(s, ast.Assign) and unparse(s.targets[0]) == "y_bytes"]

    def swap(st):
        n = clone(st)
        for x in ast.walk(n):
            if isinstance(x, ast.Name) and x.id in ("x_bytes", "y_bytes"):
                x.id = "y_bytes" if x.id == "x_bytes" else "x_bytes"
            elif isinstance(x, ast.Attribute) and x.attr in ("x", "y") and unparse(x.value) == "numbers":
                x.attr = "y" if x.attr == "x" else "x"
        return unparse(n)
    oks = len(xs) == len(ys) and len(xs) >= 2 and [swap(s) for s in xs] == [unparse(s) for s in ys]
    chk.ob("R3.ecdsa-coordinates-encoded-alike", "ECDSAKey.asbytes:x/y", oks, ab.loc,
           "x: %s | y: %s (must be identical up to renaming x<->y)" % ("; ".join(unparse(s) for s in xs), "; ".join(unparse(s) for s in ys)))
    pad = [s for s in xs if "key_size_bytes" in unparse(s)]
    okpad = len(pad) == 1 and unparse(pad[0].value) in ("b'\\x00' * (key_size_bytes - len(x_bytes)) + x_bytes", "zero_byte * (key_size_bytes - len(x_bytes)) + x_bytes")
    ksb = [s for s in walk_no_defs(ab.node) if isinstance(s, ast.Assign) and unparse(s.targets[0]) == "key_size_bytes"]
    okpad = okpad and len(ksb) == 1 and unparse(ksb[0].value) == "(key.curve.key_size + 7) // 8"
    chk.ob("R3.ecdsa-coordinates-padded-to-field-size", "ECDSAKey.asbytes:pad", okpad, ab.loc,
           "left-padded with zero bytes to ceil(key_size / 8) (SEC1 fixed-width coordinates)")
    # Ed25519
    ab = prog.method("Ed25519Key", "asbytes")
    wops = _msg_ops(ab.node, "m")
    init, rops = reader_ops("Ed25519Key")
    chk.ob("R3.public-layout", "Ed25519Key.asbytes", [(KIND.get(a), t) for (a, t) in wops] == [("string", "self.name"), ("string", "v.encode()")], ab.loc, "writes %s" % wops)
    vk = [c for c in walk_no_defs(init.node) if M.is_call(c, name="nacl.signing.VerifyKey")]
    chk.ob("R3.public-layout", "Ed25519Key.__init__", [a for (a, t) in rops] == ["get_binary"] and len(vk) == 1 and unparse(vk[0].args[0]) == "msg.get_binary()", init.loc,
           "after the type field reads %s into VerifyKey" % rops)
    # the type field: _check_type_and_load_cert rewinds, reads the type as text and accepts only the class's names
    ct = prog.func("PKey._check_type_and_load_cert")
    cops = []

    def v2(x):
        if isinstance(x, ast.Call) and isinstance(x.func, ast.Attribute) and unparse(x.func.value) == "msg":
            cops.append(x.func.attr)
    for st in ct.node.body:
        _eo(st, v2)
    chk.ob("R3.type-field-read-first", "PKey._check_type_and_load_cert", cops[:2] == ["rewind", "get_text"], ct.loc, "msg operations %s" % cops)
    for K in KEYS:
        init = prog.method(K, "__init__")
        cc = [c for c in walk_no_defs(init.node) if M.is_call(c, name="self._check_type_and_load_cert")]
        chk.ob("R3.type-field-checked", K, len(cc) == 1, init.loc, "constructor checks the type field against the class's own names")

    # ---- R4 ---------------------------------------------------------------------------------------------------
    want = {"get_fingerprint": ["md5(self.asbytes()).digest()"], "get_base64": ["u(encodebytes(self.asbytes())).replace('\\n', '')"], "__bytes__": ["self.asbytes()"]}
    for name, w in sorted(want.items()):
        m = prog.method("PKey", name)
        rt = [unparse(r.value) for r in walk_no_defs(m.node) if isinstance(r, ast.Return)]
        chk.ob("R4.derived-from-asbytes-only", "PKey.%s" % name, rt == w, m.loc, "returns %s" % rt)
    fp = prog.method("PKey", "fingerprint")
    srcs = [unparse(c) for c in walk_no_defs(fp.node) if M.is_call(c, name="sha256")]
    chk.ob("R4.derived-from-asbytes-only", "PKey.fingerprint", srcs in (["sha256(bytes(self))"], ["sha256(self.asbytes())"]), fp.loc, "hashes %s" % srcs)
    for K in KEYS:
        over = [m for m in ("get_fingerprint", "fingerprint", "get_base64", "__bytes__") if m in prog.cls(K).methods]
        chk.ob("R4.no-override-of-derived-encodings", K, not over, prog.cls(K).module.path, "overrides %s" % (over or "nothing"))
    fts = prog.func("PKey.from_type_string")
    loops = [n for n in walk_no_defs(fts.node) if isinstance(n, ast.For)]
    okf = len(loops) == 1
    if okf:
        kc = unparse(loops[0].target)
        b = loops[0].body
        okf = len(b) == 1 and isinstance(b[0], ast.If) and unparse(b[0].test) == "%s in %s.identifiers()" % (fts.params()[0], kc) and \
            [unparse(s) for s in b[0].body if not isinstance(s, ast.Expr)] == ["return %s(data=%s)" % (kc, fts.params()[1])]
    chk.ob("R4.from-type-string", "PKey.from_type_string", okf, fts.loc, "returns key_class(data=key_bytes) for the class whose identifiers() contain the type")
