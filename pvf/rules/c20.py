"""C20 - flow control never deadlocks while the receiver keeps reading (partial)."""
import ast
from ..core.model import AnalysisError, unparse, dotted, walk_no_defs
from ..core.consts import Folder
from ..core.flow import Flow, node_calls, attr_writes
from ..core.locks import LockFlow
from ..core import match as M


def proper_fraction(expr, w):
    """is ``expr`` one of  W // c (c>=2) | W >> k (k>=1) | (W*a)//b (a<b) | int(W / c)  of the name w?"""
    if isinstance(expr, ast.BinOp):
        if isinstance(expr.op, ast.FloorDiv) and isinstance(expr.right, ast.Constant) and isinstance(expr.right.value, int):
            if unparse(expr.left) == w:
                return expr.right.value >= 2
            l = expr.left
            if isinstance(l, ast.BinOp) and isinstance(l.op, ast.Mult):
                ops = [l.left, l.right]
                c = [o for o in ops if isinstance(o, ast.Constant) and isinstance(o.value, int)]
                v = [o for o in ops if unparse(o) == w]
                return len(c) == 1 and len(v) == 1 and 0 < c[0].value < expr.right.value
        if isinstance(expr.op, ast.RShift) and unparse(expr.left) == w and isinstance(expr.right, ast.Constant):
            return isinstance(expr.right.value, int) and expr.right.value >= 1
    return False


def run(prog, chk):
    chk.explanation = (
        "Partial. Decided: (R1) every received data byte is either buffered (and credited when read, "
        "C19-R5) or credited at once: on every path of _feed / _feed_extended that read a payload s, s goes "
        "to a receive buffer or len(s) goes to _check_add_window with the resulting adjust sent; (R2) the "
        "adjust threshold is a proper fraction of the advertised window and the 'not yet' test is a "
        "non-strict <=, so a reader that consumed everything outstanding has always credited it back, for "
        "every window size; crediting is suppressed only when the channel is closed / EOF was received / "
        "not yet active; (R3) set_combine_stderr re-feeds what it empties; (R4) a window adjust wakes every "
        "blocked sender (notify_all under the lock). Not decided: eventual progress itself (liveness of two "
        "threads and a peer).")
    chk.assumptions = ["the peer keeps reading and adjusting as RFC 4254 requires"]
    # R1 -----------------------------------------------------------------------------------
    for fname in ("_feed", "_feed_extended"):
        f = prog.func("Channel." + fname)
        fl = Flow(prog, f, implicit=False)
        reads = [(n, c) for (n, c) in fl.nodes_with_call(attr="get_binary")] + [(n, c) for (n, c) in fl.nodes_with_call(attr="get_string")]
        payload_reads = [(n, c) for (n, c) in reads if isinstance(n.ast, ast.Assign) and isinstance(n.ast.targets[0], ast.Name)]
        if len(payload_reads) != 1:
            raise AnalysisError("Channel." + fname, "expected one payload read")
        rn, rc = payload_reads[0]
        sv = rn.ast.targets[0].id
        sinks = []
        for (n, c) in fl.nodes_with_call():
            nm = dotted(c.func) or ""
            if nm in ("self.in_buffer.feed", "self.in_stderr_buffer.feed", "self._feed") and c.args and unparse(c.args[0]) == sv:
                sinks.append(n)
            if nm == "self._check_add_window" and c.args and unparse(c.args[0]) == "len(%s)" % sv:
                sinks.append(n)
        start = [d for (d, lab) in fl.cfg.succ[rn.id]]
        ok = bool(sinks) and fl.cfg.dominated([fl.cfg.exit.id], guard_nodes=[s.id for s in sinks], start=start)
        where = fl.where(rn)
        detail = "payload %s always reaches a buffer or the window credit" % sv
        if not ok:
            p = fl.cfg.witness_path([fl.cfg.exit.id], guard_nodes=[s.id for s in sinks], start=start)
            arm = [unparse(n.ast)[:50] for n in (p or []) if n.kind == "cond"]
            detail = "payload %s dropped without credit on the path through %s" % (sv, arm)
            key = "%s:%s" % (fname, (arm[-1] if arm else "?").replace(" ", ""))
        else:
            key = fname
        chk.ob("R1.every-byte-buffered-or-credited", key, ok, where, detail)
        # a credit computed here must be sent
        for (n, c) in fl.nodes_with_call(name="self._check_add_window"):
            tgt = n.ast.targets[0].id if isinstance(n.ast, ast.Assign) and isinstance(n.ast.targets[0], ast.Name) else None
            sent = [x for (x, k) in fl.nodes_with_call(attr="add_int") if tgt and unparse(k.args[0]) == tgt]
            chk.ob("R1.credit-is-sent", fname, bool(sent), fl.where(n), "the amount returned by _check_add_window goes into a WINDOW_ADJUST")

    # R2 --------------------------------------------------------------------------------------
    sw = prog.func("Channel._set_window")
    wp = sw.params()[1]
    vals = dict((t.attr, v) for (st, t, v) in attr_writes(sw.node))
    ok = "in_window_threshold" in vals and "in_window_size" in vals and unparse(vals["in_window_size"]) == wp and \
        proper_fraction(vals["in_window_threshold"], wp)
    chk.ob("R2.threshold-proper-fraction", "_set_window", ok, sw.loc,
           "in_window_size = %s ; in_window_threshold = %s" % (unparse(vals.get("in_window_size")), unparse(vals.get("in_window_threshold"))))
    tw = []
    for f in prog.all_functions():
        for (st, t, v) in attr_writes(f.node):
            if t.attr == "in_window_threshold":
                tw.append(f.qual)
    chk.ob("R2.threshold-writers", "in_window_threshold", set(tw) <= set(["Channel.__init__", "Channel._set_window"]) and "Channel._set_window" in tw,
           sw.loc, "writers: %s" % sorted(set(tw)))
    cw = prog.func("Channel._check_add_window")
    fc = Flow(prog, cw, implicit=False)
    acc = fc.nodes(lambda n: n.kind == "stmt" and isinstance(n.ast, ast.AugAssign) and unparse(n.ast.target) == "self.in_window_sofar")
    thr = fc.nodes(lambda n: n.kind == "cond" and unparse(n.ast) in ("self.in_window_sofar <= self.in_window_threshold",
                                                                    "self.in_window_threshold >= self.in_window_sofar",
                                                                    "self.in_window_sofar > self.in_window_threshold",
                                                                    "self.in_window_threshold < self.in_window_sofar"))
    ok = len(acc) == 1 and len(thr) == 1 and fc.dominated(thr, guard_nodes=acc)
    chk.ob("R2.threshold-test", "_check_add_window", ok, cw.loc, "credit withheld only while sofar <= threshold (tested after accumulating)")
    # early-outs before accumulation: only closed / eof_received / not active
    allowed = set(["self.closed", "self.eof_received", "self.active"])
    pre = []
    if acc:
        for n in fc.nodes(lambda n: n.kind == "cond"):
            # cond nodes from which the accumulation can be skipped (a return is reachable avoiding acc) and that precede acc
            if acc[0].id in fc.cfg.reach([n.id]) and not fc.cfg.dominated([fc.cfg.exit.id], guard_nodes=[acc[0].id], start=[n.id]):
                if not fc.dominated([n], guard_nodes=acc):
                    pre.append(unparse(n.ast))
    bad = [t for t in pre if t not in allowed]
    chk.ob("R2.crediting-suppressed-only-when-moot", "_check_add_window", not bad and bool(pre), cw.loc,
           "tests that can skip the accounting: %s" % pre)

    # R3 ------------------------------------------------------------------------------------------
    sc = prog.func("Channel.set_combine_stderr")
    fs = Flow(prog, sc)
    em = [(n, c) for (n, c) in fs.nodes_with_call(name="self.in_stderr_buffer.empty")]
    fd = [(n, c) for (n, c) in fs.nodes_with_call(name="self._feed")] + [(n, c) for (n, c) in fs.nodes_with_call(name="self.in_buffer.feed")]
    ok = len(em) == 1 and len(fd) == 1 and isinstance(em[0][0].ast, ast.Assign)
    if ok:
        dv = unparse(em[0][0].ast.targets[0])
        ok = unparse(fd[0][1].args[0]) == dv
        # after emptying, every path to the exit feeds the data (unless it is empty)
        start = [d for (d, lab) in fs.cfg.succ[em[0][0].id] if lab != "exc"]
        g = fs.edge_guard(lambda t: unparse(t) in ("len(%s) > 0" % dv, dv), "F")
        ok = ok and fs.cfg.dominated([fs.cfg.exit.id], guard_nodes=[fd[0][0].id], guard_edge=g, start=start)
    chk.ob("R3.combine-refeeds", "set_combine_stderr", ok, sc.loc, "the stderr backlog emptied is fed to the stdout buffer")

    # R4 --------------------------------------------------------------------------------------------
    wa = prog.func("Channel._window_adjust")
    lw = LockFlow(prog, wa)
    nt = [n for (n, c) in lw.fl.nodes_with_call(name="self.out_buffer_cv.notify_all")]
    ok = len(nt) == 1 and lw.holds(nt[0], "self.lock") and lw.fl.exit_dominated(guard_nodes=nt)
    chk.ob("R4.adjust-wakes-all-senders", "_window_adjust", ok, wa.loc, "out_buffer_cv.notify_all() under the lock on every path")
    scl = prog.func("Channel._set_closed")
    nt = [c for c in walk_no_defs(scl.node) if M.is_call(c, name="self.out_buffer_cv.notify_all")]
    chk.ob("R4.close-wakes-all-senders", "_set_closed", len(nt) == 1, scl.loc, "out_buffer_cv.notify_all() on close")
