"""C19 - senders never exceed the peer's window or maximum packet size."""
import ast
from ..core.model import AnalysisError, unparse, dotted, walk_no_defs
from ..core.consts import Folder
from ..core.flow import Flow, node_calls, attr_writes
from ..core.locks import LockFlow, call_sites
from ..core.bounds import facts, establishes_hi, _bound
from ..core import match as M

W = "self.out_window_size"
P = "self.out_max_packet_size"


def clamp_guards(fl, var, bound):
    """(guard nodes, guard edges) after which ``var <= bound`` holds;
    bound = (symbol, offset)."""
    gn, ge = [], set()
    for n in fl.nodes(lambda n: n.kind == "cond"):
        f = facts(n.ast, var)
        for arm in ("T", "F"):
            if any(establishes_hi(x, bound[0], bound[1]) for x in f[arm]):
                ge.add((n.id, arm))
    for n in fl.nodes(lambda n: n.kind == "stmt" and isinstance(n.ast, ast.Assign) and len(n.ast.targets) == 1
                      and unparse(n.ast.targets[0]) == var):
        v = n.ast.value
        b = _bound(v)
        if b is not None and b[0] == bound[0] and b[1] <= bound[1]:
            gn.append(n)
        elif M.is_call(v, name="min") and any(_bound(a) is not None and _bound(a)[0] == bound[0] and _bound(a)[1] <= bound[1] for a in v.args) \
                and any(unparse(a) == var for a in v.args):
            gn.append(n)
    return gn, ge


def run(prog, chk):
    fold = Folder(prog)
    chk.explanation = (
        "Decided structurally (+ bound normalisation): (R1) DATA / EXTENDED_DATA messages are built only in "
        "send/send_stderr and get their payload only in _send, as s[:size] with size returned by "
        "_wait_for_send_window; (R2) on every non-zero return of _wait_for_send_window the size has been "
        "clamped to out_window_size and to out_max_packet_size - 64 after its last other assignment, the "
        "subtraction uses that same size, and it happens with a non-zero window; (R3) out_window_size is "
        "written only by _set_remote_channel (peer's initial window), _window_adjust (+= peer's grant) and "
        "that subtraction, the last two with Channel.lock held (every caller of _wait_for_send_window "
        "holds it); (R4) out_max_packet_size is the peer's value clamped from below by MIN_PACKET_SIZE "
        "(4096); (R5) every WINDOW_ADJUST carries the return of _check_add_window(len(bytes just taken "
        "from a receive buffer)), which returns 0 or the accumulated count it then zeroes, under the lock, "
        "and nothing else moves buffered bytes through a crediting read; (R6) advertised window/packet "
        "sizes are the ones tracked. Not decided: scheduling of adjusts (C20).")
    chk.assumptions = ["Condition.wait releases and reacquires the lock; predicates are re-tested in the loop"]
    C = "Channel"
    # R1 ------------------------------------------------------------------------------------
    builders = {}
    for f in prog.all_functions():
        for c in walk_no_defs(f.node):
            if M.is_call(c, attr="add_byte") and c.args and unparse(c.args[0]) in ("cMSG_CHANNEL_DATA", "cMSG_CHANNEL_EXTENDED_DATA"):
                builders.setdefault(unparse(c.args[0]), []).append(f.qual)
    chk.ob("R1.single-producer", "CHANNEL_DATA", builders.get("cMSG_CHANNEL_DATA") == ["Channel.send"], prog.func("Channel.send").loc,
           "built in %s" % builders.get("cMSG_CHANNEL_DATA"))
    chk.ob("R1.single-producer", "CHANNEL_EXTENDED_DATA", builders.get("cMSG_CHANNEL_EXTENDED_DATA") == ["Channel.send_stderr"],
           prog.func("Channel.send_stderr").loc, "built in %s" % builders.get("cMSG_CHANNEL_EXTENDED_DATA"))
    for nm in ("send", "send_stderr"):
        f = prog.func("Channel." + nm)
        rets = [n for n in walk_no_defs(f.node) if isinstance(n, ast.Return)]
        ok = len(rets) == 1 and M.is_call(rets[0].value, name="self._send") and len(rets[0].value.args) == 2
        adds = [c for c in walk_no_defs(f.node) if isinstance(c, ast.Call) and isinstance(c.func, ast.Attribute) and c.func.attr.startswith("add_")]
        ok = ok and not any(c.func.attr in ("add_string", "add_bytes") for c in adds)
        chk.ob("R1.payload-only-in-_send", nm, ok, f.loc, "header only; payload is added by _send")
    snd = prog.func("Channel._send")
    fs = Flow(prog, snd)
    sp, mp = snd.params()[1], snd.params()[2]
    adds = [(n, c) for (n, c) in fs.nodes_with_call(name=mp + ".add_string")]
    wcall = [(n, c) for (n, c) in fs.nodes_with_call(name="self._wait_for_send_window")]
    ok = len(adds) == 1 and len(wcall) == 1
    detail = ""
    if ok:
        sl = M.slice_of(adds[0][1].args[0])
        ok = bool(sl and unparse(sl[0]) == sp and sl[1] is None and sl[2] is not None)
        if ok:
            sv = sl[2]
            ds = fs.defs(sv, adds[0][0])
            ok = [d[0].id for d in ds] == [wcall[0][0].id]
            detail = "payload %s with %s <- %s" % (unparse(adds[0][1].args[0]), sv, [unparse(d[1]) for d in ds if d[1] is not None])
            rets = fs.nodes(lambda n: n.kind == "return" and n.ast.value is not None and not isinstance(n.ast.value, ast.Constant))
            ok = ok and all(unparse(r.ast.value) == sv for r in rets)
            sm = [n for (n, c) in fs.nodes_with_call(name="self.transport._send_user_message") if unparse(c.args[0]) == mp]
            ok = ok and len(sm) == 1 and fs.dominated(sm, guard_nodes=[adds[0][0]])
            # a zero grant sends nothing
            z = fs.edge_guard(lambda t: unparse(t) in ("%s == 0" % sv, "not %s" % sv), "F")
            ok = ok and fs.dominated([adds[0][0]], guard_edge=z)
    chk.ob("R1.payload-is-granted-slice", "_send", ok, snd.loc, detail)

    # R2 -----------------------------------------------------------------------------------------
    wf = prog.func("Channel._wait_for_send_window")
    fw = Flow(prog, wf, implicit=False)
    sz = wf.params()[1]
    sub = fw.nodes(lambda n: n.kind == "stmt" and isinstance(n.ast, ast.AugAssign) and isinstance(n.ast.op, ast.Sub)
                   and unparse(n.ast.target) == W)
    ok = len(sub) == 1 and unparse(sub[0].ast.value) == sz
    # who charges the window at all (evaluated first: a charge that moved elsewhere is a violation, not an unknown shape)
    charge_sites = []
    for f in prog.all_functions():
        for (st, t, v) in attr_writes(f.node):
            if t.attr == "out_window_size" and isinstance(st, ast.AugAssign) and isinstance(st.op, ast.Sub):
                charge_sites.append(f.qual)
            elif t.attr == "out_window_size" and isinstance(st, ast.Assign) and "out_window_size" in unparse(v):
                charge_sites.append(f.qual)
    chk.ob("R3.window-charged-where-granted", "out_window_size", charge_sites == ["Channel._wait_for_send_window"], wf.loc,
           "the window is charged in %s (must be the critical section that computes the grant)" % charge_sites)
    if not ok:
        raise AnalysisError("Channel._wait_for_send_window", "expected exactly one `%s -= %s`" % (W, sz))
    for bound, label in (((W, 0), "window"), ((P, -64), "max-packet-64")):
        gn, ge = clamp_guards(fw, sz, bound)
        ok = bool(gn or ge) and fw.dominated(sub, guard_nodes=gn, guard_edge=lambda s, lab, d, ge=ge: (s, lab) in ge)
        # no assignment to size after the clamp other than clamps
        others = fw.nodes(lambda n: n.kind == "stmt" and isinstance(n.ast, (ast.Assign, ast.AugAssign)) and
                          any(unparse(t) == sz for t in (n.ast.targets if isinstance(n.ast, ast.Assign) else [n.ast.target])))
        allg = set()
        for b2 in ((W, 0), (P, -64)):
            allg |= set(x.id for x in clamp_guards(fw, sz, b2)[0])
        stray = [o for o in others if o.id not in allg]
        chk.ob("R2.clamp", label, ok and not stray, fw.where(sub[0]),
               "size <= %s%s established on every path to the subtraction (%d assignment(s), %d edge(s)); stray writes to size: %d" % (
                   bound[0], bound[1] if bound[1] else "", len(gn), len(ge), len(stray)))
    rets = fw.nodes(lambda n: n.kind == "return" and n.ast.value is not None and not (isinstance(n.ast.value, ast.Constant) and n.ast.value.value == 0))
    ok = bool(rets) and all(unparse(r.ast.value) == sz for r in rets) and fw.dominated(rets, guard_nodes=sub)
    if ok:
        r = fw.cfg.reach([d for (d, l) in fw.cfg.succ[sub[0].id]])
        ok = not any(o.id in r for o in fw.nodes(lambda n: n.kind == "stmt" and isinstance(n.ast, (ast.Assign, ast.AugAssign))
                                                   and any(unparse(t) == sz for t in (n.ast.targets if isinstance(n.ast, ast.Assign) else [n.ast.target]))))
    chk.ob("R2.returned-size-is-charged-size", "_wait_for_send_window", ok, wf.loc, "every non-zero return is the size just subtracted from the window")
    nz = fw.edge_guard(lambda t: unparse(t) in ("%s == 0" % W, "not %s" % W), "F")
    nz2 = fw.edge_guard(lambda t: unparse(t) in ("%s > 0" % W, "%s != 0" % W), "T")
    chk.ob("R2.window-nonzero-when-charged", "_wait_for_send_window",
           fw.dominated(sub, guard_edge=lambda s, lab, d: nz(s, lab, d) or nz2(s, lab, d)), wf.loc,
           "the subtraction is reached only with a non-zero window (so a non-empty request gets a positive grant)")
    cenv = fold.module_env("common")
    chk.ob("R2.min-packet-floor", "MIN_PACKET_SIZE", isinstance(cenv.get("MIN_PACKET_SIZE"), int) and cenv["MIN_PACKET_SIZE"] == 4096, "paramiko/common.py",
           "MIN_PACKET_SIZE = %r (so max_packet - 64 > 0)" % cenv.get("MIN_PACKET_SIZE"))

    # R3 --------------------------------------------------------------------------------------------
    writers = []
    for f in prog.all_functions():
        for (st, t, v) in attr_writes(f.node):
            if t.attr == "out_window_size":
                writers.append((f.qual, type(st).__name__ + ("" if not isinstance(st, ast.AugAssign) else type(st.op).__name__), unparse(v)))
    want = [("Channel.__init__", "Assign", "0"), ("Channel._set_remote_channel", "Assign", "window_size"),
            ("Channel._wait_for_send_window", "AugAssignSub", sz), ("Channel._window_adjust", "AugAssignAdd", "nbytes")]
    chk.ob("R3.credit-writers", "out_window_size", sorted(writers) == sorted(want), wf.loc, "writers: %s" % sorted(writers))
    wa = prog.func("Channel._window_adjust")
    lw = LockFlow(prog, wa)
    wn = lw.fl.nodes(lambda n: n.kind == "stmt" and isinstance(n.ast, ast.AugAssign) and unparse(n.ast.target) == W)
    ok = len(wn) == 1 and lw.holds(wn[0], "self.lock")
    if ok:
        nd = lw.fl.defs("nbytes", wn[0])
        ok = all(r is not None and unparse(r) == "m.get_int()" for (d, r) in nd) and bool(nd)
        nt = [n for (n, c) in lw.fl.nodes_with_call(name="self.out_buffer_cv.notify_all")]
        ok = ok and len(nt) == 1 and lw.holds(nt[0], "self.lock") and lw.fl.exit_dominated(guard_nodes=nt)
    chk.ob("R3.adjust-under-lock", "_window_adjust", ok, wa.loc, "+= peer's grant under Channel.lock, then notify_all")
    chk.ob("R3.no-lock-leak", "_window_adjust", not lw.held_at_exit(), wa.loc, "lock released on every exit")
    sites = call_sites(prog, "_wait_for_send_window")
    chk.floor("R3", "callers of _wait_for_send_window", len(sites), 1)
    for (f, c) in sites:
        lf = LockFlow(prog, f)
        nodes = lf.fl.cfg.node_containing(c)
        ok = bool(nodes) and all(lf.holds(n, "self.lock") for n in nodes)
        chk.ob("R3.caller-holds-lock", f.qual, ok, "%s:%d" % (f.module.path, c.lineno), "_wait_for_send_window called with Channel.lock held")
    src = prog.func("Channel._set_remote_channel")
    sw = [unparse(v) for (st, t, v) in attr_writes(src.node) if t.attr == "out_window_size"]
    chk.ob("R3.initial-window-is-peers", "_set_remote_channel", sw == [src.params()[2]], src.loc, "out_window_size <- %s" % sw)

    # R4 ----------------------------------------------------------------------------------------------
    pw = [unparse(v) for (st, t, v) in attr_writes(src.node) if t.attr == "out_max_packet_size"]
    chk.ob("R4.packet-size-sanitised", "_set_remote_channel", pw == ["self.transport._sanitize_packet_size(%s)" % src.params()[3]], src.loc,
           "out_max_packet_size <- %s" % pw)
    sp_ = prog.func("Transport._sanitize_packet_size")
    fsp = Flow(prog, sp_)
    rets = fsp.nodes(lambda n: n.kind == "return")
    par = sp_.params()[1]
    ok = len(rets) == 1 and unparse(rets[0].ast.value) in ("clamp_value(MIN_PACKET_SIZE, %s, MAX_WINDOW_SIZE)" % par,
                                                           "max(MIN_PACKET_SIZE, min(%s, MAX_WINDOW_SIZE))" % par)
    chk.ob("R4.sanitise-is-lower-clamp", "_sanitize_packet_size", ok, sp_.loc, "returns %s" % [unparse(r.ast.value) for r in rets])
    cv = prog.func("util.clamp_value")
    rets = [unparse(r.value) for r in walk_no_defs(cv.node) if isinstance(r, ast.Return)]
    a = cv.params()
    chk.ob("R4.clamp-value", "util.clamp_value", rets == ["max(%s, min(%s, %s))" % (a[0], a[1], a[2])], cv.loc, "returns %s" % rets)
    ow = []
    for f in prog.all_functions():
        for (st, t, v) in attr_writes(f.node):
            if t.attr == "out_max_packet_size":
                ow.append(f.qual)
    chk.ob("R4.packet-size-writers", "out_max_packet_size", sorted(ow) == ["Channel.__init__", "Channel._set_remote_channel"], src.loc, "writers: %s" % sorted(ow))

    # R5 -----------------------------------------------------------------------------------------------
    adj = {}
    for f in prog.all_functions():
        for c in walk_no_defs(f.node):
            if M.is_call(c, attr="add_byte") and c.args and unparse(c.args[0]) == "cMSG_CHANNEL_WINDOW_ADJUST":
                adj.setdefault(f.qual, 0)
                adj[f.qual] += 1
    chk.floor("R5", "WINDOW_ADJUST builders", len(adj), 2)
    # bytes handed to the application from a receive buffer, or a payload discarded on arrival
    allowed_bufs = {"Channel.recv": "self.in_buffer.read(", "Channel.recv_stderr": "self.in_stderr_buffer.read(",
                    "Channel._feed_extended": "m.get_binary("}
    for fq in sorted(adj):
        f = prog.func(fq)
        ff = Flow(prog, f)
        ok = False
        detail = ""
        ints = [(n, c) for (n, c) in ff.nodes_with_call(attr="add_int")]
        amount = [(n, c) for (n, c) in ints if unparse(c.args[0]) != "self.remote_chanid"]
        if len(amount) == 1:
            n, c = amount[0]
            alts = ff.expand(c.args[0], n, depth=1)
            ok = len(alts) == 1 and M.is_call(alts[0], name="self._check_add_window") and len(alts[0].args) == 1
            if ok:
                arg = alts[0].args[0]
                ok = M.is_call(arg, name="len") and isinstance(arg.args[0], ast.Name)
                if ok:
                    cn = [x for (x, k) in ff.nodes_with_call(name="self._check_add_window")][0]
                    src_ = ff.expand_text(arg.args[0], cn, depth=1)
                    buf = allowed_bufs.get(fq)
                    ok = buf is not None and len(src_) == 1 and src_[0].startswith(buf)
                    if ok and fq == "Channel._feed_extended":
                        # a discarded payload: it must not also be buffered on that path
                        feeds = [x for (x, k) in ff.nodes_with_call() if (dotted(k.func) or "") in (
                            "self.in_buffer.feed", "self.in_stderr_buffer.feed", "self._feed")]
                        r = ff.cfg.reach([cn.id])
                        back = ff.cfg.reach([cn.id], forward=False)
                        ok = not any(x.id in r or x.id in back for x in feeds)
                    detail = "amount <- _check_add_window(len(%s))" % src_
                    # adjust sent only for a positive amount
                    g = ff.edge_guard(lambda t: M.at_least(t, unparse(c.args[0]), 1), "T")
                    ok = ok and ff.dominated([n], guard_edge=g)
        chk.ob("R5.grant-is-consumption", fq, ok, f.loc, detail or "WINDOW_ADJUST amount not recognised as _check_add_window(len(bytes read))")
    cw = prog.func("Channel._check_add_window")
    lc = LockFlow(prog, cw)
    nn = cw.params()[1]
    acc = lc.fl.nodes(lambda n: n.kind == "stmt" and isinstance(n.ast, ast.AugAssign) and isinstance(n.ast.op, ast.Add)
                      and unparse(n.ast.target) == "self.in_window_sofar" and unparse(n.ast.value) == nn)
    zero = lc.fl.nodes(lambda n: n.kind == "stmt" and isinstance(n.ast, ast.Assign) and unparse(n.ast.targets[0]) == "self.in_window_sofar"
                       and isinstance(n.ast.value, ast.Constant) and n.ast.value.value == 0)
    rets = lc.fl.nodes(lambda n: n.kind == "return")
    nonzero = [r for r in rets if not (isinstance(r.ast.value, ast.Constant) and r.ast.value.value == 0)]
    ok = len(acc) == 1 and len(zero) == 1 and len(nonzero) == 1 and lc.holds(acc[0], "self.lock") and lc.holds(zero[0], "self.lock")
    if ok:
        rv = nonzero[0].ast.value
        rd = lc.fl.defs(unparse(rv), nonzero[0]) if isinstance(rv, ast.Name) else []
        ok = len(rd) == 1 and rd[0][1] is not None and unparse(rd[0][1]) == "self.in_window_sofar"
        ok = ok and lc.fl.dominated(nonzero, guard_nodes=zero) and lc.fl.dominated(zero, guard_nodes=[rd[0][0]]) and lc.fl.dominated([rd[0][0]], guard_nodes=acc)
    chk.ob("R5.check-add-window", "_check_add_window", ok and not lc.held_at_exit(), cw.loc,
           "returns 0 or the accumulated in_window_sofar, which it zeroes, all under the lock")
    sofar_w = []
    for f in prog.all_functions():
        for (st, t, v) in attr_writes(f.node):
            if t.attr == "in_window_sofar":
                sofar_w.append(f.qual)
    chk.ob("R5.sofar-writers", "in_window_sofar", sorted(set(sofar_w)) == ["Channel.__init__", "Channel._check_add_window", "Channel._set_window"],
           cw.loc, "writers: %s" % sorted(set(sofar_w)))
    callers = sorted(set(f.qual for (f, c) in call_sites(prog, "_check_add_window")))
    chk.ob("R5.crediting-callers", "_check_add_window", set(callers) <= set(["Channel.recv", "Channel.recv_stderr", "Channel._feed_extended"]) and len(callers) >= 2,
           cw.loc, "called from %s" % callers)
    # nothing inside Channel moves buffered bytes through a crediting read
    internal = []
    for f in prog.classes[C].methods.values():
        for c in walk_no_defs(f.node):
            if isinstance(c, ast.Call) and dotted(c.func) in ("self.recv", "self.recv_stderr"):
                internal.append("%s -> %s" % (f.qual, dotted(c.func)))
    chk.ob("R5.no-internal-crediting-read", "Channel", not internal, prog.func("Channel.set_combine_stderr").loc, "internal crediting reads: %s" % internal)

    # R6 --------------------------------------------------------------------------------------------------
    oc = prog.func("Transport.open_channel")
    fo = Flow(prog, oc)
    sw_ = [(n, c) for (n, c) in fo.nodes_with_call(name="chan._set_window")]
    ok = len(sw_) == 1
    if ok:
        a = [unparse(x) for x in sw_[0][1].args]
        ints = [unparse(c.args[0]) for (n, c) in fo.nodes_with_call(name="m.add_int")]
        ok = len(a) == 2 and ints[:3][1:] == a
        for nm in a:
            ds = fo.defs(nm, sw_[0][0])
            ok = ok and len(ds) == 1
    chk.ob("R6.advertised-is-tracked", "open_channel", ok, oc.loc, "CHANNEL_OPEN carries the window/packet size given to _set_window")
    po = prog.func("Transport._parse_channel_open")
    fpo = Flow(prog, po)
    sw_ = [(n, c) for (n, c) in fpo.nodes_with_call(name="chan._set_window")]
    ok = len(sw_) == 1
    if ok:
        a = [unparse(x) for x in sw_[0][1].args]
        ints = [unparse(c.args[0]) for (n, c) in fpo.nodes_with_call(name="m.add_int")]
        ok = a == ["self.default_window_size", "self.default_max_packet_size"] and ints[-2:] == a
    chk.ob("R6.advertised-is-tracked", "_parse_channel_open", ok, po.loc, "OPEN_CONFIRMATION carries the window/packet size given to _set_window")
    sr = [(n, c) for (n, c) in fpo.nodes_with_call(name="chan._set_remote_channel")]
    ok = len(sr) == 1 and [unparse(x) for x in sr[0][1].args] == ["chanid", "initial_window_size", "max_packet_size"]
    if ok:
        for nm, idx in (("chanid", 1), ("initial_window_size", 2), ("max_packet_size", 3)):
            ds = fpo.defs(nm, sr[0][0])
            ok = ok and len(ds) == 1 and unparse(ds[0][1]) == "m.get_int()"
    chk.ob("R6.peer-values-stored", "_parse_channel_open", ok, po.loc, "peer's chanid/window/packet size from the CHANNEL_OPEN fields")
    ps = prog.func("Transport._parse_channel_open_success")
    fps = Flow(prog, ps)
    sr = [(n, c) for (n, c) in fps.nodes_with_call(attr="_set_remote_channel")]
    ok = len(sr) == 1 and [unparse(x) for x in sr[0][1].args] == ["server_chanid", "server_window_size", "server_max_packet_size"]
    chk.ob("R6.peer-values-stored", "_parse_channel_open_success", ok, ps.loc, "peer's values from OPEN_CONFIRMATION")
