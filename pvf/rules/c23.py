"""C23 - live channel IDs are unique within a transport."""
import ast
from ..core.model import AnalysisError, unparse, dotted, walk_no_defs
from ..core.flow import Flow, node_calls, attr_writes
from ..core.locks import LockFlow, call_sites
from ..core import match as M

MASK = 0xFFFFFF


def is_masked(expr):
    """(…) & 0xFFFFFF  (either operand order) or the literal 0."""
    if isinstance(expr, ast.Constant) and expr.value == 0:
        return True
    if isinstance(expr, ast.BinOp) and isinstance(expr.op, ast.BitAnd):
        for side in (expr.left, expr.right):
            if isinstance(side, ast.Constant) and side.value == MASK:
                return True
    if isinstance(expr, ast.BinOp) and isinstance(expr.op, ast.Mod) and isinstance(expr.right, ast.Constant) \
            and expr.right.value == MASK + 1:
        return True
    return False


def run(prog, chk):
    chk.explanation = (
        "Decided structurally: (R1) every caller of Transport._next_channel holds Transport.lock; (R2) every "
        "Channel(id) construction and every registration of an id (_channels.put, channel_events[id], "
        "channels_seen[id]) uses the result of _next_channel() obtained in the same function; (R3) the id "
        "returned by _next_channel is the counter's value after a loop that only exits when no live channel "
        "has that id; (R4) every write to the counter is 0 or masked with 0xFFFFFF and the counter is "
        "advanced past the returned id before the lock is dropped; (R5) ChannelMap methods take "
        "ChannelMap._lock and release it on every exit; (R6) a channel is removed from the map only by its own "
        "close/unlink or by an OPEN_FAILURE for an open that is still pending - never for a live channel.")
    chk.assumptions = ["Channel objects stay referenced while live (ChannelMap is a WeakValueDictionary)"]
    nc = prog.func("Transport._next_channel")
    # R1 ---------------------------------------------------------------------------------
    sites = [(f, c) for (f, c) in call_sites(prog, "_next_channel") if unparse(c.func.value) == "self"]
    chk.floor("R1", "callers of _next_channel", len(sites), 5)
    per = {}
    for (f, c) in sites:
        lf = per.get(f.qual) or LockFlow(prog, f)
        per[f.qual] = lf
        nodes = lf.fl.cfg.node_containing(c)
        ok = bool(nodes) and all(lf.holds(n, "self.lock") for n in nodes)
        # key by function + ordinal of the site within it (stable under line shifts)
        idx = [x for (g, x) in sites if g.qual == f.qual].index(c)
        chk.ob("R1.next-channel-under-lock", "%s#%d" % (f.qual, idx), ok, "%s:%d" % (f.module.path, c.lineno), "_next_channel() called with Transport.lock held")

    # R2 ---------------------------------------------------------------------------------
    for fq in ("Transport.open_channel", "Transport._parse_channel_open"):
        f = prog.func(fq)
        fl = Flow(prog, f)
        uses = []
        for (n, c) in fl.nodes_with_call():
            nm = dotted(c.func) or ""
            if nm == "Channel" and c.args:
                uses.append((n, c.args[0], "Channel()"))
            if nm == "self._channels.put" and c.args:
                uses.append((n, c.args[0], "_channels.put"))
        for n in fl.nodes(lambda n: n.kind == "stmt" and isinstance(n.ast, ast.Assign)):
            for t in n.ast.targets:
                if isinstance(t, ast.Subscript) and unparse(t.value) in ("self.channel_events", "self.channels_seen"):
                    uses.append((n, t.slice, unparse(t.value)))
        chk.floor("R2", "id uses in " + fq, len(uses), 3)
        for (n, idx, what) in uses:
            ds = fl.defs(unparse(idx), n) if isinstance(idx, ast.Name) else []
            ok = bool(ds) and all(r is not None and unparse(r) == "self._next_channel()" for (d, r) in ds)
            chk.ob("R2.id-from-next-channel", "%s:%s" % (fq, what), ok, fl.where(n), "%s uses %s <- %s" % (what, unparse(idx), sorted(set(unparse(r) for (d, r) in ds if r is not None))))

    # R3 ---------------------------------------------------------------------------------
    fn = Flow(prog, nc, implicit=False)
    rets = fn.nodes(lambda n: n.kind == "return")
    ok = len(rets) == 1 and isinstance(rets[0].ast.value, ast.Name)
    detail = ""
    if ok:
        rv = rets[0].ast.value.id
        ds = fn.defs(rv, rets[0])
        ok = bool(ds) and all(r is not None and unparse(r) == "self._channel_counter" for (d, r) in ds)
        # the return is reached only through the "not live" arm of a liveness test of that very id
        def live_test(t):
            return unparse(t) in ("self._channels.get(%s) is not None" % rv, "self._channels.get(%s) is None" % rv)
        conds = fn.nodes(lambda n: n.kind == "cond" and live_test(n.ast))
        ok = ok and len(conds) == 1
        if ok:
            arm = "F" if unparse(conds[0].ast).endswith("is not None") else "T"
            ok = fn.dominated(rets, guard_edge=lambda s, lab, d: s == conds[0].id and lab == arm)
            # no redefinition of the id between the test and the return
            r = fn.cfg.reach([d for (d, lab) in fn.cfg.succ[conds[0].id] if lab == arm])
            redefs = [d for (d, rr) in ds if d.id in r]
            ok = ok and not redefs
        detail = "returns %s <- counter, after the loop exits on `_channels.get(%s) is None`" % (rv, rv)
    chk.ob("R3.returned-id-not-live", "_next_channel", ok, nc.loc, detail)

    # R4 ---------------------------------------------------------------------------------
    writes = []
    for f in prog.all_functions():
        if f.cls is None or not prog.is_subclass(f.cls.name, "Transport"):
            continue
        for (st, t, v) in attr_writes(f.node):
            if t.attr == "_channel_counter":
                writes.append((f, st, v))
    chk.floor("R4", "writes to _channel_counter", len(writes), 3)
    k = {}
    for (f, st, v) in writes:
        i = k.get(f.qual, 0)
        k[f.qual] = i + 1
        ok = isinstance(st, ast.Assign) and is_masked(v)
        chk.ob("R4.counter-masked", "%s#%d" % (f.qual, i), ok, "%s:%d" % (f.module.path, st.lineno), "counter <- %s" % unparse(v))
    adv = fn.nodes(lambda n: n.kind == "stmt" and isinstance(n.ast, ast.Assign) and unparse(n.ast.targets[0]) == "self._channel_counter"
                   and unparse(n.ast.value) in ("self._channel_counter + 1 & 16777215", "self._channel_counter + 1 & 0xFFFFFF"))
    # after the id is fixed, the counter advances once more before returning
    ok = False
    if rets and len(rets) == 1 and isinstance(rets[0].ast.value, ast.Name):
        ds = fn.defs(rets[0].ast.value.id, rets[0])
        for (d, rr) in ds:
            start = [x for (x, lab) in fn.cfg.succ[d.id]]
        # every path from the last liveness test's exit arm to the return passes an advance
        conds = fn.nodes(lambda n: n.kind == "cond" and "self._channels.get(" in unparse(n.ast))
        if conds:
            arm = "F" if unparse(conds[0].ast).endswith("is not None") else "T"
            start = [d for (d, lab) in fn.cfg.succ[conds[0].id] if lab == arm]
            ok = bool(adv) and fn.cfg.dominated([rets[0].id], guard_nodes=[a.id for a in adv], start=start)
    chk.ob("R4.counter-advanced-past-id", "_next_channel", ok, nc.loc, "counter = (counter + 1) & 0xFFFFFF after the id is chosen, before returning")

    # R5 ---------------------------------------------------------------------------------
    cm = prog.classes["ChannelMap"]
    n5 = 0
    for f in cm.methods.values():
        if f.name == "__init__":
            continue
        lf = LockFlow(prog, f)
        acc = lf.fl.nodes(lambda n: n.kind in ("stmt", "return") and n.ast is not None and "self._map" in unparse(n.ast))
        n5 += 1
        ok = bool(acc) and all(lf.holds(a, "self._lock") for a in acc) and not lf.held_at_exit()
        chk.ob("R5.map-locked", f.qual, ok, f.loc, "every access to _map under ChannelMap._lock, released on every exit")
    chk.floor("R5", "ChannelMap methods", n5, 5)

    # R6 ---------------------------------------------------------------------------------
    dels = [(f, c) for (f, c) in call_sites(prog, "delete") if unparse(c.func.value) == "self._channels"]
    fns = sorted(set(f.qual for (f, c) in dels))
    chk.ob("R6.delete-sites", "_channels.delete", fns == ["Transport._parse_channel_open_failure", "Transport._unlink_channel"],
           prog.func("Transport._unlink_channel").loc, "removed in %s" % fns)
    pf = prog.func("Transport._parse_channel_open_failure")
    fp = Flow(prog, pf)
    dn = [n for (n, c) in fp.nodes_with_call(name="self._channels.delete")]
    g = fp.edge_guard(lambda t: unparse(t) == "chanid in self.channel_events", "T")
    chk.ob("R6.open-failure-only-for-pending-open", "_parse_channel_open_failure", bool(dn) and fp.dominated(dn, guard_edge=g), pf.loc,
           "an OPEN_FAILURE unlinks an id only while that open is still pending (id in channel_events)")
    ul = sorted(set(f.qual for (f, c) in call_sites(prog, "_unlink_channel")))
    chk.ob("R6.unlink-callers", "_unlink_channel", set(ul) <= set(["Channel._handle_close", "Channel._unlink"]) and bool(ul),
           prog.func("Transport._unlink_channel").loc, "called from %s (with the channel's own id)" % ul)
    for (f, c) in call_sites(prog, "_unlink_channel"):
        chk.ob("R6.unlink-own-id", f.qual, [unparse(a) for a in c.args] == ["self.chanid"], "%s:%d" % (f.module.path, c.lineno), "unlinks %s" % [unparse(a) for a in c.args])
