"""C43 - group-exchange modulus selection honours the client's size range.

get_modulus touches (min, prefer, max) and the sizes only through comparisons,
sorted() and first/last subscripts, so its result depends only on the *order
type* of those values.  The rule first lets the evaluator prove that
syntactically (any arithmetic on them is refused -> exit 2), then evaluates the
function's AST from the working tree on a representative of every order type.
"""
import ast
import itertools
from ..core.model import AnalysisError, unparse, walk_no_defs
from ..core.flow import Flow
from ..core.interp import Interp, Obj, Refuse
from ..core import match as M


def _sig(mn, pf, mx):
    items = sorted([("min", mn), ("prefer", pf), ("max", mx)], key=lambda kv: (kv[1], kv[0]))
    out = items[0][0]
    for a, b in zip(items, items[1:]):
        out += ("=" if a[1] == b[1] else "<") + b[0]
    return out


def _candidates(vals):
    ds = sorted(set(vals))
    out = [ds[0] - 6, ds[0] - 3]
    for i, v in enumerate(ds):
        out.append(v)
        out += [v + 3, v + 6]
    return out


def expected(sizes, mn, pf, mx):
    inr = [s for s in sizes if mn <= s <= mx]
    if not inr:
        return None
    ge = [s for s in inr if s >= pf]
    return min(ge) if ge else max(inr)


def run(prog, chk):
    thorough = chk.tier == "thorough"
    chk.explanation = (
        "Decided exactly over a finite abstract domain. ModulusPack.get_modulus uses its three parameters and "
        "the available sizes only in comparisons, sorted() and first/last subscripts (the evaluator refuses any "
        "arithmetic on them, which is the adequacy proof), so its result depends only on the order type of "
        "(min, prefer, max, sizes). R1 evaluates the function's AST from the working tree on a representative "
        "of every weak ordering of the three parameters (all 27 triples over three levels = the 13 orderings) "
        "x every placement of up to %d sizes among the regions those values induce (two points per open region "
        "to tell smallest from largest), with two groups per size and both extreme random indices, and "
        "compares with the statement: if some size is in [min, max] the offered group has the smallest "
        "in-range size >= prefer, else the largest in-range size. R2 evaluates _parse_modulus on a grid of "
        "(type, tests, tries, claimed-size offset): a line is stored iff it meets the primality-testing and "
        "bit-length requirements, under its true bit length, as (generator-or-2, modulus); read_file resets "
        "the pack and skips lines that raise. R3: _roll_random(n) leaves its loop only under num < n with num "
        "built non-negative, so the index is in [0, n). R4: the server-side call site passes (min, preferred, "
        "max) in that order and unpacks (g, p) in the order stored." % (4 if thorough else 3))
    chk.assumptions = ["bit sizes are positive integers (the -1 sentinel of get_modulus is below all of them)",
                       "the acceptance rule of moduli lines is the one documented in _parse_modulus / moduli(5): type >= 2, "
                       "tests >= 4, >= 100 Miller-Rabin tries when only that test ran, claimed size = true bit length or one less"]
    chk.exhaustive = True
    f = prog.func("ModulusPack.get_modulus")
    ps = f.params()
    if len(ps) != 4:
        raise AnalysisError("ModulusPack.get_modulus", "expected (self, min, prefer, max)")
    pmin, ppref, pmax = ps[1], ps[2], ps[3]

    # ---- R1 ----------------------------------------------------------------------------------------------
    K = 4 if thorough else 3
    per_sig = {}
    ncases = 0
    for (mn, pf, mx) in itertools.product((100, 200, 300), repeat=3):
        sig = _sig(mn, pf, mx)
        cands = _candidates([mn, pf, mx])
        for k in range(0, K + 1):
            for sizes in itertools.combinations(cands, k):
                for pick in ("first", "last"):
                    ncases += 1
                    pack = dict((s, [(2, s * 10 + 1), (5, s * 10 + 2)]) for s in sizes)
                    rolled = []

                    def roll(n, pick=pick, rolled=rolled):
                        rolled.append(n)
                        if not isinstance(n, int) or n <= 0:
                            raise Refuse(None, "_roll_random called with %r" % (n,))
                        return 0 if pick == "first" else n - 1
                    it = Interp(intrinsics={"_roll_random": roll}, arith=False)
                    kind, val = it.call_function(f.node, {ps[0]: Obj(pack=pack), pmin: mn, ppref: pf, pmax: mx})
                    want = expected(sizes, mn, pf, mx)
                    bad = None
                    if not sizes:
                        if not (kind == "raise" and val == "SSHException"):
                            bad = "no moduli at all: %s %r (want SSHException)" % (kind, val)
                    elif kind == "raise":
                        bad = "raises %s" % val
                    else:
                        got = None
                        for s, groups in pack.items():
                            if val in groups:
                                got = s
                        if got is None:
                            bad = "returned %r, not a stored (generator, modulus) pair" % (val,)
                        elif want is not None and got != want:
                            bad = "offered size-class %s, statement wants %s" % (_where(got, mn, pf, mx), _where(want, mn, pf, mx))
                        elif rolled != [2]:
                            bad = "_roll_random called with %r for a size holding 2 groups" % (rolled,)
                        elif val != pack[got][0 if pick == "first" else 1]:
                            bad = "random index not used to pick among the groups of the chosen size"
                    rec = per_sig.setdefault(sig, [0, None])
                    rec[0] += 1
                    if bad and rec[1] is None:
                        rec[1] = "sizes %s with (min, prefer, max) = (%d, %d, %d): %s" % (list(sizes), mn, pf, mx, bad)
    chk.count("R1 abstract cases evaluated", ncases)
    chk.floor("R1", "weak orderings of (min, prefer, max)", len(per_sig), 13)
    for sig in sorted(per_sig):
        n, bad = per_sig[sig]
        chk.ob("R1.selection-matches-statement", sig, bad is None, f.loc,
               "%d order-type cases evaluated%s" % (n, "" if bad is None else "; first failing: " + bad))

    # ---- R2 ----------------------------------------------------------------------------------------------
    pm = prog.func("ModulusPack._parse_modulus")
    nlines = 0
    first_bad = {}
    for mod_type in (0, 1, 2, 3, 5):
        for tests in list(range(0, 16)) + [0x1f]:
            for tries in (0, 99, 100, 101, 1000):
                for off in (-2, -1, 0, 1, 2):
                    for gen in (0, 2, 5):
                        if gen != 2 and (mod_type, tries) != (2, 100):
                            continue
                        nlines += 1
                        modulus = (1 << 127) | 0x1235
                        bl = 128
                        size = bl + off
                        line = "20230101000000 %d %d %d %d %d %x" % (mod_type, tests, tries, size, gen, modulus)
                        selfo = Obj(pack={}, discarded=[])
                        it = Interp(intrinsics={"util.bit_length": lambda n: n.bit_length(), "int": int}, arith=True)
                        kind, val = it.call_function(pm.node, {pm.params()[0]: selfo, pm.params()[1]: line})
                        ok_tests = mod_type >= 2 and tests >= 4 and not (tests & 4 and tests < 8 and tries < 100)
                        ok_len = off in (0, -1)
                        want = {bl: [(gen or 2, modulus)]} if (ok_tests and ok_len) else {}
                        if kind != "return" or selfo.pack != want:
                            cat = "requirements" if not ok_tests else ("bit-length" if not ok_len else "valid-line")
                            first_bad.setdefault(cat, "line %r -> %s, pack %r (want %r)" % (line, kind if kind != "return" else "stored", selfo.pack, want))
    chk.count("R2 moduli lines evaluated", nlines)
    for cat, what in (("requirements", "a line failing the primality-testing requirements is never stored"),
                      ("bit-length", "a line whose claimed size is not its bit length (or one less) is never stored"),
                      ("valid-line", "a line meeting all requirements is stored under its true bit length as (generator or 2, modulus)")):
        chk.ob("R2.parse-modulus", cat, cat not in first_bad, pm.loc, what + ("" if cat not in first_bad else "; first failing: " + first_bad[cat]))
    rf = prog.func("ModulusPack.read_file")
    resets = [n for n in walk_no_defs(rf.node) if isinstance(n, ast.Assign) and unparse(n.targets[0]) == "self.pack" and unparse(n.value) == "{}"]
    loops = [n for n in walk_no_defs(rf.node) if isinstance(n, ast.For)]
    okrf = len(resets) == 1 and len(loops) == 1 and resets[0].lineno < loops[0].lineno
    calls = [c for c in walk_no_defs(rf.node) if M.is_call(c, name="self._parse_modulus")]
    okskip = False
    if len(calls) == 1:
        p = calls[0]
        while p is not None and not isinstance(p, ast.Try):
            p = getattr(p, "_parent", None)
        if p is not None:
            for h in p.handlers:
                if (h.type is None or unparse(h.type) in ("Exception", "BaseException")) and \
                        all(isinstance(s, (ast.Continue, ast.Pass)) for s in h.body):
                    okskip = True
    chk.ob("R2.read-file", "resets-pack", okrf, rf.loc, "the pack is emptied once before the lines are read")
    chk.ob("R2.read-file", "skips-bad-lines", okskip, rf.loc, "a line whose parsing raises is skipped, the rest of the file is still read")
    # who else writes the pack
    writers = []
    for g in prog.all_functions():
        if g.cls is None or g.cls.name != "ModulusPack":
            continue
        for n in walk_no_defs(g.node):
            if isinstance(n, ast.Call) and isinstance(n.func, ast.Attribute) and n.func.attr in ("append", "extend", "insert", "update", "setdefault") \
                    and unparse(n.func.value).startswith("self.pack"):
                writers.append(g.name)
            if isinstance(n, ast.Assign) and any(unparse(t).startswith("self.pack") for t in n.targets):
                writers.append(g.name)
    chk.ob("R2.pack-writers", "ModulusPack", set(writers) <= {"__init__", "_parse_modulus", "read_file"}, pm.loc,
           "self.pack is written in %s" % sorted(set(writers)))

    # ---- R3 ----------------------------------------------------------------------------------------------
    rr = prog.func("primes._roll_random")
    fr = Flow(prog, rr, implicit=False)
    n_p = rr.params()[0]
    rets = fr.nodes(lambda n: n.kind == "return")
    okr = len(rets) == 1 and isinstance(rets[0].ast.value, ast.Name)
    detail = "returns %s" % [unparse(r.ast.value) for r in rets]
    if okr:
        num = rets[0].ast.value.id

        def lt_n(t):
            cp = M.compare_parts(t)
            return bool(cp) and ((unparse(cp[0]) == num and cp[1] is ast.Lt and unparse(cp[2]) == n_p) or
                                 (unparse(cp[2]) == num and cp[1] is ast.Gt and unparse(cp[0]) == n_p))
        g = fr.edge_guard(lt_n, "T")
        okr = fr.dominated([rets[0]], guard_edge=g)
        detail = "return %s reached only through a true `%s < %s`" % (num, num, n_p)
        # no redefinition of num between the test and the return
        conds = fr.nodes(lambda n: n.kind == "cond" and lt_n(n.ast))
        for c in conds:
            tsucc = [d for (d, lab) in fr.cfg.succ[c.id] if lab == "T"]
            reach = fr.cfg.reach(tsucc, avoid_nodes=set([rets[0].id]))
            from ..core.cfg import assigned_names
            if any(num in assigned_names(fr.cfg.nodes[i]) or n_p in assigned_names(fr.cfg.nodes[i]) for i in reach if rets[0].id in fr.cfg.reach([i])):
                okr = False
                detail += " (but %s is reassigned before the return)" % num
        defs = [rhs for (dn, rhs) in fr.defs(num, rets[0])]
        okpos = bool(defs) and all(rhs is not None and M.is_call(rhs, name="util.inflate_long") and len(rhs.args) == 2 and
                                   isinstance(rhs.args[1], ast.Constant) and bool(rhs.args[1].value) for rhs in defs)
        chk.ob("R3.random-index-non-negative", "_roll_random", okpos, rr.loc, "%s = %s" % (num, [unparse(d) for d in defs]))
    chk.ob("R3.random-index-below-n", "_roll_random", okr, rr.loc, detail)

    # R3b: the function is total and unbiased at the extremes for every width: evaluated for n = 2**bits, bits 0..24,
    # against an all-ones and an all-zeros random source.  The function touches the random bytes only through x[0],
    # x[1:] and the byte mask, and n only through bit_length(n - 1) and `num < n`, so bits mod 8 x (bits == 0) x
    # (one byte / several bytes) is a complete quotient; 0..24 covers each class at least once.
    def _bit_length(v):
        return v.bit_length()

    def _byte_mask(c, mask):
        return bytes([c & mask])

    def _inflate(b, always_positive=False):
        return int.from_bytes(b, "big") if b else 0
    badr = None
    nev = 0
    for bits in range(0, 25):
        n = 1 << bits
        for fill, want in ((0xFF, n - 1), (0x00, 0)):
            nev += 1
            asked = []

            def _urandom(k, fill=fill, asked=asked):
                asked.append(k)
                if len(asked) > 4:
                    raise Refuse(None, "more than 4 draws")
                return bytes([fill]) * k
            it = Interp(intrinsics={"util.bit_length": _bit_length, "os.urandom": _urandom, "byte_mask": _byte_mask,
                                    "util.inflate_long": _inflate, "pow": pow}, arith=True)
            try:
                kind, val = it.call_function(rr.node, {n_p: n})
            except Refuse as e:
                raise AnalysisError("primes._roll_random", "not evaluable: %s" % (e,))
            if (kind, val) != ("return", want) and badr is None:
                badr = "n = 2**%d with every random byte 0x%02X: %s %r (want %d)" % (bits, fill, kind, val, want)
    chk.count("R3 _roll_random evaluations", nev)
    chk.ob("R3.random-index-total-and-full-range", "_roll_random", badr is None, rr.loc,
           "%d evaluations (n = 2**0 .. 2**24; all-ones source must give n - 1, all-zeros source 0, no exception)%s" % (
               nev, "" if badr is None else "; first failing: " + badr))

    # ---- R4 ----------------------------------------------------------------------------------------------
    kg = prog.func("KexGex._parse_kexdh_gex_request")
    fk = Flow(prog, kg, implicit=False)
    cs = fk.nodes_with_call(attr="get_modulus")
    chk.floor("R4", "get_modulus call sites in KexGex._parse_kexdh_gex_request", len(cs), 1)
    m_p = kg.params()[1]
    reads = [n for n in fk.nodes(lambda n: n.kind == "stmt" and isinstance(n.ast, ast.Assign) and M.is_call(n.ast.value, name="%s.get_int" % m_p))]
    reads.sort(key=lambda n: n.lineno)
    order = [unparse(n.ast.targets[0]) for n in reads]
    for i, (n, c) in enumerate(cs):
        args = [unparse(a) for a in c.args]
        chk.ob("R4.call-site-argument-order", "KexGex._parse_kexdh_gex_request#%d" % i, len(order) == 3 and args == order, fk.where(c),
               "wire order (RFC 4419 s3: min, n, max) read into %s; get_modulus(%s)" % (order, ", ".join(args)))
        tg = n.ast.targets[0] if isinstance(n.ast, ast.Assign) else None
        oku = isinstance(tg, ast.Tuple) and [unparse(e) for e in tg.elts] == ["self.g", "self.p"]
        chk.ob("R4.result-unpacked-as-stored", "KexGex._parse_kexdh_gex_request#%d" % i, oku, fk.where(c),
               "result bound to %s; the pack stores (generator, modulus)" % (unparse(tg) if tg is not None else "?"))
    # R4b: what the server does with the three numbers before it selects, evaluated over a 6x6x6 grid around its own
    # limits: the preferred size is clamped into [server min, server max] (to the nearer end), a consistent request
    # inside the limits is passed on unchanged, min <= preferred <= max afterwards, and the client's range is never
    # narrowed by the fix-ups
    folder = __import__("pvf.core.consts", fromlist=["Folder"]).Folder(prog)
    cenv = folder.class_env("KexGex")
    smin, smax = cenv.get("min_bits"), cenv.get("max_bits")
    if not (isinstance(smin, int) and isinstance(smax, int) and smin < smax):
        raise AnalysisError("KexGex.min_bits/max_bits", "did not fold to integers: %r %r" % (smin, smax))
    grid = sorted(set([smin // 2, smin, smin * 2, (smin + smax) // 2, smax, smax * 2]))
    kps = kg.params()
    badg = None
    ng = 0
    for (mn, pf, mx) in itertools.product(grid, repeat=3):
        ng += 1
        got = []
        vals = [mn, pf, mx]
        msg = Obj(get_int=lambda vals=vals: vals.pop(0))
        packo = Obj(get_modulus=lambda a, b, c, got=got: (got.append((a, b, c)) or (2, 23)))
        tr = Obj(_get_modulus_pack=lambda packo=packo: packo, _log=lambda *a, **k: None, _send_message=lambda m_: None, _expect_packet=lambda *a: None)
        selfo = Obj(min_bits=smin, max_bits=smax, preferred_bits=0, transport=tr)
        mk = lambda: Obj(add_byte=lambda v: None, add_mpint=lambda v: None, add_int=lambda v: None, add_string=lambda v: None)
        free = dict((nm.id, nm.id) for nm in ast.walk(kg.node) if isinstance(nm, ast.Name) and (nm.id.startswith("c_MSG_") or nm.id.startswith("_MSG_") or nm.id == "DEBUG"))
        it = Interp(intrinsics=dict(free, Message=mk), arith=False)
        try:
            kind, val = it.call_function(kg.node, {kps[0]: selfo, kps[1]: msg})
        except Refuse as e:
            raise AnalysisError("KexGex._parse_kexdh_gex_request", "not evaluable: %s" % (e,))
        want_pf = smin if pf < smin else (smax if pf > smax else pf)
        why = None
        if kind != "return" or len(got) != 1:
            why = "%s, get_modulus called %d time(s)" % (kind, len(got))
        else:
            a, b, c = got[0]
            if b != want_pf:
                why = "preferred %d became %d (want %d: clamped into [%d, %d])" % (pf, b, want_pf, smin, smax)
            elif not (a <= b <= c):
                why = "asks for (%d, %d, %d): not ordered" % (a, b, c)
            elif a > mn or c < mx:
                why = "range narrowed: client (%d, %d) -> (%d, %d)" % (mn, mx, a, c)
            elif smin <= mn <= pf <= mx <= smax and (a, b, c) != (mn, pf, mx):
                why = "consistent request changed to (%d, %d, %d)" % (a, b, c)
        if why and badg is None:
            badg = "request (%d, %d, %d): %s" % (mn, pf, mx, why)
    chk.ob("R4.request-clamped-not-narrowed", "KexGex._parse_kexdh_gex_request", badg is None, kg.loc,
           "%d requests evaluated%s" % (ng, "" if badg is None else "; first failing: " + badg))
    ko = prog.func("KexGex._parse_kexdh_gex_request_old")
    fo = Flow(prog, ko, implicit=False)
    for i, (n, c) in enumerate(fo.nodes_with_call(attr="get_modulus")):
        args = [unparse(a) for a in c.args]
        chk.ob("R4.call-site-argument-order", "KexGex._parse_kexdh_gex_request_old#%d" % i,
               args == ["self.min_bits", "self.preferred_bits", "self.max_bits"], fo.where(c), "get_modulus(%s)" % ", ".join(args))


def _where(s, mn, pf, mx):
    tags = []
    tags.append("below-min" if s < mn else ("above-max" if s > mx else "in-range"))
    tags.append(">=prefer" if s >= pf else "<prefer")
    return "%d(%s)" % (s, ",".join(tags))
