"""C12 - unrecognised message types get UNIMPLEMENTED and the session continues."""
import ast
from ..core.model import AnalysisError, unparse, dotted, walk_no_defs, stmt_of
from ..core.consts import Folder, is_sym
from ..core.flow import Flow, node_calls
from ..core.layout import Extractor, split_messages
from ..core import match as M

NOT_HANDLED = {
    "ptype in self._handler_table": False,
    "ptype in self._channel_handler_table": False,
    "ptype in self.auth_handler._handler_table": False,
    "len(self._expected_packet) > 0": False,
    "ptype == MSG_IGNORE": False, "ptype == MSG_DISCONNECT": False, "ptype == MSG_DEBUG": False,
}


def dict_keys_of(node):
    if isinstance(node, ast.Dict):
        return [unparse(k) for k in node.keys if k is not None]
    return None


def handled_sets(prog, fold):
    """{'transport': [...], 'channel': [...], 'auth-server': [...], 'auth-client': [...]} as numbers."""
    cenv = fold.module_env("common")

    def num(name):
        v = cenv.get(name)
        return v if isinstance(v, int) else None

    out = {}
    init = prog.func("Transport.__init__")
    keys = None
    for n in ast.walk(init.node):
        if isinstance(n, ast.Assign) and unparse(n.targets[0]) == "self._handler_table":
            keys = dict_keys_of(n.value)
    if keys is None:
        raise AnalysisError("Transport._handler_table", "dict literal not found in __init__")
    out["transport"] = sorted(num(k) for k in keys)
    cht = prog.cls("Transport").class_assigns.get("_channel_handler_table")
    keys = dict_keys_of(cht) if cht is not None else None
    if keys is None:
        raise AnalysisError("Transport._channel_handler_table", "dict literal not found")
    out["channel"] = sorted(num(k) for k in keys)
    for role, prop in (("auth-server", "_server_handler_table"), ("auth-client", "_client_handler_table")):
        f = prog.func("AuthHandler." + prop)
        rets = [n for n in walk_no_defs(f.node) if isinstance(n, ast.Return)]
        keys = dict_keys_of(rets[0].value) if len(rets) == 1 else None
        if keys is None:
            raise AnalysisError("AuthHandler." + prop, "does not return a dict literal")
        out[role] = sorted(num(k) for k in keys)
    return out


def run(prog, chk):
    fold = Folder(prog)
    chk.explanation = (
        "Decided structurally on Transport.run with every 'is handled' test fixed to false: (R1) the "
        "fallback arm builds [byte MSG_UNIMPLEMENTED, uint32 m.seqno] and sends it with the ungated sender "
        "exactly when ptype != MSG_UNIMPLEMENTED, and sends nothing for UNIMPLEMENTED itself; (R2) the arm "
        "is total in ptype - no raise/break, no unguarded subscript keyed by the peer-controlled ptype - so "
        "the loop proceeds to the next packet for all 256 type values, not just the ~40 with debug names; "
        "(R3) the handled sets per role are extracted from the dispatch tables (evidence) and UNIMPLEMENTED "
        "is in none of them.")
    chk.assumptions = ["m.seqno is the packet's own inbound sequence number (C01-R2)",
                       "_send_message may fail only through connection loss"]
    run_f = prog.func("Transport.run")
    cenv = fold.module_env("common")
    hs = handled_sets(prog, fold)
    for k, v in hs.items():
        chk.note("handled %s: %s" % (k, v))
    unimpl = cenv.get("MSG_UNIMPLEMENTED")
    chk.ob("R3.unimplemented-not-handled", "tables", isinstance(unimpl, int) and unimpl == 3 and all(unimpl not in v for v in hs.values()),
           run_f.loc, "MSG_UNIMPLEMENTED=%r appears in no dispatch table" % (unimpl,))
    names = cenv.get("MSG_NAMES")
    chk.note("MSG_NAMES has %d keys; ptype ranges over 256 values" % (len(names) if isinstance(names, dict) else -1))

    for label, extra in (("other-type", {"ptype != MSG_UNIMPLEMENTED": True, "ptype == MSG_UNIMPLEMENTED": False}),
                         ("unimplemented-itself", {"ptype != MSG_UNIMPLEMENTED": False, "ptype == MSG_UNIMPLEMENTED": True})):
        env = dict(NOT_HANDLED)
        env.update(extra)
        # auth handler absent is the other way to reach the arm; `A and B` with B false is false either way
        fl = Flow(prog, run_f, env=env, implicit=False)
        cfg = fl.cfg
        rd = fl.nodes_with_call(name="self.packetizer.read_message")
        heads = [n for n in cfg.nodes if n.kind == "loop_head" and unparse(n.ast.test) == "self.active"]
        if len(rd) != 1 or len(heads) != 1:
            raise AnalysisError("Transport.run", "read_message / main loop not found")
        start = [d for (d, lab) in cfg.succ[rd[0][0].id]]
        region = cfg.reach(start, avoid_nodes=set([heads[0].id]), avoid_edge=fl.avoid)
        rnodes = [cfg.nodes[i] for i in sorted(region)]
        sends = [n for n in rnodes for c in node_calls(n) if M.is_call(c, attr="_send_message") or M.is_call(c, attr="_send_user_message")]
        if label == "other-type":
            ok = len(sends) == 1 and cfg.dominated([heads[0].id], guard_nodes=[sends[0].id], avoid_edge=fl.avoid, start=start)
            chk.ob("R1.reply-sent", label, ok, run_f.loc, "every path from the read back to the loop head sends one reply (%d send site(s))" % len(sends))
            if sends:
                c = [c for c in node_calls(sends[0]) if M.is_call(c, attr="_send_message") or M.is_call(c, attr="_send_user_message")][0]
                chk.ob("R1.ungated-sender", label, dotted(c.func) == "self._send_message", fl.where(sends[0]),
                       "reply sent with %s (the transport thread must not block on its own gate)" % dotted(c.func))
                # layout of the message: extract from the innermost enclosing If of the send statement
                st = sends[0].ast
                enc = st
                while enc is not None and not isinstance(enc, ast.If):
                    enc = getattr(enc, "_parent", None)
                lay = set()
                if enc is not None:
                    ex = Extractor()
                    for (ev, kind) in ex.block(enc.body):
                        for m in split_messages(ev):
                            if m["var"] == unparse(c.args[0]):
                                lay.add(tuple(m["fields"]))
                want = (("byte", "cMSG_UNIMPLEMENTED"), ("uint32", "m.seqno"))
                okl = lay == set([want])
                v = cenv.get("cMSG_UNIMPLEMENTED")
                okl = okl and v == b"\x03"
                # m is the message just read
                tgt = rd[0][0].ast.targets[0] if isinstance(rd[0][0].ast, ast.Assign) else None
                okl = okl and isinstance(tgt, ast.Tuple) and len(tgt.elts) == 2 and unparse(tgt.elts[1]) == "m" and unparse(tgt.elts[0]) == "ptype"
                chk.ob("R1.reply-layout", label, okl, fl.where(sends[0]), "reply fields %s (want byte 3, uint32 seqno of the offending packet)" % sorted(lay))
        else:
            chk.ob("R1.no-reply-to-unimplemented", label, not sends, run_f.loc, "%d send site(s) live for UNIMPLEMENTED itself" % len(sends))
        # R2 totality
        bad = []
        for n in rnodes:
            if n.kind == "raise":
                bad.append("raise at line %d" % n.lineno)
            if n.kind == "break":
                bad.append("break at line %d" % n.lineno)
        chk.ob("R2.no-raise-or-break", label, not bad, run_f.loc, "; ".join(bad) or "the arm neither raises nor leaves the loop")
        ok_reach = heads[0].id in cfg.reach(start, avoid_edge=fl.avoid)
        chk.ob("R2.loop-continues", label, ok_reach, run_f.loc, "the next read is reachable")
        partial = []
        for n in rnodes:
            a = n.ast
            if a is None or n.kind in ("loop_head", "try", "entry", "def"):
                continue
            roots = [a]
            for r in roots:
                for x in walk_no_defs(r):
                    if isinstance(x, ast.Subscript) and not isinstance(x.slice, ast.Slice) and unparse(x.slice) == "ptype" \
                            and isinstance(getattr(x, "ctx", None), ast.Load):
                        base = unparse(x.value)
                        # guarded by `ptype in base` (T) ?
                        g = fl.edge_guard(lambda t, base=base: unparse(t) == "ptype in %s" % base, "T")
                        if not cfg.dominated([n.id], guard_edge=g, avoid_edge=fl.avoid, start=start):
                            partial.append("%s[ptype] at line %d" % (base, n.lineno))
        chk.ob("R2.total-in-ptype", label, not partial, run_f.loc,
               "unguarded lookups keyed by the peer-controlled type: %s" % partial if partial else "no partial operation on ptype")
