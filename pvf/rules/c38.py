"""C38 - peer protocol violations surface as SSH exceptions, not internal errors (partial)."""
import ast
from ..core.model import AnalysisError, unparse, dotted, walk_no_defs
from ..core.consts import Folder
from ..core.flow import Flow
from ..core.callgraph import dict_values_as_methods
from ..core.escape import Escapes, unguarded_constant_subscripts, unguarded_variable_subscripts
from ..core.layout import Extractor, split_messages
from ..core import match as M
from .c11 import build_graph

ALLOWED = ("SSHException", "EOFError", "OSError")
PEER_MODULES = ("transport", "auth_handler", "channel", "packet", "message", "kex_group1", "kex_group14", "kex_group16", "kex_gex",
                "kex_ecdh_nist", "kex_curve25519", "kex_gss", "rsakey", "ecdsakey", "ed25519key", "pkey", "util", "compress", "ssh_gss")

EXTRA = [
    ("pred", lambda f, c: isinstance(c.func, ast.Attribute) and c.func.attr == "public_key" and isinstance(c.func.value, ast.Call)
     and "RSAPublicNumbers" in unparse(c.func.value.func), ["ValueError"], "RSAPublicNumbers(e, n).public_key() validates numbers supplied by the peer"),
    ("pred", lambda f, c: isinstance(c.func, ast.Name) and c.func.id == "int" and len(c.args) >= 1 and not isinstance(c.args[0], ast.Constant)
     and f.module.name in ("transport",) and f.name in ("_check_banner",), ["ValueError"], "int() of text from the peer's banner"),
    ("pred", lambda f, c: _keyed_pop_without_default(f, c), ["KeyError"], "dict.pop(key) without a default under a key the peer chose"),
    ("pred", lambda f, c: isinstance(c.func, ast.Attribute) and c.func.attr == "decompress" and f.module.name == "compress", ["zlib.error"],
     "zlib's decompressobj.decompress raises zlib.error on data that is not a deflate stream (the peer's bytes)"),
]


def _keyed_pop_without_default(f, c):
    """`self.<table>.pop(k)` / `.pop(k)` on a name with exactly one, non-constant argument that is read out of a message in
    this function (k = m.get_int() ...): raises KeyError when the peer names an entry that is not there.  `xs.pop(0)`,
    `xs.pop(i)` with i a loop index over xs, and pops with a default are other things."""
    if not (isinstance(c.func, ast.Attribute) and c.func.attr == "pop" and len(c.args) == 1 and not c.keywords):
        return False
    k = c.args[0]
    if not isinstance(k, ast.Name):
        return False
    for st in walk_no_defs(f.node):
        if isinstance(st, ast.Assign) and any(isinstance(t, ast.Name) and t.id == k.id for t in st.targets):
            if any(isinstance(x, ast.Call) and isinstance(x.func, ast.Attribute) and x.func.attr.startswith("get_") for x in ast.walk(st.value)):
                # guarded by a membership test on the same container?  `if k in D:` enclosing the call
                p_ = getattr(c, "_parent", None)
                while p_ is not None and p_ is not f.node:
                    if isinstance(p_, ast.If) and unparse(p_.test) == "%s in %s" % (k.id, unparse(c.func.value)) and any(c is x for st2 in p_.body for x in ast.walk(st2)):
                        return False
                    p_ = getattr(p_, "_parent", None)
                return True
    return False

# explicit raises of a non-SSH class that are not reachable with peer data (one reason per row)
RAISE_ALLOW = [
    ("SecurityOptions._set", None, "raised for caller-supplied algorithm lists; the one transport-thread path (_send_kex_init) passes names already in the tables"),
    ("PKey.load_certificate", "ValueError", "reached from the key constructors only after _check_type_and_load_cert matched the blob type against the class's own certificate types"),
    ("util.b", "TypeError", "non-string argument: a programming error, not peer data"),
    ("util.u", "TypeError", "non-string argument: a programming error, not peer data"),
    ("util.asbytes", None, "non-string argument: a programming error, not peer data"),
    ("Ed25519Key.__init__", "ValueError", "`need a key`: on the transport thread the constructor is always given the peer's blob (msg)"),
    ("ServerInterface", None, "application callbacks are outside the model"),
    ("AuthHandler._parse_userauth_request", "Exception", "NOT DECIDED: re-raises the GSS-API library's own error after answering AUTH_FAILED (gssapi-keyex MIC check); the optional GSS dependency is absent here and its exception classes are outside the catalogue"),
    ("GssapiWithMicAuthHandler.", "Exception", "NOT DECIDED: same GSS-API re-raise after answering AUTH_FAILED"),
    ("ssh_gss.GSSAuth", "ImportError", "raised when GSS-API is requested without a GSS library installed: local configuration, not peer data"),
    ("Transport.run", "Exception", "the interpreter-shutdown guard re-raises whatever arrived; the arrivals themselves are analysed individually"),
]

# sites of catalogued operations that peer data cannot drive (one reason per row): (function, callee prefix, class)
SITE_ALLOW = [
    ("Packetizer.read_message", "struct.unpack", "struct.error", "the header slice is exactly 4 bytes (read_all(n) returns n bytes or raises EOFError)"),
    ("Packetizer.", "struct.unpack", "struct.error", "fixed-size slices of data read with read_all"),
    ("Message.", "struct.unpack", "struct.error", "get_bytes(n) pads short reads to n bytes"),
    ("util.inflate_long", "struct.unpack", "struct.error", "the buffer is padded to a multiple of 4 first"),
    ("Transport._compute_key", None, None, "local key derivation, no peer-controlled partial operation"),
    ("AuthHandler._choose_fallback_pubkey_algorithm", "my_algos[0]", "IndexError", "client-side configuration, not peer data: the only caller raises SSHException first when my_algos is empty"),
    ("AuthOnlyHandler._choose_fallback_pubkey_algorithm", "my_algos[0]", "IndexError", "same list; the override only reorders the choice"),
    ("common.byte_mask", "assert", "AssertionError", "argument is always an element of a bytes object (an int) produced locally"),
    ("common.byte_chr", "assert", "AssertionError", "type guard on a locally computed int (message numbers, lengths), not peer data"),
    ("util.deflate_long", "s[0]", "IndexError", "encoder of our own numbers, not driven by peer data; s is never empty at that point (the degenerate arm makes it one byte, "
     "otherwise the scan stopped at a byte that is kept)"),
    ("Ed25519Key.__init__", "nacl.signing.VerifyKey", "TypeError", "the argument is always bytes read from the message"),
    ("PKey._read_private_key", None, None, "private-key file loading is not driven by the peer (C37)"),
    ("PKey._read_private_key_pem", None, None, "C37"), ("PKey._read_private_key_openssh", None, None, "C37"),
    ("PKey._uint32_cstruct_unpack", None, None, "C37"), ("pkey._unpad_openssh", None, None, "C37"),
    ("Ed25519Key._parse_signing_key_data", None, None, "C37"), ("RSAKey._decode_key", None, None, "C37"), ("ECDSAKey._decode_key", None, None, "C37"),
    ("PKey.from_path", None, None, "local file API"), ("PublicBlob.", None, None, "local certificate files / strings supplied by the application"),
]


def _allowed_site(fq, callee, cls):
    for (fp, cal, c, why) in SITE_ALLOW:
        if fq.startswith(fp) and (cal is None or callee.startswith(cal)) and (c is None or c == cls):
            return why
    return None


def run(prog, chk):
    chk.explanation = (
        "Partial: exception-escape analysis over the transport thread. The closure of Transport.run through every "
        "dispatch table (transport, channel, auth - both roles, GSS), every kex engine's parse_next and the banner "
        "check is computed on the resolved call graph; the generic handlers of run() only *record* what arrives "
        "(saved_exception, re-raised by start_client / start_server / auth_* and returned by get_exception), so an "
        "escape there is an escape of the public API. Allowed classes: SSHException subclasses, EOFError, OSError. "
        "(R1) every explicit raise in the closure raises an allowed class or is listed with its reason; (R2) frozen "
        "catalogue of partial operations on peer data - strict UTF-8 decodes (get_text/get_list), point / key "
        "constructors of cryptography and nacl, dict subscripts whose key comes out of a message, constant-index "
        "subscripts on split() results without an established length, asserts - each filtered by the enclosing "
        "handlers; (R3) no empty message is handed to a sender or returned as a reply (the packetizer indexes byte 0); "
        "(R4) every method call on a typed receiver resolves (else AttributeError). Escapes already in the tree are "
        "known findings keyed by function / callee / class / count, so a new site is a fresh violation. Operations "
        "outside the catalogue are assumed total.")
    chk.assumptions = ["application callbacks (ServerInterface, SFTPServerInterface) are outside the model",
                       "operations not catalogued are total (an uncatalogued partial operation is a missed escape, never a false alarm)"]
    fold = Folder(prog)
    cg = build_graph(prog, fold)
    run_f = prog.func("Transport.run")

    # ---- dispatch through tables / variables in run() -----------------------------------------------------
    tables = {}
    init = prog.func("Transport.__init__")
    for n in ast.walk(init.node):
        if isinstance(n, ast.Assign) and unparse(n.targets[0]) == "self._handler_table":
            tables["self._handler_table[ptype]"] = dict_values_as_methods(prog, n.value, "Transport")
    si = prog.classes["ServiceRequestingTransport"].methods.get("__init__")
    if si is not None:
        for n in ast.walk(si.node):
            if isinstance(n, ast.Assign) and isinstance(n.targets[0], ast.Subscript) and unparse(n.targets[0].value) == "self._handler_table" \
                    and isinstance(n.value, ast.Attribute):
                t = prog.method("ServiceRequestingTransport", n.value.attr, required=False)
                if t is not None:
                    tables.setdefault("self._handler_table[ptype]", []).append(t.qual)
    tables["self._channel_handler_table[ptype]"] = dict_values_as_methods(prog, prog.cls("Transport").class_assigns.get("_channel_handler_table"))
    auth = []
    for prop in ("_server_handler_table", "_client_handler_table"):
        for cn in ("AuthHandler", "AuthOnlyHandler"):
            f = prog.classes[cn].methods.get(prop)
            if f is None:
                continue
            for r in walk_no_defs(f.node):
                if isinstance(r, ast.Return):
                    auth += dict_values_as_methods(prog, r.value, cn)
    from ._shared import gss_handler_table
    gss = gss_handler_table(prog)
    auth += [q for (q, kind, txt) in gss]
    tables["handler"] = sorted(set(auth))
    # ---- R5 the dispatch site and the table values agree on the calling convention --------------------------------
    # run() calls `handler(m)` / `self._handler_table[ptype](m)` with one argument and the channel table with
    # (chan, m): a table of bound methods needs targets with that many parameters besides self; a table of plain
    # functions taken from a class body needs the receiver passed explicitly, else the call is a TypeError.
    call_args = {}
    for c in walk_no_defs(run_f.node):
        if isinstance(c, ast.Call) and unparse(c.func) in ("handler", "self._handler_table[ptype]", "self._channel_handler_table[ptype]"):
            call_args[unparse(c.func)] = len(c.args)
    if set(call_args) != {"handler", "self._handler_table[ptype]", "self._channel_handler_table[ptype]"}:
        raise AnalysisError("Transport.run", "dispatch call sites not recognised: %s" % sorted(call_args))
    conv = []
    for q in tables.get("self._handler_table[ptype]", []):
        conv.append((q, "bound", call_args["self._handler_table[ptype]"], "Transport._handler_table"))
    for q in tables["self._channel_handler_table[ptype]"]:
        conv.append((q, "unbound", call_args["self._channel_handler_table[ptype]"], "Transport._channel_handler_table"))
    for q in sorted(set(auth) - set(x[0] for x in gss)):
        conv.append((q, "bound", call_args["handler"], "AuthHandler handler tables"))
    for (q, kind, txt) in gss:
        conv.append((q, kind, call_args["handler"], "GssapiWithMicAuthHandler table"))
    for (q, kind, nargs, table) in conv:
        f_ = cg.funcs.get(q)
        if f_ is None:
            continue
        npar = len(f_.params())
        want = nargs + 1 if kind == "bound" else nargs
        chk.ob("R5.dispatch-calling-convention", "%s:%s" % (table, q), npar == want, f_.loc,
               "%s is stored %s and called with %d argument(s); it takes %d parameter(s)%s" % (
                   q, "as a bound method" if kind == "bound" else "as a plain function (no receiver bound)", nargs, npar,
                   "" if npar == want else " - TypeError on the transport thread for every such message"))
    for k, v in tables.items():
        chk.count("dispatch targets via %s" % k, len(v))
    chk.floor("R2", "handlers in Transport._handler_table", len(tables.get("self._handler_table[ptype]", [])), 8)
    chk.floor("R2", "handlers in the channel table", len(tables["self._channel_handler_table[ptype]"]), 8)
    chk.floor("R2", "auth handlers (both roles)", len(tables["handler"]), 12)
    key_info = fold.class_env("Transport").get("_key_info")
    key_classes = sorted(set(v.text.split(":")[-1] for v in (key_info or {}).values() if hasattr(v, "text")))

    def dynamic_targets(f, call):
        if f.qual == "Transport.run":
            return tables.get(unparse(call.func), [])
        t = unparse(call.func)
        if t.endswith("__compress_engine_in"):
            return ["ZlibDecompressor.__call__"]        # what set_inbound_compressor installs (Transport._compress_info)
        if t == "self.transport._key_info[algorithm]" or t == "self._key_info[self.host_key_type]":
            return ["%s.__init__" % k for k in ("RSAKey", "ECDSAKey", "Ed25519Key")]
        return []

    def transparent(f, trynode, h):
        """a handler of run() that stores the very exception it caught (self.saved_exception = e) or re-raises it
        lets that exception through to the public API; one that stores a new SSHException converts it."""
        if f.qual != "Transport.run":
            return False
        if any(isinstance(x, ast.Raise) and x.exc is None for x in walk_no_defs(h)):
            return True
        stores = [x for x in walk_no_defs(h) if isinstance(x, ast.Assign) and unparse(x.targets[0]) == "self.saved_exception"]
        if not stores:
            return False
        rebound = [x for x in walk_no_defs(h) if isinstance(x, ast.Assign) and isinstance(x.targets[0], ast.Name) and x.targets[0].id == h.name]
        if rebound:
            # e = SSHException(...) before it is stored: converted, provided the new value is an allowed class
            return not all(M.is_call(x.value) and any(esc_is_allowed(dotted(x.value.func) or "") for _ in [0]) for x in rebound)
        return all(unparse(x.value) == h.name for x in stores)

    def esc_is_allowed(name):
        short = name.split(".")[-1]
        return short in prog.classes and prog.is_subclass(short, "SSHException") or short in ("SSHException", "EOFError")

    # ---- peer-keyed dict subscripts --------------------------------------------------------------------------
    flows = {}

    def dict_subscripts(f, sub):
        if f.module.name not in PEER_MODULES or isinstance(sub.slice, (ast.Slice, ast.Constant)):
            return None
        base = unparse(sub.value)
        # module / class level tables and the info tables of the transport
        is_table = base.isupper() or base in ("MSG_NAMES", "CONNECTION_FAILED_CODE") or (base.startswith("self._") and base.endswith("_info")) \
            or base.endswith("._key_info") or base.endswith("._cipher_info")
        if not is_table:
            return None
        idx = sub.slice
        if f.qual not in flows:
            try:
                flows[f.qual] = Flow(prog, f, implicit=False)
            except AnalysisError:
                flows[f.qual] = None
        fl = flows[f.qual]
        if fl is None:
            return None
        nodes = [n for n in fl.cfg.node_containing(sub) if n.id in fl.live]
        if not nodes:
            return None
        n0 = nodes[0]
        # is the key peer data?  a parameter named ptype, or a local whose definitions read it out of a message
        tainted = False
        for nm in [x.id for x in ast.walk(idx) if isinstance(x, ast.Name)]:
            if nm == "ptype":
                tainted = True
            for (dn, rhs) in fl.defs(nm, n0):
                if rhs is not None and any(isinstance(c, ast.Call) and isinstance(c.func, ast.Attribute) and c.func.attr.startswith("get_")
                                           for c in ast.walk(rhs)):
                    tainted = True
                if rhs is not None and any(isinstance(c, ast.Call) and (dotted(c.func) or "") in ("byte_ord", "ord", "struct.unpack", "int.from_bytes")
                                           for c in ast.walk(rhs)):
                    tainted = True      # a number decoded straight from received bytes
                if dn.kind == "entry" and nm in ("algorithm", "reason", "code", "kind", "method"):
                    tainted = True
        if not tainted:
            return None
        it = unparse(idx)
        guards = ("%s in %s" % (it, base), "%s not in %s" % (it, base))

        def g(s_, lab, d):
            nd = fl.cfg.nodes[s_]
            if nd.kind != "cond":
                return False
            t = unparse(nd.ast)
            return (t == guards[0] and lab == "T") or (t == guards[1] and lab == "F")
        if fl.dominated([n0], guard_edge=g):
            return None
        return ["KeyError"]

    idx_cache = {}

    def extra_sites(f):
        out = []
        if f.module.name in ("transport", "auth_handler", "channel", "packet", "kex_gss", "util", "message") or f.module.name.startswith("kex_"):
            if f.qual not in idx_cache:
                try:
                    idx_cache[f.qual] = [(x, why) for (x, need, have, why) in unguarded_constant_subscripts(prog, f)] + \
                        list(unguarded_variable_subscripts(prog, f))
                except AnalysisError:
                    idx_cache[f.qual] = []
            for (x, why) in idx_cache[f.qual]:
                out.append((x, "IndexError", why))
        return out

    esc = Escapes(prog, cg, extra_catalog=EXTRA, dict_subscripts=dict_subscripts, extra_sites=extra_sites,
                  dynamic_targets=dynamic_targets, transparent_handlers=transparent)
    clo = cg.closure(["Transport.run"] + [q for v in tables.values() for q in v] + ["%s.__init__" % k for k in ("RSAKey", "ECDSAKey", "Ed25519Key")])
    clo = set(q for q in clo if q in cg.funcs and cg.funcs[q].module.name in PEER_MODULES)
    chk.count("functions in the transport-thread closure", len(clo))
    chk.floor("R2", "functions in the transport-thread closure", len(clo), 150)
    esc.solve(clo)
    found = esc.of("Transport.run")

    # ---- group by site ----------------------------------------------------------------------------------------
    groups = {}
    nallowed = 0
    for (c, origin) in sorted(found):
        if any(esc.is_a(c, a) for a in ALLOWED):
            nallowed += 1
            continue
        parts = origin.split(" via ")
        site = parts[0]
        fq = parts[1] if len(parts) > 1 else "Transport.run"
        callee = site.split(" at ")[0].strip()
        if site.startswith("raise at"):
            row = [r for r in RAISE_ALLOW if fq.startswith(r[0]) and (r[1] is None or r[1] == c)]
            if row:
                chk.note("explicit raise of %s in %s allowed: %s" % (c, fq, row[0][2]))
                continue
            groups.setdefault(("R1.explicit-raise-is-an-ssh-exception", fq, "raise", c), []).append(origin)
            continue
        why = _allowed_site(fq, callee, c)
        if why is not None:
            continue
        short = callee.split(".")[-1] if callee.startswith(("m.", "msg.", "message.", "kexinit.", "self.")) and "get_" in callee else callee
        groups.setdefault(("R2.peer-data-operation-guarded", fq, short[:40], c), []).append(origin)
    chk.count("allowed (SSH / EOF / OS) exception flows reaching run()", nallowed)
    chk.ob("R2.peer-data-operation-guarded", "transport-thread-closure", True, run_f.loc,
           "%d functions analysed; %d distinct escape site groups reported individually" % (len(clo), len(groups)))
    # every catalogued partial operation in the closure is an obligation of its own: discharged when a handler on the
    # way to run()'s recording handlers converts or absorbs it (or run() itself converts the class)
    bad_sites = set()
    for (rule, fq, callee, c), origins in groups.items():
        for o in origins:
            bad_sites.add((o.split(" via ")[0], c))
    nsites = 0
    per_kind = {}
    for q in sorted(clo):
        fq_ = cg.funcs[q]
        sites = []
        for x in walk_no_defs(fq_.node):
            if isinstance(x, ast.Call):
                for classes, why in esc.site_exceptions(fq_, x):
                    for c in classes:
                        sites.append((x, unparse(x.func), c, why))
            elif isinstance(x, ast.Subscript) and isinstance(x.ctx, ast.Load):
                for c in dict_subscripts(fq_, x) or ():
                    sites.append((x, unparse(x), c, "table indexed by a value out of a message"))
        for (x, c, why) in extra_sites(fq_):
            sites.append((x, unparse(x), c, why))
        for (x, callee, c, why) in sites:
            if any(esc.is_a(c, a) for a in ALLOWED) or _allowed_site(q, callee, c) is not None:
                continue
            site_txt = "%s at %s:%d" % (callee[:50], fq_.module.path, x.lineno)
            if any(bs[0].startswith(site_txt) and bs[1] == c for bs in bad_sites):
                continue
            nsites += 1
            kind = callee.split(".")[-1] if "get_" in callee else callee[:30]
            per_kind[kind] = per_kind.get(kind, 0) + 1
            short = callee.split(".")[-1] if "get_" in callee else callee[:40]
            chk.ob("R2.peer-data-operation-guarded", "%s:%s:%s@%d" % (q, short, c, sum(1 for o in chk.obligations if o["key"].startswith("R2.peer-data-operation-guarded:%s:%s:%s@" % (q, short, c)))),
                   True, "%s:%d" % (fq_.module.path, x.lineno), "%s from %s (%s) is converted or absorbed before the public API can surface it" % (c, callee[:40], why))
    chk.count("catalogued partial operations on peer data (discharged)", nsites)
    chk.note("discharged sites by operation: %s" % sorted(per_kind.items()))
    chk.floor("R2", "catalogued partial operations on peer data in the closure", nsites + len(bad_sites), 40)
    for (rule, fq, callee, c), origins in sorted(groups.items()):
        key = "%s:%s:%s#%d" % (fq, callee, c, len(origins))
        where = origins[0].split(" at ")[1].split(" ")[0] if " at " in origins[0] else fq
        chk.ob(rule, key, False, where, "%s can reach run()'s generic handler and so get_exception() / start_client / auth_*: %s" % (
            c, "; ".join(o.split(" via ")[0] for o in origins[:4])))

    # ---- R3 no empty message -------------------------------------------------------------------------------------
    ex = Extractor(calls_of_interest=lambda name, call: "send" if isinstance(call.func, ast.Attribute) and call.func.attr in ("_send_message", "_send_user_message", "send_message") else None)
    nmsg = 0
    for q in sorted(clo):
        f = cg.funcs[q]
        if not any(isinstance(c, ast.Call) and dotted(c.func) == "Message" and not c.args for c in walk_no_defs(f.node)):
            continue
        try:
            alts = ex.function(f.node)
        except AnalysisError:
            continue
        empties = {}
        for (events, kind) in alts:
            for m in split_messages(events):
                if m["var"] is None:
                    continue
                nmsg += 1
                used = any(ev[0] == "call" and ev[1] == "send" and "(%s)" % m["var"] in ev[2] for ev in m["after"]) or \
                    any(ev[0] == "ret" and ev[1] == m["var"] for ev in events)
                real = [fld for fld in m["fields"] if fld[0] not in ("loop", "endloop")]
                if used and not real:
                    empties[m["var"]] = kind
        for var, kind in sorted(empties.items()):
            chk.ob("R3.no-empty-message-sent", "%s:%s" % (q, var), False, f.loc,
                   "on some path %s is %s with no field at all; Packetizer.send_message reads byte 0 of it (IndexError)" % (
                       var, "returned" if kind == "return" else "sent"))
    chk.count("message constructions examined for emptiness", nmsg)
    chk.floor("R3", "message constructions in the closure", nmsg, 60)
    # the consumer: run() sends whatever _ensure_authed returns when it is truthy; a Message is always truthy
    # ---- R4 unresolved calls on typed receivers ----------------------------------------------------------------------
    nun = 0
    for q in sorted(cg.unresolved):
        if q not in clo:
            continue
        for i, (recv, meth, tcls) in enumerate(cg.unresolved[q]):
            nun += 1
            chk.ob("R4.method-resolves-on-typed-receiver", "%s:%s.%s" % (q, recv, meth), False, cg.funcs[q].loc,
                   "%s.%s(): class %s has no such method (AttributeError on the transport thread)" % (recv, meth, tcls))
    chk.ob("R4.method-resolves-on-typed-receiver", "closure", True, run_f.loc, "%d unresolved call(s) on typed receivers in the closure" % nun)

    # ---- R6 handlers that need a context refuse when the context is missing --------------------------------------------
    # NEWKEYS and SERVICE_ACCEPT are in the handler tables all the time; outside a key exchange / without a pending
    # authentication request the state they work from is None.  The handler must test that state and raise an
    # SSHException before it touches it.
    def _guarded(fq, uses, tests):
        ff = prog.func(fq)
        fl_ = Flow(prog, ff, implicit=False)
        targets = [n for n in fl_.cfg.nodes if n.id in fl_.live and n.ast is not None and n.kind in ("stmt", "cond", "return") and any(u in unparse(n.ast) for u in uses)]
        if not targets:
            raise AnalysisError(fq, "none of %s found" % (uses,))

        def ge(s_, lab, d_):
            nd = fl_.cfg.nodes[s_]
            if nd.kind != "cond":
                return False
            t_ = unparse(nd.ast)
            return any((t_ == txt and lab == arm) for (txt, arm) in tests)
        ok_ = fl_.dominated(targets, guard_edge=ge)
        raises = [r for r in fl_.nodes(lambda n: n.kind == "raise") if isinstance(r.ast, ast.Raise) and r.ast.exc is not None and
                  any(k in unparse(r.ast.exc) for k in ("SSHException", "MessageOrderError", "ProtocolError"))]
        return ok_ and bool(raises), ff.loc
    okn, locn = _guarded("Transport._parse_newkeys", ("self._activate_inbound(",),
                         [("self.kex_engine is None", "F"), ("self.kex_engine is not None", "T"), ("self.K is None", "F"), ("self.in_kex", "T"), ("not self.in_kex", "F")])
    chk.ob("R6.handler-needs-its-context", "Transport._parse_newkeys", okn, locn,
           "NEWKEYS outside a key exchange is refused with an SSHException before the new keys are derived (from K = None)")
    oks, locs = _guarded("AuthHandler._parse_service_accept", ("add_string(self.username)",),
                         [("self.username is None", "F"), ("self.username is not None", "T"), ("self.auth_method == ''", "F"), ("not self.auth_method", "F"),
                          ("self.auth_event is None", "F"), ("self.auth_event is not None", "T")])
    chk.ob("R6.handler-needs-its-context", "AuthHandler._parse_service_accept", oks, locs,
           "SERVICE_ACCEPT without a pending authentication request is refused with an SSHException before a request is built from username = None")
    # what _parse_service_accept builds its request from is cleared only together with the user name its guard tests:
    # a credential set to None on its own (after a successful login, say) turns a repeated SERVICE_ACCEPT into b(None)
    from ..core.flow import attr_writes
    for f_ in prog.all_functions():
        if f_.cls is None or not prog.is_subclass(f_.cls.name, "AuthHandler") or f_.name == "__init__":
            continue
        cleared = sorted(set(t.attr for (st, t, v) in attr_writes(f_.node) if isinstance(v, ast.Constant) and v.value is None and t.attr in ("password", "private_key", "username")))
        if cleared and "username" not in cleared:
            chk.ob("R6.credentials-cleared-with-the-user-name", f_.qual, False, f_.loc,
                   "sets %s to None but not username: AuthHandler._parse_service_accept still passes its `username is None` guard and encodes None" % cleared)
    chk.ob("R6.credentials-cleared-with-the-user-name", "AuthHandler", True, "paramiko/auth_handler.py", "functions that clear a credential also clear the user name (checked per function)")

