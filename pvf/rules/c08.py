"""C08 - key exchange rejects invalid peer values and out-of-range groups."""
import ast
from ..core.model import AnalysisError, unparse, dotted, walk_no_defs
from ..core.consts import Folder
from ..core.flow import Flow, node_calls
from ..core.bounds import facts, establishes_lo, establishes_hi
from ..core import match as M
from . import _kex


def guard_edges(fl, var, lo_min=None, hi=None):
    """(edges establishing var >= lo_min, edges establishing var <= hi)."""
    glo, ghi = set(), set()
    for n in fl.nodes(lambda n: n.kind == "cond"):
        f = facts(n.ast, var)
        for arm in ("T", "F"):
            for fact in f[arm]:
                if lo_min is not None and establishes_lo(fact, lo_min):
                    glo.add((n.id, arm))
                if hi is not None and establishes_hi(fact, hi[0], hi[1]):
                    ghi.add((n.id, arm))
    return glo, ghi


def range_guarded(fl, targets, var, lo_min, hi):
    glo, ghi = guard_edges(fl, var, lo_min, hi)
    ok_lo = bool(glo) and fl.dominated(targets, guard_edge=lambda s, lab, d: (s, lab) in glo)
    ok_hi = bool(ghi) and fl.dominated(targets, guard_edge=lambda s, lab, d: (s, lab) in ghi)
    # the rejecting arms must not fall through to the targets: they are the other arms,
    # which by dominance cannot reach the target without passing an establishing edge
    return ok_lo, ok_hi, glo, ghi


def dh_sites(prog, chk, cn, fam, include=None):
    hc, hs = _kex.handlers(prog, cn, fam)
    out = []
    for role, h in (("client", hc), ("server", hs)):
        out.append((role, h))
    return out


def check_dh_handler(prog, chk, h, role, rule="R1.dh-range"):
    fl = Flow(prog, h)
    mpar = h.params()[1]
    pows = []
    for (n, c) in fl.nodes_with_call(name="pow"):
        if len(c.args) != 3:
            continue
        base = c.args[0]
        bt = unparse(base)
        # peer value: defined in this function from m.get_mpint()
        ds = fl.defs(bt, n)
        if ds and all(r is not None and M.is_call(r, attr="get_mpint") and unparse(r.func.value) == mpar for (d, r) in ds):
            pows.append((n, c, bt))
    if len(pows) != 1:
        raise AnalysisError(h.qual, "expected exactly one pow(<peer value>, x, p), found %d" % len(pows))
    n, c, var = pows[0]
    mod = unparse(c.args[2])
    ok_lo, ok_hi, glo, ghi = range_guarded(fl, [n], var, 1, (mod, -1))
    chk.ob(rule, "%s:lower" % h.qual, ok_lo, fl.where(n),
           "pow(%s, x, %s) only reachable with %s >= 1 established (%d guard edge(s))" % (var, mod, var, len(glo)))
    chk.ob(rule, "%s:upper" % h.qual, ok_hi, fl.where(n),
           "pow(%s, x, %s) only reachable with %s <= %s - 1 established (%d guard edge(s))" % (var, mod, var, mod, len(ghi)))
    # R5: keys are derived only after the checks
    for nm in ("_set_K_H", "_activate_outbound"):
        tg = [x for (x, k) in fl.nodes_with_call(attr=nm)]
        ok = bool(tg) and fl.dominated(tg, guard_edge=lambda s, lab, d: (s, lab) in glo) and \
            fl.dominated(tg, guard_edge=lambda s, lab, d: (s, lab) in ghi)
        chk.ob("R5.fail-before-keys", "%s:%s" % (h.qual, nm), ok, h.loc, "%s only after the range check" % nm)
    # the K given to _set_K_H is that pow
    sk = fl.nodes_with_call(attr="_set_K_H")
    if sk:
        kexp = fl.expand_text(sk[0][1].args[0], sk[0][0], depth=2)
        chk.ob("R5.K-is-checked-pow", h.qual, kexp == fl.expand_text(c, n, depth=2), fl.where(sk[0][0]), "K <- %s" % kexp)


def run(prog, chk):
    fold = Folder(prog)
    chk.explanation = (
        "Decided structurally: (R1) in every DH / group-exchange handler (both roles) the peer's public "
        "value read from the message reaches pow(v, x, p) only on paths where comparison guards have "
        "established 1 <= v <= p-1 (guards are normalised: orientation, strictness, p-1 vs p offsets), "
        "rejecting arms never complete the handler; (R2) the client bounds the gex prime's bit length "
        "to [1024, 8192] before generating x; (R3) EC peer points reach exchange() only through the "
        "validating constructor on the engine's own curve; (R4) X25519 results are compared with 32 zero "
        "bytes in constant time with a raising arm, all exchange() calls live in that helper; (R5) "
        "K/H and key activation come after the checks. Not decided: that cryptography rejects "
        "off-curve points (trusted library).")
    chk.assumptions = ["cryptography's from_encoded_point validates curve membership",
                       "Message.get_mpint returns a Python int (possibly negative)"]
    engs = _kex.engines(prog, fold)
    seen = set()
    nsites = 0
    for (alg, cn, fam) in engs:
        hc, hs = _kex.handlers(prog, cn, fam)
        for role, h in (("client", hc), ("server", hs)):
            if h.qual in seen:
                continue
            seen.add(h.qual)
            if fam in ("dh", "gex"):
                check_dh_handler(prog, chk, h, role)
                nsites += 1
            elif fam == "ecdh":
                hl = _kex.HashLayout(prog, h, role)
                want = "secret:ecdh(point(read%d))" % (1 if role == "client" else 0)
                sl = [s for (k, s, t) in hl.alts[0]["slots"]][-1] if hl.alts else "?"
                exch = [(n, c) for (n, c) in hl.fl.nodes_with_call(attr="exchange")]
                chk.ob("R3.ec-point-validated", h.qual, sl == want and len(exch) == 1, h.loc,
                       "shared secret is %s (want %s); %d exchange() call(s)" % (sl, want, len(exch)))
                # nothing else builds a public key from raw numbers
                raw = [unparse(c.func) for c in walk_no_defs(h.node) if isinstance(c, ast.Call)
                       and (dotted(c.func) or "").endswith(("EllipticCurvePublicNumbers", "from_encoded_point")) and
                       not (dotted(c.func) == "ec.EllipticCurvePublicKey.from_encoded_point" and unparse(c.args[0]) == "self.curve")]
                chk.ob("R3.ec-only-validating-constructor", h.qual, not raw, h.loc, "other constructors: %s" % raw)
            else:
                fl = Flow(prog, h)
                pe = fl.nodes_with_call(name="self._perform_exchange")
                direct = [c for c in walk_no_defs(h.node) if M.is_call(c, attr="exchange")]
                sk = fl.nodes_with_call(attr="_set_K_H")
                ok = len(pe) == 1 and not direct and bool(sk) and fl.dominated([sk[0][0]], guard_nodes=[pe[0][0]], complete=True)
                chk.ob("R4.x25519-via-helper", h.qual, ok, h.loc, "exchange only via _perform_exchange, before _set_K_H")
    chk.floor("R1", "DH range sites", nsites, 4)

    # R2 gex prime size --------------------------------------------------------------------
    g = prog.func("KexGex._parse_kexdh_gex_group")
    fl = Flow(prog, g)
    gen = [n for (n, c) in fl.nodes_with_call(name="self._generate_x")] + [n for (n, c) in fl.nodes_with_call(name="pow")]
    bl = fl.nodes(lambda n: n.kind == "stmt" and isinstance(n.ast, ast.Assign) and
                  M.is_call(n.ast.value) and dotted(n.ast.value.func) in ("util.bit_length", "bit_length")
                  and unparse(n.ast.value.args[0]) == "self.p")
    direct = False
    var = None
    if bl and isinstance(bl[0].ast.targets[0], ast.Name):
        var = bl[0].ast.targets[0].id
    else:
        # self.p.bit_length() used directly in the test
        var = "self.p.bit_length()"
        direct = True
    ok_lo, ok_hi, glo, ghi = range_guarded(fl, gen, var, 1024, (None, 8192))
    # and p was read from the message in this function, before
    pd = fl.defs("self.p", gen[0]) if gen else []
    from_msg = bool(pd) and all(r is not None and M.is_call(r, attr="get_mpint") for (d, r) in pd)
    chk.ob("R2.gex-prime-bits", "lower", ok_lo and from_msg and bool(gen), g.loc, "x generated / pow only with bit_length(p) >= 1024")
    chk.ob("R2.gex-prime-bits", "upper", ok_hi and from_msg and bool(gen), g.loc, "x generated / pow only with bit_length(p) <= 8192")
    bf = prog.func("util.bit_length")
    body = [s for s in bf.node.body if not (isinstance(s, ast.Expr) and isinstance(s.value, ast.Constant))]
    t = unparse(body[-1]) if body else ""
    chk.ob("R2.bit_length", "util.bit_length", "%s.bit_length()" % bf.params()[0] in t and len(body) <= 4, bf.loc, t[:80])
    # _generate_x of the client must run after, and nothing else in the class computes with p first
    # R4 X25519 helper -----------------------------------------------------------------------
    pe = prog.func("KexCurve25519._perform_exchange")
    fl = Flow(prog, pe)
    ex = fl.nodes_with_call(name="self.key.exchange")
    conds = fl.nodes(lambda n: n.kind == "cond" and M.is_call(n.ast) and
                     dotted(n.ast.func) in ("constant_time.bytes_eq", "hmac.compare_digest", "util.constant_time_bytes_eq"))
    ok = len(ex) == 1 and len(conds) == 1
    detail = ""
    if ok:
        sv = ex[0][0].ast.targets[0].id if isinstance(ex[0][0].ast, ast.Assign) and isinstance(ex[0][0].ast.targets[0], ast.Name) else None
        a = [unparse(x) for x in conds[0].ast.args]
        zero = [x for x in conds[0].ast.args if isinstance(x, ast.BinOp) and isinstance(x.op, ast.Mult)]
        zok = False
        for z in zero:
            l, r = z.left, z.right
            for (p, q) in ((l, r), (r, l)):
                if isinstance(p, ast.Constant) and p.value == b"\x00" and isinstance(q, ast.Constant) and q.value == 32:
                    zok = True
        if any(isinstance(x, ast.Constant) and x.value == b"\x00" * 32 for x in conds[0].ast.args):
            zok = True
        ok = sv is not None and sv in a and zok
        rets = fl.nodes(lambda n: n.kind == "return")
        ok = ok and bool(rets) and all(unparse(r.ast.value) == sv for r in rets)
        ok = ok and fl.exit_dominated(guard_edge=lambda s, lab, d: s == conds[0].id and lab == "F")
        ts = [d for (d, lab) in fl.cfg.succ[conds[0].id] if lab == "T"]
        ok = ok and fl.cfg.exit.id not in fl.cfg.reach(ts)
        detail = "secret=%s compared with %s" % (sv, a)
    chk.ob("R4.x25519-zero-check", "KexCurve25519._perform_exchange", ok, pe.loc, detail)
    others = []
    for f in prog.cls("KexCurve25519").methods.values():
        if f.name == "_perform_exchange":
            continue
        for c in walk_no_defs(f.node):
            if M.is_call(c, attr="exchange"):
                others.append(f.qual)
    chk.ob("R4.x25519-only-helper-exchanges", "KexCurve25519", not others, pe.loc, "other exchange() sites: %s" % others)


def thorough(prog, chk):
    """GSS siblings: same DH range rule on the gss-group / gss-gex handlers."""
    for cn, meths in (("KexGSSGroup1", ("_parse_kexgss_init", "_parse_kexgss_complete", "_parse_kexgss_continue")),
                      ("KexGSSGex", ("_parse_kexgss_gex_init", "_parse_kexgss_complete", "_parse_kexgss_continue"))):
        for m in meths:
            f = prog.method(cn, m, required=False)
            if f is None:
                continue
            try:
                check_dh_handler(prog, chk, f, "gss", rule="R1.dh-range-gss")
            except AnalysisError as e:
                chk.note("GSS sibling %s not analysable: %s" % (f.qual, e.detail))
