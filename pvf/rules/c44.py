"""C44 - an auth strategy tries sources in order and reports every failure."""
import ast
from ..core.model import AnalysisError, unparse, dotted, walk_no_defs
from ..core.flow import Flow, node_calls, attr_writes
from ..core.cfg import handler_names, assigned_names
from ..core import match as M


def run(prog, chk):
    chk.explanation = (
        "Decided structurally on every path of AuthStrategy.authenticate (the quantifier is over source lists "
        "and outcomes; the rule is about the loop, so it covers all of them): (R1) the loop iterates "
        "self.get_sources() directly - no sorted/reversed/filter/list slicing in between - and nothing in the "
        "body skips to the next source before the attempt; (R2) every iteration makes exactly one attempt "
        "source.authenticate(transport) and appends exactly one SourceResult(source, result) at the tail of the "
        "one overall result, where result is the attempt's return value or the exception object it raised, and "
        "the handler catches every Exception; (R3) the success flag is set only on the no-exception "
        "continuation of the attempt and once it is set no further source is fetched or attempted; (R4) the "
        "function returns the overall result only with the flag set and raises AuthFailure(result=that same "
        "list) only with it clear; AuthFailure keeps the result, AuthResult is a list, SourceResult is "
        "(source, result). Path-sensitive in the success flag.")
    chk.assumptions = ["list.append appends at the tail; generators yield in production order",
                       "the logger calls do not raise"]
    f = prog.func("AuthStrategy.authenticate")
    fl = Flow(prog, f, implicit=True)
    tparam = f.params()[1] if len(f.params()) > 1 else None
    loops = [n for n in walk_no_defs(f.node) if isinstance(n, (ast.For, ast.While))]
    if len(loops) != 1 or not isinstance(loops[0], ast.For):
        raise AnalysisError("AuthStrategy.authenticate", "expected exactly one for-loop over the sources, found %d loop(s)" % len(loops))
    loop = loops[0]
    head = [n for n in fl.cfg.nodes_for(loop) if n.kind == "for_iter"][0]
    src = unparse(loop.target)

    # ---- R1 ------------------------------------------------------------------------------------------
    chk.ob("R1.iterates-sources-in-production-order", "authenticate:for", unparse(loop.iter) == "self.get_sources()", fl.where(loop),
           "iterates %s (want self.get_sources() itself: any wrapper may reorder or drop sources)" % unparse(loop.iter))
    attempts = [(n, c) for (n, c) in fl.nodes_with_call(attr="authenticate")
                if unparse(c.func.value) == src]
    chk.floor("R2", "source.authenticate call sites", len(attempts), 1)
    chk.ob("R2.one-attempt-site", "authenticate", len(attempts) == 1, f.loc, "%d attempt site(s) in the loop" % len(attempts))
    if len(attempts) != 1:
        return
    an, ac = attempts[0]
    chk.ob("R2.attempt-arguments", "authenticate", [unparse(a) for a in ac.args] == [tparam] and not ac.keywords, fl.where(ac),
           "%s (want the caller's transport)" % unparse(ac))
    body_first = [d for (d, lab) in fl.cfg.succ[head.id] if lab == "T"]
    # no path from the loop head's body back to the head (or out by break) without the attempt
    brk = fl.nodes(lambda n: n.kind in ("break", "continue") and _inside(n.ast, loop))
    skip = not fl.cfg.dominated([head.id] + [b.id for b in brk if b.kind == "break"], [an.id], None, fl.avoid, body_first)
    chk.ob("R1.no-source-skipped", "authenticate:body", not skip, fl.where(loop),
           "every iteration reaches %s before the next source is fetched or the loop is left" % unparse(ac.func))

    # ---- R2 ------------------------------------------------------------------------------------------
    appends = [(n, c) for (n, c) in fl.nodes_with_call(attr="append") if _inside(c, loop)]
    okshape = len(appends) == 1
    chk.ob("R2.one-append-site", "authenticate", okshape, f.loc, "%d append site(s) in the loop" % len(appends))
    if not okshape:
        return
    pn, pc = appends[0]
    overall = unparse(pc.func.value)
    arg = pc.args[0] if pc.args else None
    okarg = M.is_call(arg, name="SourceResult") and len(arg.args) == 2 and unparse(arg.args[0]) == src
    chk.ob("R2.append-shape", "authenticate", bool(okarg), fl.where(pc), "appends %s (want SourceResult(%s, <outcome>))" % (unparse(arg), src))
    # exactly one append per iteration: at least one ...
    atleast = fl.cfg.dominated([head.id] + [b.id for b in brk if b.kind == "break"], [pn.id], None, fl.avoid, body_first)
    chk.ob("R2.every-attempt-recorded", "authenticate:at-least-once", atleast, fl.where(pc),
           "no path from the loop body back to the head (or out of the loop) bypasses the append%s" %
           ("" if atleast else ": " + fl.witness([head.id], guard_nodes=[pn.id], start=body_first)))
    # ... at most one: from after the append, the append is not reached again without passing the head
    after = [d for (d, lab) in fl.cfg.succ[pn.id] if lab != "exc"]
    atmost = fl.cfg.dominated([pn.id], [head.id], None, fl.avoid, after)
    chk.ob("R2.every-attempt-recorded", "authenticate:at-most-once", atmost, fl.where(pc), "the append is not repeated within an iteration")
    # what is recorded: the return value of the attempt or the exception object
    if okarg:
        rname = unparse(arg.args[1])
        ds = fl.defs(rname, pn)
        kinds = []
        for (dn, rhs) in ds:
            if rhs is not None and rhs is ac:
                kinds.append("return")
            elif rhs is not None and isinstance(rhs, ast.Name) and _is_handler_var(fl, dn, rhs.id, an):
                kinds.append("exception")
            else:
                kinds.append("other:%s" % (unparse(rhs) if rhs is not None else dn.kind))
        chk.ob("R2.outcome-is-return-or-exception", "authenticate", sorted(kinds) == ["exception", "return"], fl.where(pc),
               "%s at the append is defined by: %s" % (rname, kinds))
    # the handler around the attempt catches every Exception
    tries = [t for t in walk_no_defs(loop) if isinstance(t, ast.Try) and any(_inside(ac, s) for s in t.body)]
    okh = False
    hn = None
    if tries:
        t = tries[-1]
        for h in t.handlers:
            names = handler_names(h)
            if names is None or "Exception" in names or "BaseException" in names:
                okh = True
                hn = h
                break
            # a narrower handler listed first does not matter as long as a catch-all follows
    chk.ob("R2.handler-catches-every-exception", "authenticate", okh, fl.where(tries[-1]) if tries else f.loc,
           "the attempt is wrapped in try/except Exception (a narrower class would let other errors abort the strategy unreported)")
    # the handler itself neither re-raises nor leaves the loop
    if hn is not None:
        bad = [x for x in walk_no_defs(hn) if isinstance(x, (ast.Raise, ast.Break, ast.Continue, ast.Return))]
        chk.ob("R2.handler-falls-through-to-append", "authenticate", not bad, fl.where(hn),
               "handler body has no raise/break/continue/return" if not bad else "handler contains %s" % unparse(bad[0]))

    # ---- R3 ------------------------------------------------------------------------------------------
    flag_sets = [n for n in fl.nodes(lambda n: n.kind == "stmt" and isinstance(n.ast, ast.Assign))
                 if isinstance(n.ast.value, ast.Constant) and n.ast.value.value is True and len(n.ast.targets) == 1
                 and isinstance(n.ast.targets[0], ast.Name)]
    flag = None
    for n in flag_sets:
        if _inside(n.ast, loop):
            flag = n.ast.targets[0].id
    if flag is None:
        raise AnalysisError("AuthStrategy.authenticate", "no success flag set inside the loop; idiom not recognised")
    sets_true = [n for n in flag_sets if n.ast.targets[0].id == flag]
    writes = [n for n in fl.nodes(lambda n: flag in assigned_names(n))]
    others = [n for n in writes if n not in sets_true]
    init_ok = all(isinstance(n.ast, ast.Assign) and isinstance(n.ast.value, ast.Constant) and n.ast.value.value is False
                  and not _inside(n.ast, loop) for n in others) and bool(others)
    chk.ob("R3.flag-discipline", "authenticate:%s" % flag, init_ok, f.loc,
           "%s starts False before the loop and is otherwise only set True (%d write(s))" % (flag, len(writes)))
    # set only on the no-exception continuation of the attempt
    exc_succ = [d for (d, lab) in fl.cfg.succ[an.id] if lab == "exc"]
    chk.floor("R3", "exception edge of the attempt", len(exc_succ), 1)
    ok_noexc = True
    for st in sets_true:
        if not fl.cfg.dominated([st.id], [an.id], None, fl.avoid, None):
            ok_noexc = False
        if not fl.cfg.dominated([st.id], [an.id], None, fl.avoid, exc_succ):
            ok_noexc = False
    chk.ob("R3.flag-set-only-after-successful-attempt", "authenticate:%s" % flag, ok_noexc and bool(sets_true), fl.where(sets_true[0].ast) if sets_true else f.loc,
           "%s = True is reached only through a normally-returning %s" % (flag, unparse(ac.func)))
    ok_stop = True
    for st in sets_true:
        if not fl.dominated_ps([head, an], [flag], start=[st.id]):
            ok_stop = False
    chk.ob("R3.stops-at-first-success", "authenticate:%s" % flag, ok_stop, f.loc,
           "once %s is True neither the next source is fetched nor another attempt made" % flag)
    # a failed attempt goes on to the next source (the break is under the flag)
    goes_on = head.id in fl.cfg.reach(exc_succ, avoid_edge=fl.avoid)
    if goes_on:
        goes_on = not fl.dominated_ps([head], [flag], guard_nodes=sets_true, start=exc_succ)
    chk.ob("R3.failure-continues", "authenticate", goes_on, f.loc, "after a raising attempt the loop fetches the next source")

    # ---- R4 ------------------------------------------------------------------------------------------
    rets = fl.nodes(lambda n: n.kind == "return")
    raises = [n for n in fl.nodes(lambda n: n.kind == "raise") if isinstance(n.ast, ast.Raise)]
    chk.floor("R4", "return statements", len(rets), 1)
    chk.floor("R4", "raise statements", len(raises), 1)
    for i, r in enumerate(rets):
        ok = r.ast.value is not None and unparse(r.ast.value) == overall
        chk.ob("R4.returns-overall-result", "return#%d" % i, ok, fl.where(r), "returns %s (the list appended to is %s)" % (unparse(r.ast.value), overall))
        ok = fl.dominated_ps([r], [flag], guard_nodes=sets_true)
        chk.ob("R4.returns-only-on-success", "return#%d" % i, ok, fl.where(r), "the return is reachable only after %s = True" % flag)
    for i, r in enumerate(raises):
        e = r.ast.exc
        ok = M.is_call(e, name="AuthFailure") and unparse(M.arg(e, 0, "result")) == overall
        chk.ob("R4.raises-authfailure-with-overall-result", "raise#%d" % i, bool(ok), fl.where(r), "raises %s" % unparse(e))
        ok2 = all(fl.dominated_ps([r], [flag], start=[st.id]) for st in sets_true)
        chk.ob("R4.raises-only-without-success", "raise#%d" % i, ok2, fl.where(r), "not reachable once %s is True" % flag)
    # falling off the end would return None
    fell = [p for (p, lab) in fl.cfg.pred[fl.cfg.exit.id] if fl.cfg.nodes[p].kind != "return" and p in fl.live]
    chk.ob("R4.no-fallthrough", "authenticate", not fell, f.loc, "every normal exit is an explicit return")
    # the overall result object: created once, before the loop, as AuthResult(...)
    od = [n for n in fl.nodes(lambda n: overall in assigned_names(n))]
    okod = len(od) == 1 and isinstance(od[0].ast, ast.Assign) and M.is_call(od[0].ast.value, name="AuthResult") and not _inside(od[0].ast, loop)
    chk.ob("R4.one-overall-result", "authenticate:%s" % overall, okod, f.loc, "%s is created once, before the loop, as AuthResult(...)" % overall)
    # other mutations of the overall result
    muts = [c for c in walk_no_defs(f.node) if isinstance(c, ast.Call) and isinstance(c.func, ast.Attribute) and unparse(c.func.value) == overall
            and c is not pc and c.func.attr in ("pop", "remove", "clear", "insert", "extend", "sort", "reverse", "append", "__delitem__", "__setitem__")]
    muts += [x for x in walk_no_defs(f.node) if isinstance(x, (ast.Delete,)) and overall in unparse(x)]
    muts += [x for x in walk_no_defs(f.node) if isinstance(x, ast.Assign) and any(isinstance(t, ast.Subscript) and unparse(t.value) == overall for t in x.targets)]
    chk.ob("R4.result-only-appended-to", "authenticate:%s" % overall, not muts, f.loc,
           "no other mutation of %s%s" % (overall, "" if not muts else ": " + unparse(muts[0])))

    # supporting classes
    ar = prog.cls("AuthResult")
    chk.ob("R4.authresult-is-a-list", "AuthResult", ar.base_names == ["list"] and not ({"append", "__iter__", "__getitem__", "__len__"} & set(ar.methods)),
           ar.module.path, "bases %s; list behaviour not overridden" % ar.base_names)
    af = prog.method("AuthFailure", "__init__")
    w = [(t.attr, unparse(v)) for (s, t, v) in attr_writes(af.node) if v is not None]
    chk.ob("R4.authfailure-keeps-result", "AuthFailure.__init__", ("result", af.params()[1]) in w, af.loc, "stores %s" % w)
    sr = None
    for st in prog.module("auth_strategy").tree.body:
        if isinstance(st, ast.Assign) and unparse(st.targets[0]) == "SourceResult":
            sr = st.value
    oksr = M.is_call(sr, name="namedtuple") and len(sr.args) == 2 and isinstance(sr.args[1], ast.List) and \
        [getattr(e, "value", None) for e in sr.args[1].elts] == ["source", "result"]
    chk.ob("R4.sourceresult-fields", "SourceResult", bool(oksr), prog.module("auth_strategy").path, "SourceResult = %s" % unparse(sr))

    # R5: a source fails by raising - the strategy takes any normal return of source.authenticate() for the success and
    # stops.  So no authenticate() of an AuthSource class may catch an exception and carry on to a normal exit.
    srcs = [c for c in prog.classes.values() if c.name != "AuthSource" and prog.is_subclass(c.name, "AuthSource") and "authenticate" in c.methods]
    chk.floor("R5", "AuthSource classes that define authenticate", len(srcs), 3)
    for c in sorted(srcs, key=lambda c: c.name):
        m = c.methods["authenticate"]
        hs = [h for h in walk_no_defs(m.node) if isinstance(h, ast.ExceptHandler)]
        okh = True
        detail = "no handler"
        if hs:
            fm = Flow(prog, m, implicit=True)
            for h in hs:
                inside = set(id(x) for st in h.body for x in ast.walk(st))
                nodes = [n for n in fm.cfg.nodes if n.id in fm.live and n.ast is not None and id(n.ast) in inside]
                ids = set(n.id for n in nodes)
                leaves = [n for n in nodes if n.kind == "return" or (n.kind != "raise" and any(d not in ids for (d, lab) in fm.cfg.succ[n.id] if lab not in ("exc", "raise")))]
                if leaves or not nodes:
                    okh = False
                    detail = "`except %s` returns / carries on at %s" % (unparse(h.type) if h.type is not None else "", fm.where(leaves[0].ast) if leaves else m.loc)
                else:
                    detail = "%d handler(s), all re-raise" % len(hs)
        chk.ob("R5.source-fails-by-raising", "%s.authenticate" % c.name, okh, m.loc, detail)

    # R6: the verdict an attempt reports is the server's answer to *that* attempt: the handler that creates its own
    # completion event makes a fresh one for every request (an event left set by an earlier attempt answers at once)
    sa = prog.func("AuthOnlyHandler.send_auth_request")
    fsa = Flow(prog, sa, implicit=False)
    waits = [n for (n, c_) in fsa.nodes_with_call(name="self.wait_for_response")]
    fresh = fsa.nodes(lambda n: n.kind == "stmt" and isinstance(n.ast, ast.Assign) and unparse(n.ast.targets[0]) == "self.auth_event" and M.is_call(n.ast.value, name="threading.Event"))
    okf = len(waits) == 1 and bool(fresh) and fsa.dominated(waits, guard_nodes=fresh, complete=True) and [unparse(a) for a in waits[0].ast.value.args if isinstance(waits[0].ast, ast.Return)] in ([], ["self.auth_event"])
    chk.ob("R6.fresh-event-per-attempt", "AuthOnlyHandler.send_auth_request", okf, sa.loc,
           "self.auth_event = threading.Event() on every path before the wait (%d assignment(s))" % len(fresh))


def _inside(node, anc):
    n = node
    while n is not None:
        if n is anc:
            return True
        n = getattr(n, "_parent", None)
    return False


def _is_handler_var(fl, defnode, name, attempt_node):
    """`result = e` inside `except ... as e` of the try that wraps the attempt."""
    n = defnode.ast
    p = getattr(n, "_parent", None)
    while p is not None:
        if isinstance(p, ast.ExceptHandler):
            if p.name != name:
                return False
            t = getattr(p, "_parent", None)
            return isinstance(t, ast.Try) and any(_inside(attempt_node.ast, s) for s in t.body)
        p = getattr(p, "_parent", None)
    return False
