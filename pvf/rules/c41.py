"""C41 - known-hosts lookup, save and reload agree; loading is idempotent (partial)."""
import ast
import itertools
from ..core.model import AnalysisError, unparse, dotted, walk_no_defs
from ..core.flow import Flow
from ..core.interp import Interp, Obj, Refuse
from ..core import match as M

MUTATORS = ("remove", "append", "pop", "insert", "extend", "clear", "sort", "reverse", "__delitem__")


def _all_funcs_of_module(prog, modname):
    """every def in the module, including methods of classes nested in functions (SubDict)."""
    m = prog.module(modname)
    return [n for n in ast.walk(m.tree) if isinstance(n, ast.FunctionDef)]


def _aliases(fnode):
    """{name: expr text} for plain `name = <attribute/name>` assignments (no copy made)."""
    out = {}
    for n in walk_no_defs(fnode):
        if isinstance(n, ast.Assign) and len(n.targets) == 1 and isinstance(n.targets[0], ast.Name) \
                and isinstance(n.value, (ast.Attribute, ast.Name)):
            out[n.targets[0].id] = unparse(n.value)
    return out


def run(prog, chk):
    chk.explanation = (
        "Partial: idempotence and lookup equality as behaviours over arbitrary files are not decided. Decided: (R1) no "
        "list is mutated - directly or through an alias - while a for-loop iterates it, anywhere in hostkeys.py, "
        "unless the loop is left at once (CPython iterates by index: removing skips the next element); this is the "
        "defect that made reloading a multi-host line leave duplicate entries (found here, fixed). (R2) line writer / "
        "reader agreement between HostKeyEntry.to_line and from_line: three space-separated fields names, key type, "
        "base64 in the same order, names joined / split on ','; the constructor receives (names, key). (R3) "
        "_hostname_matches is evaluated from its AST over the complete quotient of its inputs (each stored name is "
        "plain-equal / plain-other / hashed-of-this-host / hashed-of-another / hashed-and-literally-equal; the query is "
        "plain or hashed; all name lists up to length 3): true iff some stored name equals the query or is the hash of "
        "a plain query, compared with the constant-time comparator; hash_host re-derives the salt from the field of "
        "the stored form it writes it to. (R4) first entry per key type: lookup collects matching entries in file "
        "order, SubDict.__getitem__ returns the first of the type, check compares asbytes() of exactly that entry. "
        "(R5) save writes every entry's line in order. (R6) the duplicate suppression of load is evaluated from its "
        "AST over all known/unknown patterns of up to 4 hostnames per line: exactly the unknown names stay, in "
        "order, and the entry is kept iff one stays.")
    chk.assumptions = ["PKey.from_type_string / get_base64 are inverses (C36)", "HMAC-SHA1 and base64 behave as documented"]
    mod = prog.module("hostkeys")

    # ============ R1 no mutation of an iterated list ===========================================================
    nloops = 0
    for fn in _all_funcs_of_module(prog, "hostkeys"):
        al = _aliases(fn)
        for lp in walk_no_defs(fn):
            if not isinstance(lp, ast.For):
                continue
            if not isinstance(lp.iter, (ast.Name, ast.Attribute)):
                continue
            nloops += 1
            it = unparse(lp.iter)
            same = {it, al.get(it, it)}
            same |= set(k for k, v in al.items() if v in same)
            bad = None
            for c in walk_no_defs(lp.body):      # the else clause runs after the iteration is over
                if isinstance(c, ast.Call) and isinstance(c.func, ast.Attribute) and c.func.attr in MUTATORS \
                        and unparse(c.func.value) in same:
                    # allowed when the loop is left right after the mutation
                    st = c
                    while not isinstance(st, ast.stmt):
                        st = st._parent
                    body = st._parent.body if st in getattr(st._parent, "body", []) else getattr(st._parent, "orelse", [])
                    idx = body.index(st) if st in body else -1
                    nxt = body[idx + 1] if 0 <= idx < len(body) - 1 else None
                    if isinstance(nxt, (ast.Break, ast.Return)):
                        continue
                    bad = c
            owner = fn.name
            p = getattr(fn, "_parent", None)
            while p is not None and not isinstance(p, ast.ClassDef):
                p = getattr(p, "_parent", None)
            cname = p.name if p is not None else "hostkeys"
            chk.ob("R1.no-mutation-of-iterated-list", "%s.%s:for-%s" % (cname, owner, it), bad is None, "%s:%d" % (mod.path, lp.lineno),
                   "loop over %s%s" % (it, "" if bad is None else "; the body calls %s on the same list (alias set %s) and goes on iterating"
                                       % (unparse(bad)[:60], sorted(same))))
    chk.floor("R1", "for-loops over named lists in hostkeys.py", nloops, 10)

    # ============ R2 line writer / reader ======================================================================
    tl = prog.func("HostKeyEntry.to_line")
    fmt = [c for c in walk_no_defs(tl.node) if M.is_call(c, attr="format") and isinstance(c.func.value, ast.Constant)]
    if len(fmt) != 1:
        raise AnalysisError("HostKeyEntry.to_line", "format call not found")
    fs = fmt[0].func.value.value
    args = [unparse(a) for a in fmt[0].args]
    chk.ob("R2.line-writer", "to_line", fs == "{} {} {}\n" and args == ["','.join(self.hostnames)", "self.key.get_name()", "self.key.get_base64()"],
           tl.loc, "writes %r %% %s" % (fs, args))
    frl = prog.func("HostKeyEntry.from_line")
    ff = Flow(prog, frl, implicit=False)
    sp = [c for c in walk_no_defs(frl.node) if M.is_call(c, name="re.split")]
    oksp = len(sp) == 1 and isinstance(sp[0].args[0], ast.Constant) and sp[0].args[0].value in (" |\t", "[ \t]") and unparse(sp[0].args[1]) == frl.params()[1]
    unp = [n for n in walk_no_defs(frl.node) if isinstance(n, ast.Assign) and isinstance(n.targets[0], ast.Tuple) and len(n.targets[0].elts) == 3]
    okun = len(unp) == 1
    names = ktype = kb64 = None
    if okun:
        names, ktype, kb64 = [unparse(e) for e in unp[0].targets[0].elts]
        src = ff.expand_text(unp[0].value, [n for n in ff.cfg.nodes_for(unp[0])][0], depth=1)
        okun = any(s.endswith("[:3]") for s in src)
    chk.ob("R2.line-reader", "from_line:split", oksp and okun, frl.loc, "splits on blank/tab and takes the first three fields as (%s, %s, %s)" % (names, ktype, kb64))
    nsplit = [n for n in walk_no_defs(frl.node) if isinstance(n, ast.Assign) and unparse(n.targets[0]) == names and unparse(n.value) == "%s.split(',')" % names]
    chk.ob("R2.line-reader", "from_line:names", len(nsplit) == 1, frl.loc, "names are split on ',' (the writer joins with ',')")
    cons = [c for c in walk_no_defs(frl.node) if M.is_call(c, name=frl.params()[0])]
    okc = len(cons) == 1 and len(cons[0].args) == 2 and unparse(cons[0].args[0]) == names and M.is_call(cons[0].args[1], name="PKey.from_type_string")
    if okc:
        a = cons[0].args[1].args
        kd = ff.expand_text(a[1], [n for n in ff.cfg.node_containing(cons[0]) if n.id in ff.live][0], depth=1) if len(a) == 2 else []
        okc = len(a) == 2 and unparse(a[0]) == ktype and kd == ["decodebytes(b(%s))" % kb64]
    chk.ob("R2.line-reader", "from_line:key", okc, frl.loc, "entry = cls(names, PKey.from_type_string(key_type, base64-decoded third field))")
    init = prog.func("HostKeyEntry.__init__")
    ip = init.params()
    from ..core.flow import attr_writes
    w = dict((t.attr, unparse(v)) for (s, t, v) in attr_writes(init.node) if v is not None)
    chk.ob("R2.entry-constructor", "HostKeyEntry.__init__", ip[1:3] == ["hostnames", "key"] and w.get("hostnames") == "hostnames" and w.get("key") == "key" and
           w.get("valid") == "hostnames is not None and key is not None", init.loc, "stores %s" % w)

    # ============ R3 _hostname_matches over the complete quotient ===============================================
    hm = prog.func("HostKeys._hostname_matches")
    hp = hm.params()
    QP, QH = "query.example", "|1|saltQ|hashQ"
    # classes of a stored name relative to a plain query QP / hashed query QH
    stored_classes = {
        "plain-equal": lambda q: q if not q.startswith("|1|") else None,
        "plain-other": lambda q: "other.example",
        "hashed-of-query": lambda q: "|1|saltA|hashOf(%s)" % q if not q.startswith("|1|") else None,
        "hashed-of-other": lambda q: "|1|saltB|hashOfOther",
        "hashed-literal-equal": lambda q: q if q.startswith("|1|") else None,
    }

    def hash_host(hostname, salt=None):
        if salt is None or not salt.startswith("|1|"):
            raise Refuse(None, "hash_host called with salt %r (want the stored hashed form)" % (salt,))
        s = salt.split("|")[2]
        return "|1|%s|hashOf(%s)" % (s, hostname) if salt.endswith("hashOf(%s)" % hostname) else "|1|%s|hashOfX(%s)" % (s, hostname)
    bad = None
    ncase = 0
    for q in (QP, QH):
        cl = [(k, f(q)) for k, f in sorted(stored_classes.items()) if f(q) is not None]
        for L in range(0, 4):
            for seq in itertools.product(cl, repeat=L):
                ncase += 1
                hostnames = [v for (k, v) in seq]
                calls = []

                def cteq(a, b, calls=calls):
                    calls.append((a, b))
                    return a == b
                it = Interp(intrinsics={"self.hash_host": hash_host, "constant_time_bytes_eq": cteq}, arith=False)
                kind, val = it.call_function(hm.node, {hp[0]: Obj(), hp[1]: q, hp[2]: Obj(hostnames=hostnames)})
                want = any(h == q or (h.startswith("|1|") and not q.startswith("|1|") and h.endswith("hashOf(%s)" % q)) for h in hostnames)
                if (kind != "return" or bool(val) != want) and bad is None:
                    bad = "stored names %s, query %s -> %s %r, want %s" % ([k for (k, v) in seq], "hashed" if q == QH else "plain", kind, val, want)
    chk.count("R3 name-class sequences evaluated", ncase)
    chk.ob("R3.hostname-matching", "_hostname_matches", bad is None, hm.loc,
           "%d cases%s" % (ncase, "" if bad is None else "; first failing: " + bad))
    cmpc = [c for c in walk_no_defs(hm.node) if isinstance(c, ast.Call) and dotted(c.func) and "hash_host" in unparse(c)]
    ct = [c for c in walk_no_defs(hm.node) if M.is_call(c, name="constant_time_bytes_eq")]
    chk.ob("R3.hashed-compare-constant-time", "_hostname_matches", len(ct) >= 1 and all("hash_host" in unparse(c) for c in ct), hm.loc,
           "the hash of the query is compared with the stored form by constant_time_bytes_eq")
    hh = prog.func("HostKeys.hash_host")
    fmt = [c for c in walk_no_defs(hh.node) if M.is_call(c, attr="format") and isinstance(c.func.value, ast.Constant)]
    okf = len(fmt) == 1 and fmt[0].func.value.value == "|1|{}|{}" and len(fmt[0].args) == 2 and "salt" in unparse(fmt[0].args[0]) and "hmac" in unparse(fmt[0].args[1])
    spl = [n for n in walk_no_defs(hh.node) if isinstance(n, ast.Assign) and unparse(n.value) == "salt.split('|')[2]"]
    oks = len(spl) == 1
    mac = [c for c in walk_no_defs(hh.node) if M.is_call(c, name="HMAC")]
    okm = len(mac) == 1 and [unparse(a) for a in mac[0].args] == ["salt", "b(%s)" % hh.params()[0], "sha1"]
    chk.ob("R3.hash-host-format-and-salt-field-agree", "hash_host", okf and oks and okm, hh.loc,
           "writes |1|<salt>|<hmac>, re-reads the salt as field 2 of a stored form, HMAC-SHA1(salt, hostname)")

    # ============ R4 first entry per key type =====================================================================
    lk = prog.func("HostKeys.lookup")
    coll = [n for n in lk.node.body if isinstance(n, ast.For)]
    okl = len(coll) == 1 and unparse(coll[0].iter) == "self._entries"
    if okl:
        e = unparse(coll[0].target)
        b = coll[0].body
        okl = len(b) == 1 and isinstance(b[0], ast.If) and unparse(b[0].test) == "self._hostname_matches(%s, %s)" % (lk.params()[1], e) \
            and len(b[0].body) == 1 and unparse(b[0].body[0]) == "entries.append(%s)" % e and not b[0].orelse
    chk.ob("R4.lookup-collects-matching-entries-in-order", "lookup", okl, lk.loc,
           "for e in self._entries: if self._hostname_matches(hostname, e): entries.append(e)")
    rets = [r for r in walk_no_defs(lk.node) if isinstance(r, ast.Return)]
    rt = sorted(unparse(r.value) for r in rets)
    chk.ob("R4.lookup-result", "lookup", rt == ["None", "SubDict(%s, entries, self)" % lk.params()[1]], lk.loc, "returns %s" % rt)
    sub = [n for n in ast.walk(lk.node) if isinstance(n, ast.ClassDef) and n.name == "SubDict"]
    if len(sub) != 1:
        raise AnalysisError("HostKeys.lookup", "nested SubDict class not found")
    meths = dict((m.name, m) for m in sub[0].body if isinstance(m, ast.FunctionDef))
    gi = meths.get("__getitem__")
    okg = gi is not None
    if okg:
        kp = gi.args.args[1].arg
        fl_ = [n for n in gi.body if isinstance(n, ast.For)]
        okg = len(fl_) == 1 and unparse(fl_[0].iter) == "self._entries" and len(fl_[0].body) == 1 and isinstance(fl_[0].body[0], ast.If) \
            and unparse(fl_[0].body[0].test) in ("%s.key.get_name() == %s" % (unparse(fl_[0].target), kp),) \
            and len(fl_[0].body[0].body) == 1 and unparse(fl_[0].body[0].body[0]) == "return %s.key" % unparse(fl_[0].target)
        okg = okg and isinstance(gi.body[-1], ast.Raise) and unparse(gi.body[-1].exc).startswith("KeyError")
    chk.ob("R4.first-entry-of-a-type-wins", "SubDict.__getitem__", okg, "%s:%d" % (mod.path, gi.lineno if gi else lk.node.lineno),
           "returns the key of the first collected entry whose type matches, KeyError otherwise")
    si = meths.get("__init__")
    oki = si is not None and "self._entries = entries" in unparse(si)
    chk.ob("R4.subdict-holds-the-collected-entries", "SubDict.__init__", oki, "%s:%d" % (mod.path, si.lineno if si else 0), "self._entries = entries")
    chk.ob("R4.subdict-get-is-mapping-default", "SubDict", "get" not in meths and [unparse(b) for b in sub[0].bases] == ["MutableMapping"],
           "%s:%d" % (mod.path, sub[0].lineno), "SubDict(MutableMapping) does not override get(): get() is __getitem__ with a default")
    ck = prog.func("HostKeys.check")
    fc = Flow(prog, ck, implicit=False)
    cp_ = ck.params()
    crets = fc.nodes(lambda n: n.kind == "return")
    final = [r for r in crets if not (isinstance(r.ast.value, ast.Constant))]
    okc = len(final) == 1
    detail = "returns %s" % [unparse(r.ast.value) for r in crets]
    if okc:
        alts = fc.expand_text(final[0].ast.value, final[0], depth=3)
        want = ["self.lookup(%s).get(%s.get_name(), None).asbytes() == %s.asbytes()" % (cp_[1], cp_[2], cp_[2])]
        eff = "self.lookup(%s).get(%s.get_name(), None)" % (cp_[1], cp_[2])
        okc = alts == want or alts == ["self.lookup(%s)[%s.get_name()].asbytes() == %s.asbytes()" % (cp_[1], cp_[2], cp_[2])] \
            or alts in (["%s == %s" % (eff, cp_[2])], ["%s == %s" % (cp_[2], eff)])   # PKey.__eq__ compares the public fields
        detail = "the non-constant return is %s" % alts
        okc = okc and all(r.ast.value.value is False for r in crets if r is not final[0])
    chk.ob("R4.check-compares-the-effective-entry", "check", okc, ck.loc, detail)

    # ============ R5 save ==============================================================================================
    sv = prog.func("HostKeys.save")
    loops = [n for n in walk_no_defs(sv.node) if isinstance(n, ast.For)]
    oks = len(loops) == 1 and unparse(loops[0].iter) == "self._entries" and not any(isinstance(x, (ast.Break, ast.Continue, ast.Return)) for x in walk_no_defs(loops[0]))
    if oks:
        e = unparse(loops[0].target)
        lines = [n for n in walk_no_defs(loops[0]) if isinstance(n, ast.Assign) and unparse(n.value) == "%s.to_line()" % e]
        writes = [c for c in walk_no_defs(loops[0]) if M.is_call(c, attr="write")]
        oks = len(lines) == 1 and len(writes) == 1 and unparse(writes[0].args[0]) == unparse(lines[0].targets[0])
    chk.ob("R5.save-writes-every-entry-in-order", "save", oks, sv.loc, "for e in self._entries: write(e.to_line()) when it has one")

    # ============ R6 load: duplicate suppression ===========================================================================
    ld = prog.func("HostKeys.load")
    blocks = [n for n in walk_no_defs(ld.node) if isinstance(n, ast.If) and unparse(n.test) == "entry is not None"]
    if len(blocks) != 1:
        raise AnalysisError("HostKeys.load", "`if entry is not None:` block not found")
    bad = None
    ncase = 0
    for L in range(1, 5):
        for known in itertools.product((True, False), repeat=L):
            ncase += 1
            names = ["h%d" % i for i in range(L)]
            tab = dict(zip(names, known))
            KEY = Obj()

            def check(h, key, tab=tab, KEY=KEY):
                if key is not KEY or h not in tab:
                    raise Refuse(None, "check called with unexpected arguments (%r)" % (h,))
                return tab[h]
            entry = Obj(hostnames=list(names), key=KEY)
            selfo = Obj(_entries=[])
            it = Interp(intrinsics={"self.check": check}, arith=False)
            it.block(blocks[0].body, {"self": selfo, "entry": entry})
            stay = [h for h in names if not tab[h]]
            got = [x.hostnames for x in selfo._entries]
            want = [stay] if stay else []
            if got != want and bad is None:
                bad = "line with names %s of which %s are already known with this key -> entries %s, want %s" % (names, [h for h in names if tab[h]], got, want)
    chk.count("R6 known/unknown patterns evaluated", ncase)
    chk.ob("R6.reload-keeps-exactly-the-unknown-names", "load", bad is None, ld.loc, "%d patterns%s" % (ncase, "" if bad is None else "; first failing: " + bad))
    skip = [h for h in walk_no_defs(ld.node) if isinstance(h, ast.ExceptHandler)]
    chk.ob("R6.load-skips-invalid-lines", "load", len(skip) == 1 and unparse(skip[0].type) == "SSHException" and all(isinstance(s, ast.Continue) for s in skip[0].body),
           ld.loc, "a line that fails to parse is skipped, the rest is still read")
    _add_replaces_same_type_only(prog, chk)
    _to_line_from_current_fields(prog, chk)


def _add_replaces_same_type_only(prog, chk):
    """R5: HostKeys.add(hostname, keytype, key) replaces the key of an entry that lists the host AND holds a key of that
    type; in every other case the new (host, key) is appended - evaluated over all placements of one or two existing
    entries from {lists the host / does not} x {same type / other type}.  Otherwise a second key type for a known host is
    silently dropped and lookup, check and save disagree with what the caller added."""
    f = prog.func("HostKeys.add")
    ps = f.params()
    kinds = [(h, t) for h in (True, False) for t in (True, False)]
    bad = None
    n = 0
    for k in (1, 2):
        for combo in itertools.product(kinds, repeat=k):
            n += 1
            entries = []
            for (lists, same) in combo:
                ktype = "ssh-ed25519" if same else "ssh-rsa"
                entries.append(Obj(hostnames=["host.example"] if lists else ["other.example"], key=Obj(name=ktype, get_name=(lambda ktype=ktype: ktype), tag="old")))
            before = [(tuple(e.hostnames), e.key.tag) for e in entries]
            selfo = Obj(_entries=entries)
            newkey = Obj(name="ssh-ed25519", get_name=lambda: "ssh-ed25519", tag="new")
            made = []

            def mk(names, key, made=made):
                o = Obj(hostnames=list(names), key=key)
                made.append(o)
                return o
            it = Interp(intrinsics={"HostKeyEntry": mk}, arith=False)
            try:
                kind, val = it.call_function(f.node, {ps[0]: selfo, ps[1]: "host.example", ps[2]: "ssh-ed25519", ps[3]: newkey})
            except Refuse as e:
                raise AnalysisError("HostKeys.add", "not evaluable: %s" % (e,))
            hit = [i for i, (lists, same) in enumerate(combo) if lists and same]
            after = [(tuple(e.hostnames), e.key.tag) for e in selfo._entries]
            if hit:
                want = list(before)
                want[hit[0]] = (before[hit[0]][0], "new")
            else:
                want = before + [(("host.example",), "new")]
            if (kind != "return" or after != want) and bad is None:
                bad = "existing entries %s: afterwards %s, want %s" % (["%s/%s" % ("lists-host" if l else "other-host", "same-type" if s_ else "other-type") for (l, s_) in combo], after, want)
    chk.ob("R5.add-replaces-same-host-and-type-only", "HostKeys.add", bad is None, f.loc, "%d placements evaluated%s" % (n, "" if bad is None else "; first failing: " + bad))


def _to_line_from_current_fields(prog, chk):
    """R2b: what save() writes for an entry is computed from the entry's *current* names and key.  The line writer reads no
    other state of the entry (a remembered copy of the text it was parsed from goes stale as soon as add() / a SubDict
    assignment replaces the key, and the old key comes back on reload)."""
    f = prog.func("HostKeyEntry.to_line")
    reads = sorted(set(x.attr for x in walk_no_defs(f.node) if isinstance(x, ast.Attribute) and isinstance(x.value, ast.Name) and x.value.id == f.params()[0]))
    allowed = {"valid", "hostnames", "key"}
    extra = [r for r in reads if r not in allowed]
    chk.ob("R2.line-written-from-current-fields", "HostKeyEntry.to_line", not extra and {"hostnames", "key"} <= set(reads), f.loc,
           "reads self.%s%s" % (", self.".join(reads), "" if not extra else " - %s is not the entry's current names / key" % extra))
