"""C29 - SFTP bulk transfers are exact or fail loudly (partial: the 'fail loudly' half)."""
import ast
from ..core.model import AnalysisError, unparse, dotted, walk_no_defs
from ..core.consts import Folder
from ..core.flow import Flow, node_calls
from ..core import match as M


def run(prog, chk):
    fold = Folder(prog)
    chk.explanation = (
        "Partial: byte-exactness of a transfer is a runtime-value property and is not decided. Decided - the "
        "error discipline: (R1) every write status is examined: a response is examined iff _read_response(n) "
        "is called for its number or it was registered with a file object whose _async_response converts the "
        "status and whose _check_exception is called later; for each CMD_WRITE issued by SFTPFile._write the "
        "registration sink and the drain in _close must be the same object (violated today: known finding); "
        "(R2) _convert_status returns normally only for SFTP_OK, EOFError only for SFTP_EOF, IOError for every "
        "other code; (R3) the unpipelined write awaits each request at once and raises on a non-STATUS reply, "
        "_read raises on a non-DATA reply, errors saved by _async_response (every non-OK status, any exception "
        "class) are re-raised by _check_exception inside the prefetch wait loop; (R4) the transfer loop writes "
        "every chunk it read, stops only on an empty read and returns the sum of the chunk lengths; putfo "
        "leaves the `with` (closing the remote file) before the confirming stat and raises on a size mismatch, "
        "get raises on a size mismatch.")
    chk.assumptions = ["the server answers every request (C30)"]
    # R1 ---------------------------------------------------------------------------------
    wr = prog.func("SFTPFile._write")
    fl = Flow(prog, wr, implicit=False)
    reqs = [(n, c) for (n, c) in fl.nodes_with_call(attr="_async_request") if len(c.args) > 1 and unparse(c.args[1]) == "CMD_WRITE"]
    if len(reqs) != 1:
        raise AnalysisError("SFTPFile._write", "expected one CMD_WRITE request")
    n, c = reqs[0]
    sink = unparse(c.args[0])
    cl = prog.func("SFTPFile._close")
    fcl = Flow(prog, cl, env={"self.pipelined": True}, implicit=False)
    drains = [unparse(k.args[0]) for (x, k) in fcl.nodes_with_call(attr="_finish_responses") if k.args]
    reqdrain = any(M.is_call(k, attr="_read_response") and k.args for k in walk_no_defs(cl.node))
    ok = (sink == "self" and "self" in drains) or (sink == "type(None)" and reqdrain)
    chk.ob("R1.write-status-examined", "SFTPFile._write", ok, fl.where(n),
           "pipelined CMD_WRITE registered with sink %s, _close drains %s%s" % (
               sink, drains or "nothing", "" if ok else
               ": _read_response silently drops responses whose sink is type(None), and _finish_responses(self) waits for responses "
               "registered under the file - so a write the server rejected is never reported"))
    # once _write starts collecting, it collects every queued status: the drain loop over self._reqs has no other way out
    # than the queue running empty or an error (a `break` leaves later - possibly rejecting - statuses unexamined)
    loops = [lp for lp in walk_no_defs(wr.node) if isinstance(lp, ast.While) and "self._reqs" in unparse(lp.test)]
    if not loops:
        chk.ob("R1.drain-collects-every-queued-status", "SFTPFile._write#none", False, wr.loc, "no loop collects the queued statuses of SFTPFile._write at all")
    for i, lp in enumerate(loops):
        early = [x for st in lp.body for x in ast.walk(st) if isinstance(x, (ast.Break, ast.Return))]
        reads = [x for st in lp.body for x in ast.walk(st) if M.is_call(x, attr="_read_response")]
        pops = [x for st in lp.body for x in ast.walk(st) if M.is_call(x, name="self._reqs.popleft") or M.is_call(x, name="self._reqs.pop")]
        chk.ob("R1.drain-collects-every-queued-status", "SFTPFile._write#%d" % i, not early and len(reads) == 1 and len(pops) == 1 and not lp.orelse, fl.where(lp),
               "while %s: %d early exit(s), %d _read_response, %d dequeue(s)" % (unparse(lp.test), len(early), len(reads), len(pops)))
    # the file object's async hook converts status and close re-raises
    from ._shared import async_status_discipline
    d = async_status_discipline(prog)
    ok = d["ok_saved"] and set(d["absorbed"]) <= {"EOFError"} and (not d["absorbed"] or d["unregisters"])
    # an EOF status must not be *saved*: _check_exception would re-raise EOFError wherever the reader happens to wait and
    # BufferedFile.read takes EOFError from _read for the end of the file - the copy stops short without an error
    chk.ob("R3.async-eof-status-not-saved", "SFTPFile._async_response", d["absorbed"] == ["EOFError"] and d["unregisters"], d["loc"],
           "an EOFError from _convert_status is caught before the catch-all and only passed over (absorbed: %s; %s)" % (d["absorbed"] or "nothing", d["detail"]))
    chk.ob("R3.async-status-saved", "SFTPFile._async_response", ok, d["loc"],
           "every error status of an async response is saved (whatever its class) for the next file operation%s; %s" % (
               "" if not d["absorbed"] else " - except %s, which is left to the ordinary read the reader falls back to (allowed only "
               "because every reply unregisters its request: %s)" % (d["absorbed"], d["unregisters"]), d["detail"]))
    ce = prog.func("SFTPFile._check_exception")
    t = unparse(ce.node)
    chk.ob("R3.saved-exception-reraised", "SFTPFile._check_exception", "raise x" in t and "self._saved_exception = None" in t, ce.loc, "raises and clears the saved exception")
    fr = prog.func("SFTPClient._finish_responses")
    ff = Flow(prog, fr, implicit=False)
    chkx = [x for (x, k) in ff.nodes_with_call(attr="_check_exception")]
    rdr = [x for (x, k) in ff.nodes_with_call(attr="_read_response")]
    ok = len(chkx) == 1 and len(rdr) == 1 and not [k for (x, k) in ff.nodes_with_call(attr="_read_response") if k.args]
    heads = [h for h in ff.cfg.nodes if h.kind == "loop_head"]
    ok = ok and len(heads) == 1 and unparse(heads[0].ast.test) == "%s in self._expecting.values()" % fr.params()[1]
    chk.ob("R1.finish-responses", "SFTPClient._finish_responses", ok, fr.loc, "reads until nothing registered under the file is outstanding, re-raising saved errors")
    # R2 ---------------------------------------------------------------------------------
    cs = prog.func("SFTPClient._convert_status")
    fc = Flow(prog, cs, implicit=False)
    rets = fc.nodes(lambda x: x.kind == "return")
    g_ok = fc.edge_guard(lambda t_: unparse(t_) == "code == SFTP_OK", "T")
    ok = len(rets) == 1 and fc.dominated(rets, guard_edge=g_ok) and fc.dominated([fc.cfg.exit], guard_edge=g_ok)
    chk.ob("R2.only-ok-returns", "_convert_status", ok, cs.loc, "returns normally only under code == SFTP_OK")
    eofs = fc.nodes(lambda x: x.kind == "raise" and isinstance(x.ast, ast.Raise) and x.ast.exc is not None and "EOFError" in unparse(x.ast.exc))
    g_eof = fc.edge_guard(lambda t_: unparse(t_) == "code == SFTP_EOF", "T")
    ok = len(eofs) == 1 and fc.dominated(eofs, guard_edge=g_eof)
    chk.ob("R2.eof-only-for-eof", "_convert_status", ok, cs.loc, "EOFError only under code == SFTP_EOF (any other code must not look like end of file)")
    others = fc.nodes(lambda x: x.kind == "raise" and isinstance(x.ast, ast.Raise) and x.ast.exc is not None and "EOFError" not in unparse(x.ast.exc))
    ok = bool(others) and all(unparse(o.ast.exc.func) in ("IOError", "OSError") for o in others)
    cd = fc.defs("code", rets[0]) if rets else []
    ok = ok and len(cd) == 1 and unparse(cd[0][1]) == "msg.get_int()"
    chk.ob("R2.other-codes-raise-ioerror", "_convert_status", ok, cs.loc, "%d other raise site(s), all IOError; code <- msg.get_int()" % len(others))
    rr = prog.func("SFTPClient._read_response")
    frr = Flow(prog, rr, implicit=False)
    cv = [x for (x, k) in frr.nodes_with_call(name="self._convert_status")]
    g = frr.edge_guard(lambda t_: unparse(t_) == "num == waitfor", "T")
    g2 = frr.edge_guard(lambda t_: unparse(t_) == "t == CMD_STATUS", "T")
    synret = frr.nodes(lambda x: x.kind == "return" and isinstance(x.ast.value, ast.Tuple) and unparse(x.ast.value) == "(t, msg)")
    ok = len(cv) == 1 and frr.dominated(cv, guard_edge=g) and frr.dominated(cv, guard_edge=g2) and len(synret) == 1
    f2 = Flow(prog, rr, env={"num == waitfor": True, "t == CMD_STATUS": True}, implicit=False)
    c2 = [x for (x, k) in f2.nodes_with_call(name="self._convert_status")]
    r2 = f2.nodes(lambda x: x.kind == "return" and isinstance(x.ast.value, ast.Tuple) and unparse(x.ast.value) == "(t, msg)")
    ok = ok and bool(c2) and f2.dominated(r2, guard_nodes=c2)
    chk.ob("R2.awaited-status-converted", "_read_response", ok, rr.loc, "a STATUS answer to the awaited request goes through _convert_status before it is returned")
    # R3 ---------------------------------------------------------------------------------
    fu = Flow(prog, wr, env={"self.pipelined": False}, implicit=False)
    waits = [(x, k) for (x, k) in fu.nodes_with_call(attr="_read_response")]
    # the drain loop `while len(self._reqs): req = popleft(); _read_response(req)` is on every path (it runs
    # at least once: the request was just appended)
    dl = [h for h in fu.cfg.nodes if h.kind == "loop_head" and unparse(h.ast.test) in ("len(self._reqs)", "self._reqs", "len(self._reqs) > 0")]
    app = [x for (x, k) in fu.nodes_with_call(name="self._reqs.append")]
    ok = len(waits) == 1 and len(dl) == 1 and fu.exit_dominated(guard_nodes=dl) and bool(app) and fu.dominated(dl, guard_nodes=app) and \
        waits[0][0].id in fu.cfg.reach([dl[0].id]) and dl[0].id in fu.cfg.reach([waits[0][0].id])
    rs = fu.nodes(lambda x: x.kind == "raise")
    ok = ok and any(fu.dominated([r], guard_edge=fu.edge_guard(lambda t_: unparse(t_) == "t != CMD_STATUS", "T")) for r in rs)
    chk.ob("R3.unpipelined-write-awaited", "SFTPFile._write", ok, wr.loc, "not pipelined: every request awaited before returning; non-STATUS reply raises")
    rets = fu.nodes(lambda x: x.kind == "return")
    ck = [unparse(r.ast.value) for r in rets]
    cdef = fu.defs("chunk", rets[0]) if rets else []
    sent = unparse(c.args[-1])
    ok = ck == ["chunk"] and len(cdef) == 1 and sent == "data[:chunk]"
    chk.ob("R3.write-returns-what-it-sent", "SFTPFile._write", ok, wr.loc, "returns chunk, having sent %s" % sent)
    rd = prog.func("SFTPFile._read")
    frd = Flow(prog, rd, implicit=False)
    rs = frd.nodes(lambda x: x.kind == "raise")
    ok = any(frd.dominated([r], guard_edge=frd.edge_guard(lambda t_: unparse(t_) == "t != CMD_DATA", "T")) for r in rs)
    chk.ob("R3.read-checks-reply-type", "SFTPFile._read", ok, rd.loc, "non-DATA reply raises")
    rp = prog.func("SFTPFile._read_prefetch")
    fp = Flow(prog, rp, implicit=False)
    rdn = [x for (x, k) in fp.nodes_with_call(attr="_read_response")]
    cx = [x for (x, k) in fp.nodes_with_call(name="self._check_exception")]
    ok = len(rdn) == 1 and len(cx) == 1
    if ok:
        succ = [d for (d, l) in fp.cfg.succ[rdn[0].id]]
        ok = fp.cfg.dominated([rdn[0].id, fp.cfg.exit.id], guard_nodes=[cx[0].id], start=succ)
    chk.ob("R3.prefetch-loop-reraises", "SFTPFile._read_prefetch", ok, rp.loc, "after every response read in the wait loop the saved exception is re-raised")
    # R4 ---------------------------------------------------------------------------------
    tw = prog.func("SFTPClient._transfer_with_callback")
    ft = Flow(prog, tw, implicit=False)
    rdc = [(x, k) for (x, k) in ft.nodes_with_call(name="reader.read")]
    wrc = [(x, k) for (x, k) in ft.nodes_with_call(name="writer.write")]
    ok = len(rdc) == 1 and len(wrc) == 1 and isinstance(rdc[0][0].ast, ast.Assign)
    if ok:
        dv = unparse(rdc[0][0].ast.targets[0])
        ok = unparse(wrc[0][1].args[0]) == dv
        succ = [d for (d, l) in ft.cfg.succ[rdc[0][0].id]]
        # every chunk read is written before the next read or the return
        ok = ok and ft.cfg.dominated([rdc[0][0].id, ft.cfg.exit.id], guard_nodes=[wrc[0][0].id], start=succ)
        acc = ft.nodes(lambda x: x.kind == "stmt" and isinstance(x.ast, ast.AugAssign) and unparse(x.ast.value) == "len(%s)" % dv)
        ok = ok and len(acc) == 1 and ft.cfg.dominated([rdc[0][0].id, ft.cfg.exit.id], guard_nodes=[acc[0].id], start=succ)
        rets = ft.nodes(lambda x: x.kind == "return")
        ok = ok and len(rets) == 1 and acc and unparse(rets[0].ast.value) == unparse(acc[0].ast.target)
        # the loop is left only on an empty read
        brk = ft.nodes(lambda x: x.kind == "break")
        g = ft.edge_guard(lambda t_: unparse(t_) in ("len(%s) == 0" % dv, "not %s" % dv), "T")
        ok = ok and len(brk) == 1 and ft.dominated(brk, guard_edge=g) and ft.dominated(rets, guard_nodes=brk)
    chk.ob("R4.transfer-loop", "_transfer_with_callback", ok, tw.loc, "reads, writes that chunk, adds its length; stops only on an empty read; returns the sum")
    pf = prog.func("SFTPClient.putfo")
    fpf = Flow(prog, pf, env={"confirm": True}, implicit=False)
    stat = [x for (x, k) in fpf.nodes_with_call(name="self.stat")]
    wexit = fpf.nodes(lambda x: x.kind == "with_exit")
    rs = fpf.nodes(lambda x: x.kind == "raise")
    ok = len(stat) == 1 and bool(wexit) and fpf.dominated(stat, guard_nodes=wexit)
    ok = ok and any(fpf.dominated([r], guard_edge=fpf.edge_guard(lambda t_: unparse(t_) in ("s.st_size != size", "size != s.st_size"), "T")) for r in rs)
    chk.ob("R4.put-confirms-size", "putfo", ok, pf.loc, "remote file closed (with-exit) before the confirming stat; size mismatch raises")
    # ... on every path: with confirm on, the only way to the normal exit after the stat is the mismatch test coming out false
    def _mismatch(t_):
        return unparse(t_) in ("s.st_size != size", "size != s.st_size")

    def _match(t_):
        return unparse(t_) in ("s.st_size == size", "size == s.st_size")
    gF, gT = fpf.edge_guard(_mismatch, "F"), fpf.edge_guard(_match, "T")
    okall = len(stat) == 1 and fpf.cfg.dominated([fpf.cfg.exit.id], guard_edge=lambda s_, lab, d_: gF(s_, lab, d_) or gT(s_, lab, d_), avoid_edge=fpf.avoid,
                                                 start=[d for (d, lab) in fpf.cfg.succ[stat[0].id] if lab not in ("exc", "raise")])
    chk.ob("R4.put-confirms-size-on-every-path", "putfo", okall, pf.loc,
           "with confirm on, putfo returns normally only through `s.st_size != size` being false (a size the server does not report is a mismatch too)")
    # a dropped connection is never mistaken for end of file: BufferedFile.read treats EOFError from _read as EOF, so
    # _read_response must turn the EOFError of _read_packet into an SSHException on every path
    rr = prog.func("SFTPClient._read_response")
    tries = [t_ for t_ in walk_no_defs(rr.node) if isinstance(t_, ast.Try) and any(M.is_call(c, name="self._read_packet") for st in t_.body for c in ast.walk(st))]
    okc = len(tries) == 1
    detail = "no try around _read_packet"
    if okc:
        hs = [h for h in tries[0].handlers if h.type is None or "EOFError" in unparse(h.type) or unparse(h.type) in ("Exception", "BaseException")]
        okc = len(hs) >= 1
        detail = "handlers: %s" % [unparse(h.type) if h.type is not None else "bare" for h in tries[0].handlers]
        for h in hs[:1]:
            frr = Flow(prog, rr, implicit=True)      # the handler is live only through the implicit exception edge of the call
            inside = set(id(x) for st in h.body for x in ast.walk(st))
            nodes = [n for n in frr.cfg.nodes if n.id in frr.live and n.ast is not None and id(n.ast) in inside]
            raises = [n for n in nodes if n.kind == "raise"]
            conv = [n for n in raises if isinstance(n.ast, ast.Raise) and n.ast.exc is not None and "SSHException" in unparse(n.ast.exc)]
            other = [n for n in raises if n not in conv]
            ids = set(n.id for n in nodes)
            leaves = [n for n in nodes if n.kind != "raise" and any(d not in ids for (d, lab) in frr.cfg.succ[n.id] if lab not in ("exc", "raise"))]
            okc = bool(conv) and not other and not leaves
            detail = "%d converting raise(s), %d other raise(s), %d path(s) that carry on" % (len(conv), len(other), len(leaves))
    chk.ob("R2.dropped-connection-is-not-eof", "_read_response", okc, rr.loc, "EOFError from _read_packet -> SSHException on every path of the handler (%s)" % detail)
    gt = prog.func("SFTPClient.get")
    fg = Flow(prog, gt, implicit=False)
    rs = fg.nodes(lambda x: x.kind == "raise")
    ok = any(fg.dominated([r], guard_edge=fg.edge_guard(lambda t_: unparse(t_) in ("s.st_size != size", "size != s.st_size"), "T")) for r in rs)
    chk.ob("R4.get-confirms-size", "get", ok, gt.loc, "local size mismatch raises")
    # ... and against the size the server reported: a READ answered with the status EOF in mid-file ends the copy like
    # the real end does, so only a comparison of the byte count with stat().st_size can tell a truncated copy
    gf = prog.func("SFTPClient.getfo")
    fgf = Flow(prog, gf, implicit=False)
    szs = [unparse(n.ast.targets[0]) for n in fgf.nodes(lambda n: n.kind == "stmt" and isinstance(n.ast, ast.Assign) and M.is_call(getattr(n.ast.value, "value", None), name="self.stat")
                                                          and isinstance(n.ast.value, ast.Attribute) and n.ast.value.attr == "st_size")]
    cmpd = False
    for fq in (gf, gt):
        for c in walk_no_defs(fq.node):
            if isinstance(c, ast.Compare) and len(c.ops) == 1 and isinstance(c.ops[0], (ast.NotEq, ast.Eq, ast.Lt, ast.Gt)):
                sides = [unparse(c.left), unparse(c.comparators[0])]
                if any(sv in sides for sv in szs) or any(".st_size" in x and "self.stat(" in x for x in sides):
                    cmpd = True
    chk.ob("R4.get-confirms-remote-size", "getfo", bool(szs) and cmpd, gf.loc,
           "remote size %s from stat() is %s the number of bytes copied" % (szs or "?", "compared with" if cmpd else "never compared with"))
