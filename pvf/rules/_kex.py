"""Shared facts about the key-exchange engines (C06, C08, C07, C38)."""
import ast
from ..core.model import AnalysisError, unparse, dotted, walk_no_defs
from ..core.consts import Folder, is_sym
from ..core.flow import Flow, node_calls
from ..core.layout import Extractor, split_messages, read_events
from ..core import match as M

# family -> (client reply handler, server init handler)
FAMILIES = {
    "dh": ("_parse_kexdh_reply", "_parse_kexdh_init"),
    "gex": ("_parse_kexdh_gex_reply", "_parse_kexdh_gex_init"),
    "ecdh": ("_parse_kexecdh_reply", "_parse_kexecdh_init"),
}
BASES = {"KexGroup1": "dh", "KexGex": "gex", "KexNistp256": "ecdh", "KexCurve25519": "x25519"}


def engines(prog, fold, include_gss=False):
    """[(algorithm name, class name, family)] from Transport._kex_info."""
    ki = fold.class_env("Transport").get("_kex_info")
    if not isinstance(ki, dict) or not ki:
        raise AnalysisError("Transport._kex_info", "table not foldable")
    out = []
    for name, v in sorted(ki.items()):
        if not (is_sym(v) and v.text.startswith("class:")):
            raise AnalysisError("Transport._kex_info[%s]" % name, "not a class")
        cn = v.text[6:]
        if cn.startswith("KexGSS"):
            if include_gss:
                out.append((name, cn, "gss"))
            continue
        fam = None
        for k in prog.mro(cn):
            if k.name in BASES:
                fam = BASES[k.name]
                break
        if fam is None:
            raise AnalysisError("kex engine " + cn, "unknown family")
        out.append((name, cn, fam))
    return out


def handlers(prog, cn, fam):
    """(client handler FuncInfo, server handler FuncInfo) resolved via MRO."""
    c, s = FAMILIES["ecdh" if fam == "x25519" else fam]
    return prog.method(cn, c), prog.method(cn, s)


class HashLayout(object):
    """The exchange-hash message of one handler: fields classified into slots."""

    def __init__(self, prog, finfo, role):
        self.prog = prog
        self.f = finfo
        self.role = role
        self.fl = Flow(prog, finfo)
        self.mparam = finfo.params()[1]
        self.alts = []   # list of dict(cond=..., slots=[(kind, slot, text)])
        self.problems = []
        self._extract()

    def node_at(self, pos):
        for n in self.fl.cfg.nodes:
            a = n.ast
            if a is None or n.kind in ("entry", "try", "loop_head", "def", "with_exit"):
                continue
            for x in walk_no_defs(a):
                if getattr(x, "lineno", None) == pos[0] and getattr(x, "col_offset", None) == pos[1] \
                        and isinstance(x, ast.expr):
                    return n, x
        return None, None

    def _extract(self):
        def condf(test):
            t = unparse(test)
            if "old_style" in t:
                return "old_style" if not t.startswith("not ") else "old_style"
            return None

        def condlabel(test):
            t = unparse(test)
            if t in ("self.old_style", "not self.old_style"):
                return t
            return None

        ex = Extractor(cond_filter=lambda t: "old_style" if condlabel(t) else None,
                       calls_of_interest=lambda name, c: name if name and (
                           name.endswith("._set_K_H") or name.endswith("._verify_key") or
                           name.endswith("._activate_outbound") or name.endswith(".sign_ssh_data")) else None)
        seen = set()
        for (ev, kind) in ex.function(self.f.node):
            if kind == "raise":
                continue
            rd = read_events(ev, self.mparam)
            # reads happen before the reply message re-uses the name `m`
            news = [i for i, e in enumerate(ev) if e[0] == "new" and e[1] == self.mparam]
            if news:
                cut = news[0]
                rd = read_events(ev[:cut], self.mparam)
            msgs = [m for m in split_messages(ev) if m["var"] != self.mparam]
            hm = [m for m in msgs if len(m["fields"]) >= 6]
            if len(hm) != 1:
                self.problems.append("expected one hash message, found %d" % len(hm))
                continue
            m = hm[0]
            conds = tuple(sorted(set((e[1], e[2]) for e in ev if e[0] == "cond")))
            # note: the If test is `not self.old_style`, label value True means "not old_style"
            slots = []
            idx = 0
            for (k, text) in m["fields"]:
                if k in ("loop", "endloop"):
                    slots.append((k, "?", text))
                    continue
                pos = m["pos"].get(idx)
                idx += 1
                slots.append((k,) + self.classify(pos, text, rd))
            key = (conds, tuple(slots))
            if key in seen:
                continue
            seen.add(key)
            self.alts.append({"conds": conds, "slots": slots, "reads": rd, "var": m["var"], "events": ev})

    def classify(self, pos, text, rd):
        node, expr = self.node_at(pos) if pos else (None, None)
        if expr is None:
            return ("?", text)
        alts = self.fl.expand(expr, node, depth=4)
        outs = set()
        for a in alts:
            t = unparse(a)
            outs.add(self._slot(a, t, rd))
        if len(outs) != 1:
            return ("ambiguous:%s" % sorted(outs), text)
        return (list(outs)[0], text)

    def _slot(self, a, t, rd):
        fixed = {"self.transport.local_version": "own_version", "self.transport.remote_version": "peer_version",
                 "self.transport.local_kex_init": "own_kexinit", "self.transport.remote_kex_init": "peer_kexinit",
                 "self.transport.get_server_key().asbytes()": "server_key_bytes",
                 "self.min_bits": "min", "self.preferred_bits": "n", "self.max_bits": "max",
                 "self.p": "p", "self.g": "g"}
        if t in fixed:
            return fixed[t]
        # value read from the incoming message
        if M.is_call(a) and isinstance(a.func, ast.Attribute) and unparse(a.func.value) == self.mparam \
                and a.func.attr.startswith("get_"):
            for i, (k, meth, pos) in enumerate(rd):
                if pos == (a.lineno, a.col_offset):
                    return "read%d" % i
            return "read?"
        if t in ("self.e", "self.f"):
            return "own_dh_public:" + t
        if t.startswith("self.Q_C.public_bytes(") or t.startswith("self.Q_S.public_bytes("):
            ok = "serialization.Encoding.X962" in t and "UncompressedPoint" in t
            return ("own_ec_public:" + t[:8]) if ok else "bad-encoding:" + t[:40]
        if t.startswith("self.key.public_key().public_bytes("):
            ok = t.count("Raw") == 2
            return "own_x_public" if ok else "bad-encoding:" + t[:40]
        # shared secret
        if M.is_call(a, name="pow") and len(a.args) == 3 and unparse(a.args[1]) == "self.x":
            base = unparse(a.args[0])
            mod = unparse(a.args[2])
            if (base, mod) in (("self.g", "self.p"), ("self.G", "self.P")):
                return "own_dh_public:computed"
            return "secret:pow(%s,x,%s)" % (self._slot(a.args[0], base, rd), mod)
        if M.is_call(a, name="int") and len(a.args) >= 1:
            inner = a.args[0]
            if M.is_call(inner, name="int"):
                inner = inner.args[0]
            if M.is_call(inner) and dotted(inner.func) in ("hexlify", "binascii.hexlify") and inner.args:
                ex = inner.args[0]
                def point(p):
                    if M.is_call(p) and dotted(p.func) == "ec.EllipticCurvePublicKey.from_encoded_point" \
                            and len(p.args) == 2 and unparse(p.args[0]) == "self.curve":
                        return "point(%s)" % self._slot(p.args[1], unparse(p.args[1]), rd)
                    if M.is_call(p) and dotted(p.func) == "X25519PublicKey.from_public_bytes" and len(p.args) == 1:
                        return "point(%s)" % self._slot(p.args[0], unparse(p.args[0]), rd)
                    return unparse(p)[:60]
                if M.is_call(ex, name="self.P.exchange") and len(ex.args) == 2 and unparse(ex.args[0]) == "ec.ECDH()":
                    return "secret:ecdh(%s)" % point(ex.args[1])
                if M.is_call(ex, name="self._perform_exchange") and len(ex.args) == 1:
                    return "secret:x25519(%s)" % point(ex.args[0])
        return "other:" + t[:60]
