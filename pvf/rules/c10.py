"""C10 - sessions are rekeyed; peers that refuse are dropped (partial)."""
import ast
from ..core.model import AnalysisError, unparse, dotted, walk_no_defs
from ..core.consts import Folder
from ..core.cfg import eval3
from ..core.flow import Flow, node_calls, attr_writes
from ..core import match as M


def compares_on(fnode, field):
    """Compare nodes `self.<field> OP X` anywhere in the function."""
    out = []
    for n in walk_no_defs(fnode):
        cp = M.compare_parts(n) if isinstance(n, ast.Compare) else None
        if cp and unparse(cp[0]) == "self." + field:
            out.append((n, cp[1], unparse(cp[2])))
    return out


def threshold_env(fnode, specs, chk, rule, where):
    """specs: [(field, limit const)].  Checks each comparison is `>=` against
    the class limit; returns an env making them all true (plus locals whose
    value is decided by them)."""
    env = {}
    for field, limit in specs:
        cs = compares_on(fnode, field)
        ok = len(cs) == 1 and cs[0][1] is ast.GtE and cs[0][2] == "self." + limit
        chk.ob(rule, "%s>=%s" % (field, limit), ok, where,
               "compared as %s" % [("%s %s" % (op.__name__, r)) for (_, op, r) in cs])
        for (n, op, r) in cs:
            env[unparse(n)] = True
    for n in walk_no_defs(fnode):
        if isinstance(n, ast.Assign) and len(n.targets) == 1 and isinstance(n.targets[0], ast.Name):
            v = eval3(n.value, env)
            if v is True and any(k in unparse(n.value) for k in list(env)):
                env[n.targets[0].id] = True
    return env


def counter_updates(fl, field, amount_pred):
    return fl.nodes(lambda n: n.kind == "stmt" and isinstance(n.ast, ast.AugAssign) and isinstance(n.ast.op, ast.Add)
                    and unparse(n.ast.target) == "self." + field and amount_pred(n.ast.value))


def once(fl, nodes):
    if not nodes or not fl.exit_dominated(guard_nodes=nodes):
        return False
    ids = set(n.id for n in nodes)
    for n in nodes:
        r = fl.cfg.reach([d for (d, l) in fl.cfg.succ[n.id]], avoid_edge=fl.avoid)
        if r & ids:
            return False
    return True


def run(prog, chk):
    fold = Folder(prog)
    chk.explanation = (
        "Partial. Decided (path rules, independent of the 2^29 thresholds that tests cannot reach): R1/R2 "
        "every sent/received packet adds its size and 1 to the counters exactly once, the counters are "
        "compared with >= against REKEY_*, and reaching the threshold without a pending rekey triggers "
        "one; while a rekey is pending inbound traffic is counted against the overflow allowance and "
        "reaching it raises SSHException; R3 installing new keys zeroes the matching counters and the "
        "pending flag is cleared only after both directions switched; R4 the run loop starts the "
        "exchange at its head before every read, and NeedRekeyException returns to the head; R5 "
        "NeedRekeyException only from an idle timeout on the first read of a packet; R6 in_kex cleared "
        "only when no rekey is pending. Not decided: that traffic continues intact, timing.")
    chk.assumptions = ["REKEY_* are class constants of Packetizer"]
    penv = fold.class_env("Packetizer")
    for k in ("REKEY_PACKETS", "REKEY_BYTES", "REKEY_PACKETS_OVERFLOW_MAX", "REKEY_BYTES_OVERFLOW_MAX"):
        v = penv.get(k)
        chk.ob("R0.threshold-constant", k, isinstance(v, int) and 0 < v <= 2 ** 31, prog.cls("Packetizer").module.path, "%s = %r" % (k, v))

    # R1 send ------------------------------------------------------------------------------
    sm = prog.func("Packetizer.send_message")
    fl = Flow(prog, sm)
    wa = fl.nodes_with_call(name="self.write_all")
    if len(wa) != 1:
        raise AnalysisError("Packetizer.send_message", "expected one write_all call")
    outv = unparse(wa[0][1].args[0])
    ub = counter_updates(fl, "__sent_bytes", lambda v: unparse(v) == "len(%s)" % outv)
    up = counter_updates(fl, "__sent_packets", lambda v: isinstance(v, ast.Constant) and v.value == 1)
    chk.ob("R1.sent-counters", "__sent_bytes", once(fl, ub) and fl.dominated(ub, guard_nodes=[wa[0][0]]), sm.loc,
           "+= len(%s) exactly once per packet, after write_all" % outv)
    chk.ob("R1.sent-counters", "__sent_packets", once(fl, up) and fl.dominated(up, guard_nodes=[wa[0][0]]), sm.loc,
           "+= 1 exactly once per packet, after write_all")
    env = threshold_env(sm.node, [("__sent_packets", "REKEY_PACKETS"), ("__sent_bytes", "REKEY_BYTES")], chk, "R1.threshold", sm.loc)
    for name, extra in (("packets", "__sent_packets"), ("bytes", "__sent_bytes")):
        # either counter alone reaching its limit triggers
        e1 = dict((k, (True if extra in k else False)) for k in env if "self." in k)
        for k in env:
            if "self." not in k:
                e1[k] = True
        e1["self.__need_rekey"] = False
        f1 = Flow(prog, sm, env=e1)
        tr = [n for (n, c) in f1.nodes_with_call(name="self._trigger_rekey")]
        ok = bool(tr) and f1.exit_dominated(guard_nodes=tr)
        if ok:
            cnt = ub + up
            ok = all(f1.dominated(tr, guard_nodes=[c]) for c in cnt)
        chk.ob("R1.trigger", name, ok, sm.loc, "threshold on %s reached and no rekey pending => _trigger_rekey() on every path, after counting" % name)
    e2 = dict(env)
    e2["self.__need_rekey"] = True
    f2 = Flow(prog, sm, env=e2)
    chk.ob("R1.trigger-once", "send", not f2.nodes_with_call(name="self._trigger_rekey"), sm.loc, "not re-triggered while a rekey is pending")
    tr = prog.func("Packetizer._trigger_rekey")
    w = attr_writes(tr.node)
    chk.ob("R1.trigger-sets-flag", "_trigger_rekey", len(w) == 1 and w[0][1].attr == "__need_rekey" and
           isinstance(w[0][2], ast.Constant) and w[0][2].value is True, tr.loc, "sets __need_rekey = True")

    # R2 receive -----------------------------------------------------------------------------
    rm = prog.func("Packetizer.read_message")
    fr = Flow(prog, rm)
    rb = counter_updates(fr, "__received_bytes", lambda v: True)
    rp = counter_updates(fr, "__received_packets", lambda v: isinstance(v, ast.Constant) and v.value == 1)
    okb = once(fr, rb)
    if okb:
        amt = fr.expand_text(rb[0].ast.value, rb[0], depth=1)
        okb = amt in (["packet_size + self.__mac_size_in + 4"], ["4 + packet_size + self.__mac_size_in"])
    chk.ob("R2.received-counters", "__received_bytes", okb, rm.loc, "+= packet_size + mac size + 4 exactly once per packet")
    chk.ob("R2.received-counters", "__received_packets", once(fr, rp), rm.loc, "+= 1 exactly once per packet")
    env = threshold_env(rm.node, [("__received_packets", "REKEY_PACKETS"), ("__received_bytes", "REKEY_BYTES")], chk, "R2.threshold", rm.loc)
    for name, extra in (("packets", "__received_packets"), ("bytes", "__received_bytes")):
        e1 = dict((k, (extra in k)) for k in env)
        e1["self.__need_rekey"] = False
        f1 = Flow(prog, rm, env=e1)
        tr2 = [n for (n, c) in f1.nodes_with_call(name="self._trigger_rekey")]
        ok = bool(tr2) and f1.exit_dominated(guard_nodes=tr2)
        chk.ob("R2.trigger", name, ok, rm.loc, "threshold on %s reached and no rekey pending => _trigger_rekey()" % name)
    oenv = threshold_env(rm.node, [("__received_packets_overflow", "REKEY_PACKETS_OVERFLOW_MAX"),
                                   ("__received_bytes_overflow", "REKEY_BYTES_OVERFLOW_MAX")], chk, "R2.overflow-threshold", rm.loc)
    for name, extra in (("packets", "__received_packets_overflow"), ("bytes", "__received_bytes_overflow")):
        e1 = dict((k, (extra in k)) for k in oenv)
        e1["self.__need_rekey"] = True
        f1 = Flow(prog, rm, env=e1)
        rs = f1.nodes(lambda n: n.kind == "raise" and isinstance(n.ast, ast.Raise) and n.ast.exc is not None
                      and "ignoring rekey" in unparse(n.ast.exc))
        ok = f1.cfg.exit.id not in f1.live and len(rs) == 1 and unparse(rs[0].ast.exc.func) == "SSHException"
        ob = counter_updates(f1, "__received_bytes_overflow", lambda v: True)
        op = counter_updates(f1, "__received_packets_overflow", lambda v: isinstance(v, ast.Constant) and v.value == 1)
        ok = ok and len(ob) == 1 and len(op) == 1 and f1.dominated(rs, guard_nodes=ob) and f1.dominated(rs, guard_nodes=op)
        if ok and rb:
            ok = unparse(ob[0].ast.value) == unparse(rb[0].ast.value)
        chk.ob("R2.overflow-raises", name, ok, rm.loc, "pending rekey and overflow %s at the limit => SSHException, nothing delivered" % name)
    e3 = dict((k, False) for k in oenv)
    e3["self.__need_rekey"] = True
    f3 = Flow(prog, rm, env=e3)
    ob = counter_updates(f3, "__received_bytes_overflow", lambda v: True)
    op = counter_updates(f3, "__received_packets_overflow", lambda v: True)
    chk.ob("R2.overflow-counted", "pending", once(f3, ob) and once(f3, op), rm.loc, "while a rekey is pending every packet is counted against the allowance")

    # R3 setters ---------------------------------------------------------------------------------
    for fname, zero, bit in (("set_outbound_cipher", ["__sent_bytes", "__sent_packets"], 1),
                             ("set_inbound_cipher", ["__received_bytes", "__received_packets",
                                                     "__received_bytes_overflow", "__received_packets_overflow"], 2)):
        f = prog.func("Packetizer." + fname)
        ff = Flow(prog, f)
        for z in zero:
            ws = ff.nodes(lambda n: n.kind == "stmt" and isinstance(n.ast, ast.Assign) and unparse(n.ast.targets[0]) == "self." + z
                          and isinstance(n.ast.value, ast.Constant) and n.ast.value.value == 0)
            chk.ob("R3.counters-zeroed", "%s:%s" % (fname, z), bool(ws) and ff.exit_dominated(guard_nodes=ws), f.loc, "= 0 on every path")
        ors = ff.nodes(lambda n: n.kind == "stmt" and isinstance(n.ast, ast.AugAssign) and isinstance(n.ast.op, ast.BitOr)
                       and unparse(n.ast.target) == "self.__init_count" and isinstance(n.ast.value, ast.Constant) and n.ast.value.value == bit)
        clr = ff.nodes(lambda n: n.kind == "stmt" and isinstance(n.ast, ast.Assign) and unparse(n.ast.targets[0]) == "self.__need_rekey")
        g = ff.edge_guard(lambda t: unparse(t) == "self.__init_count == 3", "T")
        ok = len(ors) == 1 and len(clr) == 1 and ff.dominated(clr, guard_edge=g) and ff.dominated(clr, guard_nodes=ors)
        rst = ff.nodes(lambda n: n.kind == "stmt" and isinstance(n.ast, ast.Assign) and unparse(n.ast.targets[0]) == "self.__init_count")
        ok = ok and len(rst) == 1 and ff.dominated(rst, guard_edge=g)
        chk.ob("R3.pending-cleared-after-both", fname, ok, f.loc, "__init_count |= %d; __need_rekey cleared only when == 3" % bit)
    wr = []
    for f in prog.cls("Packetizer").methods.values():
        for (st, t, v) in attr_writes(f.node):
            if t.attr == "__need_rekey":
                wr.append((f.name, unparse(v)))
    chk.ob("R3.need-rekey-writers", "Packetizer", sorted(wr) == sorted([("__init__", "False"), ("_trigger_rekey", "True"),
                                                                       ("set_inbound_cipher", "False"), ("set_outbound_cipher", "False")]),
           prog.cls("Packetizer").module.path, "writers: %s" % sorted(wr))
    nr = prog.func("Packetizer.need_rekey")
    rets = [n for n in walk_no_defs(nr.node) if isinstance(n, ast.Return)]
    chk.ob("R3.need-rekey-getter", "need_rekey", len(rets) == 1 and unparse(rets[0].value) == "self.__need_rekey", nr.loc, "returns the flag")

    # R4 run loop ------------------------------------------------------------------------------------
    run_f = prog.func("Transport.run")
    f4 = Flow(prog, run_f, env={"self.packetizer.need_rekey()": True, "self.in_kex": False})
    rd = f4.nodes_with_call(name="self.packetizer.read_message")
    heads = [n for n in f4.cfg.nodes if n.kind == "loop_head" and unparse(n.ast.test) == "self.active"]
    sk = [n for (n, c) in f4.nodes_with_call(name="self._send_kex_init")]
    ok = len(rd) == 1 and len(heads) == 1
    if ok:
        ok = f4.cfg.dominated([rd[0][0].id], guard_nodes=[n.id for n in sk], avoid_edge=f4.avoid, start=[heads[0].id])
    chk.ob("R4.loop-head-starts-rekey", "run", ok, run_f.loc, "need_rekey() and not in_kex => _send_kex_init() before every read_message")
    f4b = Flow(prog, run_f)
    hs = [n for n in f4b.cfg.nodes if n.kind == "except" and n.ast.type is not None and "NeedRekeyException" in unparse(n.ast.type)]
    ok = len(hs) == 1 and len(hs[0].ast.body) == 1 and isinstance(hs[0].ast.body[0], ast.Continue)
    if ok:
        rdn = f4b.nodes_with_call(name="self.packetizer.read_message")[0][0]
        ok = any(d == hs[0].id for (d, lab) in f4b.cfg.succ[rdn.id])
    chk.ob("R4.need-rekey-exception-continues", "run", ok, run_f.loc, "NeedRekeyException from read_message => continue (back to the loop head)")

    # R5 read_all ----------------------------------------------------------------------------------------
    ra = prog.func("Packetizer.read_all")
    f5 = Flow(prog, ra, implicit=False)
    rs = f5.nodes(lambda n: n.kind == "raise" and isinstance(n.ast, ast.Raise) and n.ast.exc is not None and "NeedRekeyException" in unparse(n.ast.exc))
    cr = ra.params()[2]
    ok = len(rs) >= 1
    for t in (cr, "self.__need_rekey", "got_timeout"):
        ok = ok and f5.dominated(rs, guard_edge=f5.edge_guard(lambda x, t=t: unparse(x) == t, "T"))
    outv = None
    rets = f5.nodes(lambda n: n.kind == "return")
    if rets:
        outv = unparse(rets[0].ast.value)
    ok = ok and outv is not None and f5.dominated(rs, guard_edge=f5.edge_guard(lambda x: unparse(x) in ("len(%s) == 0" % outv, "not %s" % outv), "T"))
    chk.ob("R5.need-rekey-only-when-idle", "read_all", ok, ra.loc, "raised only under check_rekey and nothing read yet and a pending rekey, on a timeout")
    # "nothing read yet" is per call of read_all: inside read_message only the read that fetches the *first* block of a
    # packet may be interrupted; every later read of the same packet runs with check_rekey false (explicitly or by default)
    default_cr = None
    a_ = ra.node.args
    names_ = [x.arg for x in a_.args]
    if cr in names_:
        k_ = names_.index(cr) - (len(names_) - len(a_.defaults))
        if 0 <= k_ < len(a_.defaults) and isinstance(a_.defaults[k_], ast.Constant):
            default_cr = a_.defaults[k_].value
    rm5 = prog.func("Packetizer.read_message")
    fm5 = Flow(prog, rm5, implicit=False)
    calls5 = sorted(fm5.nodes_with_call(name="self.read_all"), key=lambda nc: (nc[1].lineno, nc[1].col_offset))
    chk.floor("R5", "read_all calls in read_message", len(calls5), 3)
    first = None
    for (n_, c_) in calls5:
        # the first-block read: not dominated by any other read_all call
        if not any(o is not n_ and fm5.dominated([n_], guard_nodes=[o]) for (o, oc) in calls5 if oc is not c_):
            first = c_ if first is None else first
    for i_, (n_, c_) in enumerate(calls5):
        eff = default_cr
        if len(c_.args) > 1 and isinstance(c_.args[1], ast.Constant):
            eff = c_.args[1].value
        for kw in c_.keywords:
            if kw.arg == cr:
                eff = kw.value.value if isinstance(kw.value, ast.Constant) else "?"
        want = c_ is first
        chk.ob("R5.need-rekey-only-when-idle", "read_message:read_all#%d" % i_, (bool(eff) is True) == want if eff in (True, False) else False, fm5.where(c_),
               "%s runs with check_rekey=%r (%s)" % (unparse(c_)[:60], eff, "first block of a packet: may be interrupted" if want else "rest of a packet: must not be interrupted"))
    calls = fr.nodes_with_call(name="self.read_all")
    withck = [(n, c) for (n, c) in calls if M.arg(c, 1, "check_rekey") is not None and
              isinstance(M.arg(c, 1, "check_rekey"), ast.Constant) and M.arg(c, 1, "check_rekey").value is True]
    ok = len(withck) == 1 and all(fr.dominated([n], guard_nodes=[withck[0][0]]) for (n, c) in calls if n is not withck[0][0])
    ok = ok and all(M.arg(c, 1, "check_rekey") is None or isinstance(M.arg(c, 1, "check_rekey"), ast.Constant) for (n, c) in calls)
    chk.ob("R5.only-first-read-checks", "read_message", ok, rm.loc, "%d read_all call(s); only the first passes check_rekey=True" % len(calls))

    # R6 in_kex -------------------------------------------------------------------------------------------------
    n_clear = 0
    for f in prog.all_functions():
        if f.cls is None or not prog.is_subclass(f.cls.name, "Transport") or f.name == "__init__":
            continue
        ws = [(st, t, v) for (st, t, v) in attr_writes(f.node) if t.attr == "in_kex" and isinstance(v, ast.Constant) and v.value is False]
        if not ws:
            continue
        ff = Flow(prog, f)
        for (st, t, v) in ws:
            n_clear += 1
            nodes = ff.cfg.nodes_for(st)
            g = ff.edge_guard(lambda x: unparse(x) == "self.packetizer.need_rekey()", "F")
            chk.ob("R6.in-kex-cleared-when-not-pending", f.qual, bool(nodes) and ff.dominated(nodes, guard_edge=g),
                   "%s:%d" % (f.module.path, st.lineno), "in_kex = False only under `not need_rekey()`")
    chk.floor("R6", "in_kex clears", n_clear, 2)
    # in_kex is decided before the send gate reopens (else a woken sender can re-trigger a rekey that is then lost)
    pn = prog.func("Transport._parse_newkeys")
    fp = Flow(prog, pn)
    gate = [n for (n, c) in fp.nodes_with_call(name="self.clear_to_send.set")]
    dec = fp.nodes(lambda n: n.kind == "cond" and unparse(n.ast) == "self.packetizer.need_rekey()")
    clr = fp.nodes(lambda n: n.kind == "stmt" and isinstance(n.ast, ast.Assign) and unparse(n.ast.targets[0]) == "self.in_kex")
    ok = len(gate) == 1 and bool(dec) and fp.dominated(gate, guard_nodes=dec)
    if ok and clr:
        r = fp.cfg.reach([d for (d, l) in fp.cfg.succ[gate[0].id]])
        ok = not any(c.id in r for c in clr)
    chk.ob("R6.in-kex-before-gate-reopens", "_parse_newkeys", ok, pn.loc, "in_kex settled before clear_to_send.set()")
    ai = [n for (n, c) in fp.nodes_with_call(name="self._activate_inbound")]
    chk.ob("R6.gate-after-new-keys", "_parse_newkeys", bool(ai) and len(gate) == 1 and fp.dominated(gate, guard_nodes=ai), pn.loc,
           "send gate reopens only after inbound keys are active")
    # the pending flag consulted by that test is the one the new inbound keys clear: the test must come after them
    chk.ob("R6.pending-test-after-new-inbound-keys", "_parse_newkeys", bool(ai) and bool(dec) and fp.dominated(dec, guard_nodes=ai), pn.loc,
           "`need_rekey()` is consulted only after _activate_inbound() (which is what clears it); tested earlier it is still set, "
           "in_kex would stay True and the next threshold crossing would never send KEXINIT")
    # R8 who may forgive the overflow: the counters that drop a peer ignoring our rekey request restart only when new
    # inbound keys are installed or at the moment a rekey is first asked for (under `not __need_rekey`)
    nz = 0
    for f in prog.all_functions():
        if f.cls is None or f.cls.name != "Packetizer":
            continue
        zs = [(st, t, v) for (st, t, v) in attr_writes(f.node) if t.attr in ("__received_bytes_overflow", "__received_packets_overflow")
              and isinstance(st, ast.Assign) and isinstance(v, ast.Constant) and v.value == 0]
        if not zs:
            continue
        ff = Flow(prog, f, implicit=False)
        for (st, t, v) in zs:
            nz += 1
            if f.name in ("__init__", "set_inbound_cipher"):
                chk.ob("R8.overflow-forgiven-only-with-new-keys-or-a-fresh-request", "%s:%s" % (f.name, t.attr), True, "%s:%d" % (f.module.path, st.lineno),
                       "reset when the inbound keys are (re)installed")
                continue
            nodes = [n for n in ff.cfg.nodes_for(st) if n.id in ff.live]
            g = ff.edge_guard(lambda x: unparse(x) == "self.__need_rekey", "F")
            ok = bool(nodes) and ff.dominated(nodes, guard_edge=g)
            chk.ob("R8.overflow-forgiven-only-with-new-keys-or-a-fresh-request", "%s:%s" % (f.name, t.attr), ok, "%s:%d" % (f.module.path, st.lineno),
                   "%s reset in %s %s" % (t.attr, f.name, "only when no rekey is pending yet (the `only ask once` arm)" if ok else
                                          "also while a rekey is pending: a peer that ignores our KEXINIT is never dropped"))
    chk.floor("R8", "overflow counter resets", nz, 6)
    from ._shared import check_compression_activation
    check_compression_activation(prog, chk, "R7.compression-restarts-with-keys")
