"""C07 - signatures must use the negotiated or declared algorithm."""
import ast
from ..core.model import AnalysisError, unparse, dotted, walk_no_defs
from ..core.consts import Folder, is_sym
from ..core.flow import Flow, node_calls
from ..core import match as M

CERT = "-cert-v01@openssh.com"


def key_classes(prog, fold):
    ki = fold.class_env("Transport").get("_key_info")
    if not isinstance(ki, dict):
        raise AnalysisError("Transport._key_info", "table not foldable")
    out = {}
    for name, v in ki.items():
        if is_sym(v) and v.text.startswith("class:"):
            out.setdefault(v.text[6:], []).append(name)
    return out


def callee_binds(prog, cn):
    """Does <cn>.verify_ssh_sig itself compare the blob's algorithm name with a
    name fixed by the key object, rejecting on mismatch, before verifying?
    Returns (bool, description)."""
    f = prog.method(cn, "verify_ssh_sig")
    fl = Flow(prog, f)
    msg = f.params()[2]
    crypto = [n for (n, c) in fl.nodes_with_call(attr="verify") if unparse(c.func.value) != "self"]
    if not crypto:
        raise AnalysisError(f.qual, "no cryptographic verify call found")
    for n in fl.nodes(lambda n: n.kind == "cond"):
        cp = M.compare_parts(n.ast)
        if not cp or cp[1] not in (ast.NotEq, ast.Eq):
            continue
        sides = [cp[0], cp[2]]
        exp = [fl.expand_text(s, n, depth=3) for s in sides]
        for i in (0, 1):
            if exp[i] == ["%s.get_text()" % msg] and all(t.startswith("self.") and "HASHES" not in t for t in exp[1 - i]):
                okarm = "F" if cp[1] is ast.NotEq else "T"
                if fl.dominated(crypto, guard_edge=lambda s, lab, d, n=n, okarm=okarm: s == n.id and lab == okarm):
                    return True, "%s compares the blob's algorithm with %s" % (f.qual, exp[1 - i])
    return False, "%s takes the hash from the blob's own algorithm name" % f.qual


def _is_name_of(text, base):
    """is ``text`` the algorithm name ``base`` itself - optionally with the certificate suffix stripped
    (.replace('-cert-v01@openssh.com', '')) and optionally encoded / converted (encode, b(), str()) - and nothing
    else?  An expression that merely *mentions* base (e.g. a key object built from it) is not its name."""
    try:
        e = ast.parse(text, mode="eval").body
    except SyntaxError:
        return False
    for _ in range(4):
        if isinstance(e, ast.Call) and isinstance(e.func, ast.Attribute) and e.func.attr == "encode":
            e = e.func.value
        elif isinstance(e, ast.Call) and isinstance(e.func, ast.Name) and e.func.id in ("b", "u", "str", "bytes") and e.args:
            e = e.args[0]
        elif isinstance(e, ast.Call) and isinstance(e.func, ast.Attribute) and e.func.attr == "replace" and len(e.args) == 2 \
                and isinstance(e.args[0], ast.Constant) and e.args[0].value == "-cert-v01@openssh.com" \
                and isinstance(e.args[1], ast.Constant) and e.args[1].value == "":
            e = e.func.value
        else:
            break
    return unparse(e) == base


def site_binds(fl, vnode, vcall, expected_pred):
    """Is the verify_ssh_sig call dominated by the match arm of a comparison
    between the signature blob's algorithm name and the expected algorithm?"""
    sig_arg = vcall.args[1] if len(vcall.args) > 1 else None
    if sig_arg is None:
        return False, "no signature argument"
    for n in fl.nodes(lambda n: n.kind == "cond"):
        cp = M.compare_parts(n.ast)
        if not cp or cp[1] not in (ast.NotEq, ast.Eq):
            continue
        sides = [cp[0], cp[2]]
        sig_text = unparse(sig_arg)
        for depth in (0, 1, 2, 3):
            r = _site_binds_at(fl, vnode, n, cp, sides, sig_text, expected_pred, depth)
            if r:
                return True, r
    return False, "no comparison of the blob's algorithm with the expected one dominates the verification"


def _site_binds_at(fl, vnode, n, cp, sides, sig_text, expected_pred, depth):
    if True:
        if True:
            exp = [fl.expand_text(s, n, depth=depth) for s in sides]

        def reads_sig_name(t):
            # first field of the very signature blob that is verified
            return any(t == sig_text + g or t.startswith(sig_text + g)
                       for g in (".get_text()", ".get_binary()", ".get_string()"))

        for i in (0, 1):
            blob_side = all(reads_sig_name(t) for t in exp[i]) and exp[i]
            exp_side = all(expected_pred(t) for t in exp[1 - i]) and exp[1 - i]
            if blob_side and exp_side:
                okarm = "F" if cp[1] is ast.NotEq else "T"
                if fl.dominated([vnode], guard_edge=lambda s, lab, d, n=n, okarm=okarm: s == n.id and lab == okarm):
                    # the name must be read from the same signature blob that is verified
                    return "compares %s with %s" % (exp[i], exp[1 - i])
    return None


def run(prog, chk):
    fold = Folder(prog)
    chk.explanation = (
        "Decided structurally: at both verification sites (Transport._verify_key for the kex signature, "
        "the publickey branch of AuthHandler._parse_userauth_request) and for every key class in "
        "_key_info, either the call site compares the algorithm name read from the signature blob with "
        "the negotiated / declared algorithm (certificate suffix stripped) and rejects on mismatch before "
        "verifying, or the key class itself pins the name to one fixed by the key. Also: the declared "
        "algorithm is vetted against the enabled set, and signing writes the algorithm it hashed with. "
        "Not decided: cryptographic strength.")
    chk.assumptions = ["a key class with a single algorithm name that compares it in verify_ssh_sig binds the algorithm"]
    kc = key_classes(prog, fold)
    chk.floor("R1", "key classes", len(kc), 3)
    binds = {}
    for cn in sorted(kc):
        b, why = callee_binds(prog, cn)
        binds[cn] = b
        chk.note("%s: %s" % (cn, why))

    sites = []
    vk = prog.func("Transport._verify_key")
    fl = Flow(prog, vk)
    vs = fl.nodes_with_call(attr="verify_ssh_sig")
    if len(vs) != 1:
        raise AnalysisError("Transport._verify_key", "expected one verify_ssh_sig call")
    sites.append(("kex", vk, fl, vs[0], lambda t: _is_name_of(t, "self.host_key_type")))
    ar = prog.func("AuthHandler._parse_userauth_request")
    fl2 = Flow(prog, ar)
    vs2 = fl2.nodes_with_call(attr="verify_ssh_sig")
    if len(vs2) != 1:
        raise AnalysisError("AuthHandler._parse_userauth_request", "expected one verify_ssh_sig call")
    # the declared algorithm: the variable handed to _generate_key_from_request / _get_session_blob
    gk = fl2.nodes_with_call(name="self._generate_key_from_request")
    if len(gk) != 1:
        raise AnalysisError("AuthHandler._parse_userauth_request", "no _generate_key_from_request call")
    algvar = unparse(gk[0][1].args[0])
    sites.append(("userauth", ar, fl2, vs2[0], lambda t, a=algvar: _is_name_of(t, a)))

    # a class whose algorithm name depends on the instance (ECDSA: one class, three curves) must tie the label to
    # its *own* name itself: the call site only ties the label to what was negotiated / declared, and _key_info
    # builds such a key from whatever curve the blob holds
    instance_named = {}
    for cn in sorted(kc):
        gn = prog.method(cn, "get_name")
        rets = [unparse(r.value) for r in walk_no_defs(gn.node) if isinstance(r, ast.Return)]
        fixed = rets == ["self.name"] and isinstance(fold.class_env(cn).get("name"), str)
        instance_named[cn] = not fixed
        if not fixed:
            chk.ob("R1.instance-named-class-binds-own-name", cn, binds[cn], gn.loc,
                   "%s.get_name() returns %s (varies per key); verify_ssh_sig %s" % (
                       cn, rets, "compares the label with it and rejects" if binds[cn] else
                       "does not compare the signature's label with the key's own name: a key of another curve labelled with the negotiated name verifies"))
    for (label, f, flow, (vn, vc), pred) in sites:
        sb, why = site_binds(flow, vn, vc, pred)
        for cn in sorted(kc):
            ok = (sb or binds[cn]) and (binds[cn] or not instance_named[cn])
            chk.ob("R1.algorithm-bound", "%s:%s" % (f.qual, cn), ok, flow.where(vn),
                   ("call site " + why) if sb else ("callee binds" if binds[cn] else
                    "%s signatures: algorithm taken from the blob, never compared with the %s algorithm (%s)" % (
                        cn, "negotiated" if label == "kex" else "declared", why)))

    # R2 the declared algorithm is vetted against the enabled set
    g = prog.func("AuthHandler._generate_key_from_request")
    fg = Flow(prog, g)
    alg = g.params()[1]
    ctor = [n for (n, c) in fg.nodes_with_call() if isinstance(c.func, ast.Subscript) and unparse(c.func.value) == "self.transport._key_info"]
    def vet(t):
        cp = M.compare_parts(t)
        return bool(cp and cp[1] in (ast.NotIn, ast.In) and alg in unparse(cp[0]) and
                    all(x in ("self.transport.preferred_pubkeys",) for x in fg.expand_text(cp[2], fg.cfg.entry, depth=0) or [unparse(cp[2])]))
    conds = fg.nodes(lambda n: n.kind == "cond" and M.compare_parts(n.ast) and M.compare_parts(n.ast)[1] in (ast.NotIn, ast.In)
                     and alg in unparse(M.compare_parts(n.ast)[0]))
    ok = False
    for c in conds:
        cp = M.compare_parts(c.ast)
        rhs = fg.expand_text(cp[2], c, depth=2)
        if rhs == ["self.transport.preferred_pubkeys"]:
            okarm = "F" if cp[1] is ast.NotIn else "T"
            if ctor and fg.dominated(ctor, guard_edge=lambda s, lab, d, c=c, okarm=okarm: s == c.id and lab == okarm):
                ok = True
    chk.ob("R2.declared-algorithm-enabled", "_generate_key_from_request", ok, g.loc,
           "key object built only when the declared algorithm is in preferred_pubkeys (disabled algorithms filtered)")
    # ... and no key leaves the function any other way: every return of something other than None passes the same test
    # (a key remembered from an earlier request was vetted under the algorithm *that* request declared)
    rets = fg.nodes(lambda n: n.kind == "return" and n.ast.value is not None and not (isinstance(n.ast.value, ast.Constant) and n.ast.value.value is None))
    okr = bool(rets)
    for r in rets:
        good = False
        for c in conds:
            cp = M.compare_parts(c.ast)
            if fg.expand_text(cp[2], c, depth=2) == ["self.transport.preferred_pubkeys"]:
                okarm = "F" if cp[1] is ast.NotIn else "T"
                if fg.dominated([r], guard_edge=lambda s, lab, d, c=c, okarm=okarm: s == c.id and lab == okarm):
                    good = True
        okr = okr and good
    chk.ob("R2.every-returned-key-vetted", "_generate_key_from_request", okr, g.loc,
           "%d return(s) of a key, each behind the enabled-algorithm test" % len(rets))
    # host key type is a product of the negotiation (C05-R3): written only by _parse_kex_init / __init__
    from ..core.flow import attr_writes
    wr = []
    for f in prog.all_functions():
        if f.cls is not None and prog.is_subclass(f.cls.name, "Transport"):
            for (st, t, v) in attr_writes(f.node):
                if t.attr == "host_key_type":
                    wr.append(f.qual)
    chk.ob("R2.host-key-type-writers", "Transport", sorted(set(wr)) == ["Transport.__init__", "Transport._parse_kex_init"],
           vk.loc, "writers of host_key_type: %s" % sorted(set(wr)))

    # R3 sign side: RSA signs with HASHES[algorithm] and writes that algorithm (cert suffix stripped)
    s = prog.func("RSAKey.sign_ssh_data")
    fs = Flow(prog, s)
    sg = fs.nodes_with_call(name="self.key.sign")
    ok = len(sg) == 1
    if ok:
        a = M.arg(sg[0][1], 2, "algorithm")
        ok = a is not None and unparse(a) == "self.HASHES[algorithm]()"
        adds = [c for (n, c) in fs.nodes_with_call(attr="add_string")]
        ok = ok and len(adds) == 2 and unparse(adds[0].args[0]) in ("algorithm.replace('%s', '')" % CERT,)
    chk.ob("R3.sign-writes-its-algorithm", "RSAKey.sign_ssh_data", ok, s.loc, "hash = HASHES[algorithm]; blob names algorithm")
    v = prog.func("RSAKey.verify_ssh_sig")
    fv = Flow(prog, v)
    cv = fv.nodes_with_call(attr="verify")
    ok = len(cv) == 1 and "self.HASHES[" in unparse(cv[0][1])
    if ok:
        names = [x for x in ast.walk(cv[0][1]) if isinstance(x, ast.Subscript) and unparse(x.value) == "self.HASHES"]
        alts = fv.expand_text(names[0].slice, cv[0][0], depth=2)
        ok = alts == ["%s.get_text()" % v.params()[2]]
    chk.ob("R3.verify-uses-blob-hash-table", "RSAKey.verify_ssh_sig", ok, v.loc, "hash looked up in the same HASHES table by the blob's name")
    H = fold.class_env("RSAKey").get("HASHES")
    want = {"ssh-rsa": "hashes.SHA1", "rsa-sha2-256": "hashes.SHA256", "rsa-sha2-512": "hashes.SHA512"}
    okh = isinstance(H, dict) and all(is_sym(H.get(k)) and H[k].text == w and is_sym(H.get(k + CERT)) and H[k + CERT].text == w
                                      for k, w in want.items()) and len(H) == 6
    chk.ob("R3.rsa-hash-table", "RSAKey.HASHES", okh, prog.cls("RSAKey").module.path, "name -> hash table")
