"""C17 - client credentials are only sent to a verified, accepted server."""
import ast
from ..core.model import AnalysisError, unparse, dotted, walk_no_defs
from ..core.flow import Flow, node_calls, attr_writes
from ..core import match as M

AUTH_METHODS = ("auth_none", "auth_password", "auth_publickey", "auth_interactive", "auth_interactive_dumb",
                "auth_gssapi_with_mic", "auth_gssapi_keyex")


def session_guard_edges(fl):
    """edges that establish `self.active` true and `self.initial_kex_done` true."""
    ga = [n.id for n in fl.nodes(lambda n: n.kind == "cond" and unparse(n.ast) == "self.active")]
    gk = [n.id for n in fl.nodes(lambda n: n.kind == "cond" and unparse(n.ast) == "self.initial_kex_done")]
    return ga, gk


def guarded(fl, targets):
    ga, gk = session_guard_edges(fl)
    if not ga or not gk:
        return False
    a = fl.dominated(targets, guard_edge=lambda s, lab, d: s in ga and lab == "T")
    k = fl.dominated(targets, guard_edge=lambda s, lab, d: s in gk and lab == "T")
    return a and k


def run(prog, chk):
    chk.explanation = (
        "Decided structurally: (R1) every Transport.auth_* entry point reaches an AuthHandler only through "
        "the `active and initial_kex_done` guard whose failing arm raises (ServiceRequestingTransport "
        "through ensure_session(), which has the same guard before its first send); (R2) initial_kex_done "
        "is set only by _parse_newkeys, which in client mode is only expected after _verify_key succeeded "
        "(C06-R2/R8) - so the guard implies a verified host-key signature and active keys; (R3) "
        "Transport.connect: with a host key given (and no GSS kex) every auth call is dominated by "
        "start_client and by the name and bytes comparisons whose mismatch raises; (R4) SSHClient.connect: "
        "every path from start_client to _auth / auth_strategy.authenticate passes the missing-host-key "
        "policy (unknown server) or the our_key != server_key test with a raising arm (known server); "
        "RejectPolicy always raises. Not decided: what is physically on the wire (C01-C04).")
    chk.assumptions = ["the default MissingHostKeyPolicy of SSHClient is RejectPolicy; other policies are the application's choice"]
    n_guarded = 0
    for cn in ("Transport", "ServiceRequestingTransport"):
        for mn in AUTH_METHODS:
            f = prog.classes[cn].methods.get(mn)
            if f is None:
                if cn == "Transport":
                    raise AnalysisError("%s.%s" % (cn, mn), "auth entry point not found")
                continue
            fl = Flow(prog, f)
            uses = [n for (n, c) in fl.nodes_with_call() if (dotted(c.func) or "").startswith("self.auth_handler.")
                    or dotted(c.func) in ("AuthHandler", "self.get_auth_handler")]
            uses += fl.nodes(lambda n: n.kind == "stmt" and isinstance(n.ast, ast.Assign) and unparse(n.ast.targets[0]) == "self.auth_handler")
            deleg = [n for (n, c) in fl.nodes_with_call() if dotted(c.func) in ("self." + m for m in AUTH_METHODS)]
            if cn == "Transport":
                if uses:
                    ok = guarded(fl, uses)
                    n_guarded += 1
                    chk.ob("R1.entry-guard", f.qual, ok, f.loc, "AuthHandler reached only when active and initial_kex_done")
                else:
                    chk.ob("R1.entry-guard", f.qual, bool(deleg), f.loc, "only delegates to %s" % [dotted(c.func) for n in deleg for c in node_calls(n) if dotted(c.func)][:2])
            else:
                es = [n for (n, c) in fl.nodes_with_call(name="self.ensure_session")]
                ok = len(es) >= 1 and fl.dominated(uses + deleg, guard_nodes=es, complete=True) and bool(uses + deleg)
                n_guarded += 1
                chk.ob("R1.entry-guard", f.qual, ok, f.loc, "ensure_session() precedes every use of the auth handler")
    chk.floor("R1", "guarded auth entry points", n_guarded, 12)
    es = prog.func("ServiceRequestingTransport.ensure_session")
    fe = Flow(prog, es)
    sends = [n for (n, c) in fe.nodes_with_call(name="self._send_message")] + \
            fe.nodes(lambda n: n.kind == "stmt" and isinstance(n.ast, ast.Assign) and unparse(n.ast.targets[0]) == "self.auth_handler")
    chk.ob("R1.entry-guard", es.qual, bool(sends) and guarded(fe, sends) and guarded(fe, [fe.cfg.exit]), es.loc,
           "service request / handler creation / normal return only when active and initial_kex_done")

    # R2 -----------------------------------------------------------------------------------
    w = []
    for f in prog.all_functions():
        if f.cls is not None and prog.is_subclass(f.cls.name, "Transport"):
            for (st, t, v) in attr_writes(f.node):
                if t.attr == "initial_kex_done":
                    w.append((f.qual, unparse(v)))
    chk.ob("R2.initial-kex-done-writers", "Transport", sorted(w) == [("Transport.__init__", "False"), ("Transport._parse_newkeys", "True")],
           prog.func("Transport._parse_newkeys").loc, "writers: %s" % sorted(w))
    # NEWKEYS handler is only reachable through the dispatch table
    refs = []
    for f in prog.all_functions():
        for n in walk_no_defs(f.node):
            if isinstance(n, ast.Attribute) and n.attr == "_parse_newkeys" and isinstance(getattr(n, "_parent", None), ast.Call) and n._parent.func is n:
                refs.append(f.qual)
    chk.ob("R2.newkeys-only-dispatched", "_parse_newkeys", not refs, prog.func("Transport._parse_newkeys").loc, "direct callers: %s" % refs)

    # R3 Transport.connect -------------------------------------------------------------------
    tc = prog.func("Transport.connect")
    fl = Flow(prog, tc, env={"hostkey is not None": True, "gss_kex": False})
    auths = [n for (n, c) in fl.nodes_with_call() if dotted(c.func) in ("self." + m for m in AUTH_METHODS)]
    sc = [n for (n, c) in fl.nodes_with_call(name="self.start_client")]
    chk.floor("R3", "auth calls in Transport.connect", len(auths), 2)
    ok = len(sc) == 1 and fl.dominated(auths, guard_nodes=sc, complete=True)
    chk.ob("R3.kex-before-auth", "Transport.connect", ok, tc.loc, "start_client() dominates every auth call")
    nm = fl.nodes(lambda n: n.kind == "cond" and unparse(n.ast) in ("key.get_name() != hostkey.get_name()", "hostkey.get_name() != key.get_name()"))
    by = fl.nodes(lambda n: n.kind == "cond" and unparse(n.ast) in ("key.asbytes() != hostkey.asbytes()", "hostkey.asbytes() != key.asbytes()",
                                                                      "key != hostkey", "hostkey != key"))
    ok = len(by) == 1
    if ok:
        ok = fl.dominated(auths, guard_edge=lambda s, lab, d: s == by[0].id and lab == "F")
        ts = [d for (d, lab) in fl.cfg.succ[by[0].id] if lab == "T"]
        r = fl.cfg.reach(ts, avoid_edge=fl.avoid)
        ok = ok and not any(a.id in r for a in auths) and fl.cfg.exit.id not in r
        kd = fl.defs("key", by[0])
        ok = ok and all(rhs is not None and unparse(rhs) == "self.get_remote_server_key()" for (d, rhs) in kd) and bool(kd)
        ok = ok and fl.dominated(by, guard_nodes=sc, complete=True)
    if ok and nm:
        ok = fl.dominated(auths, guard_edge=lambda s, lab, d: s == nm[0].id and lab == "F")
    chk.ob("R3.hostkey-compared", "Transport.connect", ok, tc.loc,
           "given host key: server key bytes (and name) compared, mismatch raises, before any auth call")
    grk = prog.func("Transport.get_remote_server_key")
    rets = [unparse(r.value) for r in walk_no_defs(grk.node) if isinstance(r, ast.Return)]
    chk.ob("R3.remote-key-is-verified-key", "get_remote_server_key", rets == ["self.host_key"], grk.loc,
           "returns the key recorded by _verify_key (%s)" % rets)

    # R4 SSHClient.connect --------------------------------------------------------------------
    cc = prog.func("SSHClient.connect")
    for lab, known in (("unknown-server", True), ("known-server", False)):
        fl = Flow(prog, cc, env={"self._transport.gss_kex_used": False, "our_server_keys is None": known,
                                 "our_server_keys is not None": (not known)})
        auths = [n for (n, c) in fl.nodes_with_call() if dotted(c.func) in ("self._auth", "auth_strategy.authenticate")]
        sc = [n for (n, c) in fl.nodes_with_call(name="t.start_client")]
        ok = len(auths) == 2 and len(sc) == 1 and fl.dominated(auths, guard_nodes=sc, complete=True)
        # our_server_keys must not be reassigned after the start_client (the flag fixed above is about its final value)
        if known:
            pol = [n for (n, c) in fl.nodes_with_call(name="self._policy.missing_host_key")]
            ok = ok and len(pol) == 1 and fl.dominated(auths, guard_nodes=pol, complete=True) and fl.dominated(pol, guard_nodes=sc, complete=True)
            if ok:
                c = [c for c in node_calls(pol[0]) if M.is_call(c, attr="missing_host_key")][0]
                kd = fl.expand_text(c.args[2], pol[0], depth=1) if len(c.args) == 3 else []
                ok = kd == ["t.get_remote_server_key()"]
            chk.ob("R4.policy-consulted", lab, ok, cc.loc, "unknown server: missing_host_key(client, name, server key) before any auth")
        else:
            cmp_ = fl.nodes(lambda n: n.kind == "cond" and unparse(n.ast) in ("our_key != server_key", "server_key != our_key"))
            ok = ok and len(cmp_) == 1
            if ok:
                ok = fl.dominated(auths, guard_edge=lambda s, lab_, d: s == cmp_[0].id and lab_ == "F")
                ts = [d for (d, l2) in fl.cfg.succ[cmp_[0].id] if l2 == "T"]
                r = fl.cfg.reach(ts, avoid_edge=fl.avoid)
                rs = [n for n in fl.cfg.nodes if n.id in r and n.kind == "raise" and isinstance(n.ast, ast.Raise)
                      and n.ast.exc is not None and "BadHostKeyException" in unparse(n.ast.exc)]
                ok = ok and bool(rs) and not any(a.id in r for a in auths)
                od = fl.expand_text(ast.parse("our_key", mode="eval").body, cmp_[0], depth=1)
                sd = fl.expand_text(ast.parse("server_key", mode="eval").body, cmp_[0], depth=1)
                ok = ok and od == ["our_server_keys.get(server_key.get_name())"] and sd == ["t.get_remote_server_key()"]
            chk.ob("R4.known-key-compared", lab, ok, cc.loc, "known server: our_key != server_key raises BadHostKeyException before any auth")
    # the lookup name
    fl = Flow(prog, cc)
    names = fl.nodes(lambda n: n.kind == "stmt" and isinstance(n.ast, ast.Assign) and unparse(n.ast.targets[0]) == "server_hostkey_name")
    vals = sorted(unparse(n.ast.value) for n in names)
    chk.ob("R4.lookup-name", "SSHClient.connect", vals == ["'[{}]:{}'.format(hostname, port)", "hostname"], cc.loc, "lookup name: %s" % vals)
    lk = fl.nodes(lambda n: n.kind == "stmt" and isinstance(n.ast, ast.Assign) and unparse(n.ast.targets[0]) == "our_server_keys"
                  and M.is_call(n.ast.value))
    vals = sorted(unparse(n.ast.value) for n in lk)
    chk.ob("R4.lookup-stores", "SSHClient.connect", vals == ["self._host_keys.get(server_hostkey_name)", "self._system_host_keys.get(server_hostkey_name)"],
           cc.loc, "looked up in %s" % vals)
    rp = prog.func("RejectPolicy.missing_host_key")
    fr = Flow(prog, rp, implicit=False)
    chk.ob("R4.reject-policy-raises", "RejectPolicy", fr.cfg.exit.id not in fr.live, rp.loc, "missing_host_key never returns normally")
    init = prog.func("SSHClient.__init__")
    pol = [unparse(v) for (st, t, v) in attr_writes(init.node) if t.attr == "_policy"]
    chk.ob("R4.default-policy", "SSHClient.__init__", pol == ["RejectPolicy()"], init.loc, "default policy %s" % pol)
