"""C18 - a client refuses server-initiated actions it did not enable."""
import ast
from ..core.model import AnalysisError, unparse, dotted, walk_no_defs
from ..core.consts import Folder
from ..core.flow import Flow, node_calls, attr_writes
from ..core import match as M

KINDS = {"auth-agent@openssh.com": "_forward_agent_handler", "x11": "_x11_handler", "forwarded-tcpip": "_tcp_handler"}
REQS = ("pty-req", "shell", "env", "exec", "subsystem", "window-change", "x11-req", "auth-agent-req@openssh.com")


def truthy_defs(fl, name, at):
    """definitions of ``name`` reaching ``at`` that are not the constant False."""
    out = []
    for (dn, rhs) in fl.defs(name, at):
        if rhs is not None and isinstance(rhs, ast.Constant) and rhs.value is False:
            continue
        out.append((dn, rhs))
    return out


def run(prog, chk):
    fold = Folder(prog)
    chk.explanation = (
        "Decided structurally by fixing the role flag and pruning: (R1) Transport._parse_global_request with "
        "server_mode False touches no server_object attribute and the only value of `ok` reaching the reply "
        "is False; (R2) Transport._parse_channel_open with server_mode False constructs a channel only on "
        "paths guarded by kind == K and the matching handler is not None, for exactly the three kinds; every "
        "other path sends OPEN_FAILURE; (R3) who-may-write: the three handlers are None at construction and "
        "are set only through request_x11 / request_forward_agent / request_port_forward (cleared by "
        "cancel_port_forward); (R4) Channel._handle_request with no server object approves only exit-status "
        "and xon-xoff; every server.check_channel_* call is under `server is not None`; server_object is "
        "written only by start_server.")
    chk.assumptions = ["Channel.transport.server_object is Transport.server_object"]
    # R1 --------------------------------------------------------------------------------------
    gr = prog.func("Transport._parse_global_request")
    fl = Flow(prog, gr, env={"self.server_mode": False})
    so = [n for n in fl.nodes(lambda n: n.ast is not None and n.kind in ("stmt", "cond", "return") and "server_object" in unparse(n.ast))]
    chk.ob("R1.no-app-in-client-mode", "_parse_global_request", not so, gr.loc, "%d live statements touch server_object in client mode" % len(so))
    okc = fl.nodes(lambda n: n.kind == "cond" and unparse(n.ast) == "ok")
    succ = [n for n in fl.nodes(lambda n: any(M.is_call(c, attr="add_byte") and unparse(c.args[0]) == "cMSG_REQUEST_SUCCESS" for c in node_calls(n)))]
    # path-sensitive on the local `ok`: in client mode the SUCCESS reply is unreachable
    ok = fl.dominated_ps(succ, ["ok"])
    for s in succ:
        ok = ok and fl.dominated([s], guard_edge=lambda s_, lab, d: s_ in [c.id for c in okc] and lab == "T")
    chk.ob("R1.global-request-refused", "_parse_global_request", ok and bool(okc) and bool(succ), gr.loc,
           "client mode: `ok` can only be False where the reply is chosen; SUCCESS is only under `ok`")
    # R2 ---------------------------------------------------------------------------------------
    co = prog.func("Transport._parse_channel_open")
    fc = Flow(prog, co, env={"self.server_mode": False})
    births = [n for (n, c) in fc.nodes_with_call(name="Channel")]
    if len(births) != 1:
        raise AnalysisError("Transport._parse_channel_open", "expected one Channel() construction")
    gates = {}
    for kind, h in KINDS.items():
        hn = fc.nodes(lambda n, h=h: n.kind == "cond" and unparse(n.ast) == "self.%s is not None" % h)
        kn = fc.nodes(lambda n, kind=kind: n.kind == "cond" and unparse(n.ast) in ("kind == %r" % kind, "%r == kind" % kind))
        gates[kind] = (hn, kn)
    edges = set()
    for kind, (hn, kn) in gates.items():
        # the handler test must itself sit on the true arm of the matching kind test
        first = [k for k in kn if any(fc.dominated([x], guard_edge=lambda s, lab, d, k=k: s == k.id and lab == "T") for x in hn)]
        okk = len(hn) >= 1 and bool(first)
        chk.ob("R2.kind-gate", kind, okk, co.loc, "kind == %r and self.%s is not None guards an accepting arm" % (kind, KINDS[kind]))
        for x in hn:
            if any(fc.dominated([x], guard_edge=lambda s, lab, d, k=k: s == k.id and lab == "T") for k in kn):
                edges.add((x.id, "T"))
    ok = bool(edges) and fc.dominated_ps(births, ["reject"], guard_edge=lambda s, lab, d: (s, lab) in edges)
    chk.ob("R2.client-accepts-only-enabled-kinds", "_parse_channel_open", ok, fc.where(births[0]),
           "client mode: Channel() only behind one of the three (kind, handler) gates (path-sensitive on `reject`)")
    env0 = {"self.server_mode": False}
    for h in KINDS.values():
        env0["self.%s is not None" % h] = False
    f0 = Flow(prog, co, env=env0)
    b0 = [n for (n, c) in f0.nodes_with_call(name="Channel")]
    rej = [n for n in f0.nodes(lambda n: any(M.is_call(c, attr="add_byte") and unparse(c.args[0]) == "cMSG_CHANNEL_OPEN_FAILURE" for c in node_calls(n)))]
    fvar = None
    if len(rej) == 1:
        fvar = [unparse(c.func.value) for c in node_calls(rej[0]) if M.is_call(c, attr="add_byte")][0]
    snd = [n for (n, c) in f0.nodes_with_call(name="self._send_message") if c.args and unparse(c.args[0]) == fvar]
    ok = f0.dominated_ps(b0, ["reject"]) and len(rej) == 1 and bool(snd) and \
        f0.dominated_ps([f0.cfg.exit], ["reject"], guard_nodes=snd) and f0.dominated(snd, guard_nodes=rej)
    chk.ob("R2.nothing-enabled-always-refuses", "_parse_channel_open", ok, co.loc, "no handler set: no channel is created and OPEN_FAILURE is sent on every path")
    so = [n for n in fc.nodes(lambda n: n.ast is not None and n.kind in ("stmt", "cond") and "server_object" in unparse(n.ast))]
    chk.ob("R2.no-app-in-client-mode", "_parse_channel_open", not so, co.loc, "%d live statements touch server_object in client mode" % len(so))

    # R3 who-may-write ---------------------------------------------------------------------------
    want = {"_x11_handler": ["Transport.__init__", "Transport._set_x11_handler"],
            "_forward_agent_handler": ["Transport.__init__", "Transport._set_forward_agent_handler"],
            "_tcp_handler": ["Transport.__init__", "Transport.cancel_port_forward", "Transport.request_port_forward"]}
    got = dict((k, []) for k in want)
    for f in prog.all_functions():
        for (st, t, v) in attr_writes(f.node):
            if t.attr in want:
                got[t.attr].append(f.qual)
    for k in sorted(want):
        chk.ob("R3.handler-writers", k, sorted(set(got[k])) == want[k], prog.func("Transport.__init__").loc, "writers: %s" % sorted(set(got[k])))
    init = prog.func("Transport.__init__")
    for (st, t, v) in attr_writes(init.node):
        if t.attr in want:
            chk.ob("R3.handler-initially-none", t.attr, isinstance(v, ast.Constant) and v.value is None, init.loc, "initialised to %s" % unparse(v))
    for setter, caller in (("_set_x11_handler", "Channel.request_x11"), ("_set_forward_agent_handler", "Channel.request_forward_agent")):
        callers = [f.qual for f in prog.all_functions() for c in walk_no_defs(f.node) if M.is_call(c, attr=setter)]
        chk.ob("R3.setter-callers", setter, sorted(set(callers)) == [caller], prog.func("Transport." + setter).loc, "called from %s" % sorted(set(callers)))
    rpf = prog.func("Transport.request_port_forward")
    fr = Flow(prog, rpf)
    w = fr.nodes(lambda n: n.kind == "stmt" and isinstance(n.ast, ast.Assign) and unparse(n.ast.targets[0]) == "self._tcp_handler")
    gq = [n for (n, c) in fr.nodes_with_call(name="self.global_request")]
    ok = len(w) == 1 and len(gq) == 1 and fr.dominated(w, guard_nodes=gq)
    if ok:
        rv = unparse(gq[0].ast.targets[0]) if isinstance(gq[0].ast, ast.Assign) else None
        ok = rv is not None and fr.dominated(w, guard_edge=fr.edge_guard(lambda t: unparse(t) == "%s is None" % rv, "F"))
    chk.ob("R3.tcp-handler-after-grant", "request_port_forward", ok, rpf.loc, "_tcp_handler set only after the server granted the tcpip-forward request")
    cpf = prog.func("Transport.cancel_port_forward")
    vals = [unparse(v) for (st, t, v) in attr_writes(cpf.node) if t.attr == "_tcp_handler"]
    fcp = Flow(prog, cpf, env={"self.active": True}, implicit=False)
    clr = fcp.nodes(lambda n: n.kind == "stmt" and isinstance(n.ast, ast.Assign) and unparse(n.ast.targets[0]) == "self._tcp_handler")
    chk.ob("R3.tcp-handler-cleared", "cancel_port_forward", vals == ["None"] and bool(clr) and fcp.exit_dominated(guard_nodes=clr), cpf.loc,
           "an active transport's cancel always clears the handler (%s)" % vals)
    rx = prog.func("Channel.request_x11")
    frx = Flow(prog, rx, implicit=False)
    st_ = [n for (n, c) in frx.nodes_with_call(name="self.transport._set_x11_handler")]
    wt = [n for (n, c) in frx.nodes_with_call(name="self._wait_for_event")]
    chk.ob("R3.x11-handler-after-grant", "request_x11", len(st_) == 1 and len(wt) == 1 and frx.dominated(st_, guard_nodes=wt), rx.loc,
           "the X11 handler is installed only after the server accepted the x11-req (a refused request enables nothing)")

    # R4 channel requests --------------------------------------------------------------------------
    hr = prog.func("Channel._handle_request")
    fh = Flow(prog, hr, env={"server is None": True, "server is not None": False})
    sv = fh.defs("server", fh.nodes(lambda n: n.kind == "cond")[0]) if fh.nodes(lambda n: n.kind == "cond") else []
    chk.ob("R4.server-is-transports", "_handle_request", bool(sv) and all(r is not None and unparse(r) == "self.transport.server_object" for (d, r) in sv),
           hr.loc, "server <- %s" % [unparse(r) for (d, r) in sv if r is not None])
    calls = [n for (n, c) in fh.nodes_with_call() if (dotted(c.func) or "").startswith("server.")]
    chk.ob("R4.no-app-without-server", "_handle_request", not calls, hr.loc, "%d server.* call(s) live when server is None" % len(calls))
    okc = fh.nodes(lambda n: n.kind == "cond" and unparse(n.ast) == "ok")
    approving = set()
    for c in okc:
        for (dn, rhs) in truthy_defs(fh, "ok", c):
            # which request kind is that definition under?
            for n in fh.nodes(lambda n: n.kind == "cond" and M.compare_parts(n.ast) and unparse(M.compare_parts(n.ast)[0]) == "key"
                              and M.compare_parts(n.ast)[1] is ast.Eq):
                if fh.dominated([dn], guard_edge=lambda s, lab, d, n=n: s == n.id and lab == "T"):
                    approving.add(M.compare_parts(n.ast)[2].value if isinstance(M.compare_parts(n.ast)[2], ast.Constant) else unparse(n.ast))
    chk.ob("R4.client-approves-nothing-active", "_handle_request", bool(okc) and approving <= set(["exit-status", "exit-signal", "xon-xoff"]), hr.loc,
           "request kinds whose reply can be SUCCESS with no server object: %s" % sorted(approving))
    fa = Flow(prog, hr)
    n_guarded = 0
    for (n, c) in fa.nodes_with_call():
        nm = dotted(c.func) or ""
        if nm.startswith("server.check_channel_"):
            n_guarded += 1
            g = fa.edge_guard(lambda t: unparse(t) == "server is None", "F")
            g2 = fa.edge_guard(lambda t: unparse(t) == "server is not None", "T")
            ok = fa.dominated([n], guard_edge=lambda s, lab, d: g(s, lab, d) or g2(s, lab, d))
            chk.ob("R4.app-call-needs-server", nm.split(".", 1)[1], ok, fa.where(n), "%s only when a server object exists" % nm)
    chk.floor("R4", "server.check_channel_* call sites", n_guarded, 8)
    keys = set()
    for n in fa.nodes(lambda n: n.kind == "cond" and M.compare_parts(n.ast) and unparse(M.compare_parts(n.ast)[0]) == "key"):
        cpv = M.compare_parts(n.ast)[2]
        if isinstance(cpv, ast.Constant):
            keys.add(cpv.value)
    chk.ob("R4.request-kinds-covered", "_handle_request", set(REQS) <= keys, hr.loc, "request ladder handles %s" % sorted(keys))
    w = []
    for f in prog.all_functions():
        for (st, t, v) in attr_writes(f.node):
            if t.attr == "server_object":
                w.append((f.qual, unparse(v)))
    chk.ob("R4.server-object-writers", "Transport", sorted(w) == [("Transport.__init__", "None"), ("Transport.start_server", "server")],
           prog.func("Transport.start_server").loc, "writers: %s" % sorted(w))
    # R3b: the answer global_request() hands back is the answer to *that* request.  The two reply handlers are evaluated
    # (helpers they call on self are followed): SUCCESS stores the message, FAILURE stores None - also when a success from
    # an earlier request is still stored - and both wake the waiter.  A stale success would let request_port_forward
    # install the handler for a forward the server refused.
    from ..core.interp import Interp, Obj, Refuse
    for hname, start, want in (("_parse_request_success", None, "MSG"), ("_parse_request_failure", "EARLIER-SUCCESS", None),
                               ("_parse_request_success", "EARLIER-SUCCESS", "MSG"), ("_parse_request_failure", None, None)):
        hf = prog.func("Transport." + hname)
        woke = []
        selfo = Obj(global_response=start, completion_event=Obj(set=lambda woke=woke: woke.append(1)), _log=lambda *a, **k: None)

        def resolver(name, args, kw, selfo=selfo, depth=[0]):
            if not name.startswith("self.") or name.count(".") != 1 or depth[0] > 3:
                raise Refuse(None, "call outside the intrinsics: %s" % name)
            m_ = prog.method("Transport", name.split(".", 1)[1], required=False)
            if m_ is None:
                raise Refuse(None, "no such method: %s" % name)
            ps_ = m_.params()
            env = {ps_[0]: selfo}
            for p_, a_ in zip(ps_[1:], args):
                env[p_] = a_
            env.update(kw)
            depth[0] += 1
            try:
                sub = Interp(intrinsics={"DEBUG": "DEBUG"}, arith=False, resolver=resolver)
                kind, val = sub.call_function(m_.node, env)
            finally:
                depth[0] -= 1
            if kind == "raise":
                raise Refuse(None, "%s raised %s" % (name, val))
            return val
        it = Interp(intrinsics={"DEBUG": "DEBUG"}, arith=False, resolver=resolver)
        try:
            kind, val = it.call_function(hf.node, {hf.params()[0]: selfo, hf.params()[1]: "MSG"})
        except Refuse as e:
            raise AnalysisError("Transport." + hname, "not evaluable: %s" % (e,))
        got = getattr(selfo, "global_response", "?")
        chk.ob("R3.reply-is-this-requests", "%s:after-%s" % (hname, "nothing" if start is None else "an-earlier-success"), kind == "return" and got == want and bool(woke), hf.loc,
               "global_response %r -> %r (want %r), waiter woken: %s" % (start, got, want, bool(woke)))
