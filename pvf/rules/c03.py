"""C03 - outgoing packets are framed and padded as RFC 4253 section 6 requires.

Decided exactly over residues: the padding arithmetic of
``Packetizer._build_packet`` is interpreted (from the working tree's AST) for
every block size the transport can install x framing mode x residue class of
len(payload) - which covers every payload length.  Plus structural rules on
what ``send_message`` encrypts / MACs and on the algorithm tables.
"""
import ast
from ..core.model import AnalysisError, unparse, dotted, walk_no_defs
from ..core.consts import Folder, is_sym
from ..core.absint import ResidueEval, Lin, Byt, Packed
from ..core.flow import Flow, attr_writes
from ..core import match as M

MODES = [("classic", False, False), ("etm", True, False), ("aead", False, True)]
DIGEST = {"md5": 16, "sha1": 20, "sha256": 32, "sha384": 48, "sha512": 64}


def packetizer_init_const(prog, fold, attr):
    init = prog.func("Packetizer.__init__")
    for (st, t, val) in attr_writes(init.node):
        if t.attr == attr and isinstance(t.value, ast.Name) and t.value.id == "self":
            return fold.eval(val, {}, init.module, None)
    raise AnalysisError("Packetizer.__init__", "no initial value for %s" % attr)


def block_sizes(prog, fold):
    tenv = fold.class_env("Transport")
    ci = tenv.get("_cipher_info")
    if not isinstance(ci, dict) or not ci:
        raise AnalysisError("Transport._cipher_info", "table not foldable")
    sizes = {}
    init = packetizer_init_const(prog, fold, "__block_size_out")
    if not isinstance(init, int):
        raise AnalysisError("Packetizer.__block_size_out", "initial value not constant")
    sizes[init] = ["<initial>"]
    for name, row in ci.items():
        bs = row.get("block-size") if isinstance(row, dict) else None
        if not isinstance(bs, int):
            raise AnalysisError("Transport._cipher_info[%s]" % name, "block-size not an int")
        sizes.setdefault(bs, []).append(name)
    return sizes, ci


def run(prog, chk):
    fold = Folder(prog)
    chk.explanation = (
        "Decided exactly: padding/length arithmetic of _build_packet for every "
        "installable block size x {classic, ETM, AEAD} x every residue of "
        "len(payload) mod block size (all payload lengths); what send_message "
        "encrypts and MACs per mode; MAC/tag sizes of the algorithm tables. "
        "Not decided: that the cipher/MAC primitives compute correctly.")
    chk.assumptions = [
        "struct.pack, slicing and '+' on bytes have their Python meaning",
        "AESGCM appends a 16-byte tag (cryptography library)",
        "the evaluator refuses (exit 2) on any operation on len(payload) other "
        "than + - * const and % / comparisons it can decide per residue"]
    sizes, cipher_info = block_sizes(prog, fold)
    bp = prog.func("Packetizer._build_packet")
    params = bp.params()
    if len(params) != 2:
        raise AnalysisError("Packetizer._build_packet", "expected (self, payload)")
    payload = params[1]
    pmod = bp.module

    def consts(name):
        v = fold.name(pmod.name, name)
        return None if is_sym(v) else v

    points = 0
    for b in sorted(sizes):
        chk.ob("R0.block-size", "bsize=%d>=8" % b, b >= 8, bp.loc,
               "block size %d used by %s" % (b, ",".join(sizes[b])))
        for (mode, etm, aead) in MODES:
            bad = []
            for r in range(b):
                ev = ResidueEval(b, r, {
                    "self.__block_size_out": b, "self.__etm_out": etm,
                    "self.__aead_out": aead}, consts, "C03:_build_packet")
                ev.env[payload] = Byt(Lin(b, r), "payload")
                res = ev.run_body(bp.node.body)
                points += 1
                if not isinstance(res, Byt):
                    raise AnalysisError("Packetizer._build_packet", "does not return bytes")
                head = res.parts[0]
                if not (isinstance(head, Packed) and head.fmt.replace("!", ">") == ">IB"
                        and len(head.args) == 2):
                    raise AnalysisError("Packetizer._build_packet",
                                        "packet does not start with struct.pack('>IB', length, padding)")
                lenf, padf = head.args
                total = res.length
                problems = []
                if not (isinstance(padf, Lin) and padf.is_const()):
                    problems.append("padding depends on the quotient")
                else:
                    p = padf.const()
                    if not (4 <= p <= 255):
                        problems.append("padding=%d outside [4,255]" % p)
                    # bytes appended after the payload must be exactly `padding`
                    body_len = Lin(total.A - ev.symbolic_len().A, total.B - ev.symbolic_len().B - 5)
                    if not (body_len.A == 0 and body_len.B == p):
                        problems.append("padding field %d but %r bytes of padding appended" % (p, body_len))
                    if not any(x.tag == "payload" for x in res.parts):
                        problems.append("payload not part of the packet")
                if not (isinstance(lenf, Lin) and lenf.A == total.A and lenf.B == total.B - 4):
                    problems.append("length field %r != packet length - 4 (%r)" % (lenf, total))
                span = Lin(total.A, total.B - (4 if (etm or aead) else 0))
                if span.A % b or span.B % b:
                    problems.append("encrypted span %r not a multiple of %d" % (span, b))
                if max(b, 8) and not (etm or aead) and (total.A % 8 or total.B % 8):
                    problems.append("total length not a multiple of 8")
                if problems:
                    bad.append("L=%d mod %d: %s" % (r, b, "; ".join(problems)))
            chk.ob("R1.padding", "bsize=%d:%s" % (b, mode), not bad, bp.loc,
                   "all %d residues ok" % b if not bad else " | ".join(bad[:3]))
    chk.count("residue points", points)
    chk.exhaustive = True

    # R2: what is encrypted, per mode --------------------------------------------
    sm = prog.func("Packetizer.send_message")
    for (mode, etm, aead) in MODES:
        fl = Flow(prog, sm, env={"self.__etm_out": etm, "self.__aead_out": aead,
                                 "self.__block_engine_out is not None": True,
                                 "self.__block_engine_out is None": False})
        enc = []
        for (n, c) in fl.nodes_with_call():
            f = c.func
            if isinstance(f, ast.Attribute) and unparse(f.value) == "self.__block_engine_out":
                enc.append((n, c))
        chk.ob("R2.encrypt-call", mode, len(enc) == 1, sm.loc,
               "%d engine call(s) live in %s mode" % (len(enc), mode))
        for (n, c) in enc:
            want_method = "encrypt" if aead else "update"
            a = n.ast
            ok = isinstance(a, ast.Assign) and len(a.targets) == 1 and isinstance(a.targets[0], ast.Name)
            detail = unparse(a)[:160]
            if ok:
                outvar = a.targets[0].id
                val = fl.expand(a.value, n, depth=3)
                pk = None
                good = True
                for alt in val:
                    parts = M.flatten_add(alt)
                    if etm or aead:
                        # packet[0:4] + engine.<m>(... packet[4:] ...)
                        if len(parts) != 2:
                            good = False
                            break
                        s0 = M.slice_of(parts[0])
                        call = parts[1]
                        if not (s0 and s0[1] is None and s0[2] == "4" and M.is_call(call, attr=want_method)):
                            good = False
                            break
                        data = call.args[1] if aead and len(call.args) >= 3 else (call.args[0] if call.args else None)
                        s1 = M.slice_of(data) if data is not None else None
                        if not (s1 and s1[1] == "4" and s1[2] is None and unparse(s1[0]) == unparse(s0[0])):
                            good = False
                            break
                        if aead:
                            aad = M.slice_of(call.args[2])
                            if not (aad and aad[1] is None and aad[2] == "4" and unparse(aad[0]) == unparse(s0[0])):
                                good = False
                                break
                            if unparse(call.args[0]) != "self.__iv_out":
                                good = False
                                break
                        pk = s0[0]
                    else:
                        if not (len(parts) == 1 and M.is_call(parts[0], attr=want_method) and len(parts[0].args) == 1):
                            good = False
                            break
                        pk = parts[0].args[0]
                    if not M.is_call(pk, name="self._build_packet"):
                        good = False
                        break
                ok = good
                # the encrypted value must be what reaches write_all
                wa = fl.nodes_with_call(name="self.write_all")
                if len(wa) != 1 or unparse(wa[0][1].args[0]) != outvar:
                    ok = False
                    detail += " | write_all argument is not %s" % outvar
                else:
                    # no plain re-assignment of out between encryption and write_all
                    for (dn, rhs) in fl.defs(outvar, wa[0][0]):
                        if dn.kind == "stmt" and isinstance(dn.ast, ast.Assign) and dn.id != n.id:
                            ok = False
                            detail += " | %s reassigned at L%d" % (outvar, dn.lineno)
            chk.ob("R2.encrypted-span", mode, ok, fl.where(n), detail)

        # R3: MAC appended = compute_hmac(...)[:mac_size_out] (not under AEAD)
        macs = fl.nodes_with_call(name="compute_hmac")
        if aead:
            chk.ob("R3.mac", mode, len(macs) == 0, sm.loc,
                   "no separate MAC under AEAD (tag is part of the ciphertext)")
        else:
            ok = len(macs) == 1
            detail = "%d compute_hmac call(s)" % len(macs)
            if ok:
                n, c = macs[0]
                a = n.ast
                sub = getattr(c, "_parent", None)
                sl = M.slice_of(sub) if sub is not None else None
                ok = bool(sl and sl[1] is None and sl[2] == "self.__mac_size_out")
                ok = ok and isinstance(a, ast.AugAssign) and isinstance(a.op, ast.Add) and a.value is sub
                ok = ok and len(c.args) == 3 and unparse(c.args[0]) == "self.__mac_key_out" \
                    and unparse(c.args[2]) == "self.__mac_engine_out"
                detail = unparse(a)[:200]
            chk.ob("R3.mac", mode, ok, sm.loc, detail)

    # R4: tables -----------------------------------------------------------------
    tenv = fold.class_env("Transport")
    mi = tenv.get("_mac_info")
    if not isinstance(mi, dict):
        raise AnalysisError("Transport._mac_info", "table not foldable")
    chk.floor("R4", "MAC rows", len(mi), 8)
    tloc = prog.cls("Transport").module.path
    for name, row in sorted(mi.items()):
        cls = row.get("class")
        size = row.get("size")
        cname = cls.text.split(".")[-1] if is_sym(cls) else None
        ok = isinstance(size, int) and cname in DIGEST and 0 < size <= DIGEST[cname]
        if ok and name.split("@")[0].endswith("-96"):
            ok = size == 12
        elif ok:
            ok = size == DIGEST[cname]
        chk.ob("R4.mac-size", name, ok, tloc, "class=%s size=%r" % (cname, size))
    chk.floor("R4", "cipher rows", len(cipher_info), 9)

    # R5: the installed block size / mac size are the table's ---------------------
    ao = prog.func("Transport._activate_outbound")
    fl = Flow(prog, ao)
    calls = fl.nodes_with_call(attr="set_outbound_cipher")
    chk.floor("R5", "set_outbound_cipher call", len(calls), 1)
    for (n, c) in calls:
        bs = M.arg(c, 1, "block_size")
        alts = fl.expand_text(bs, n) if bs is not None else []
        ok = bool(alts) and all(t == "self._cipher_info[self.local_cipher]['block-size']" for t in alts)
        chk.ob("R5.block-size-origin", "_activate_outbound", ok, fl.where(n), "block_size <- %s" % alts)
        ms = M.arg(c, 3, "mac_size")
        alts = fl.expand_text(ms, n) if ms is not None else []
        want = "16 if self._cipher_info[self.local_cipher].get('is_aead', False) else self._mac_info[self.local_mac]['size']"
        ok = bool(alts) and all(t == want for t in alts)
        chk.ob("R5.mac-size-origin", "_activate_outbound", ok, fl.where(n), "mac_size <- %s" % alts)
    # set_outbound_cipher stores its parameters in the matching fields
    so = prog.func("Packetizer.set_outbound_cipher")
    want = {"__block_size_out": "block_size", "__mac_size_out": "mac_size",
            "__etm_out": "etm", "__aead_out": "aead", "__block_engine_out": "block_engine",
            "__mac_engine_out": "mac_engine", "__mac_key_out": "mac_key", "__iv_out": "iv_out",
            "__sdctr_out": "sdctr"}
    got = {}
    for (st, t, val) in attr_writes(so.node):
        got.setdefault(t.attr, []).append(unparse(val))
    for fld, par in sorted(want.items()):
        chk.ob("R5.setter", fld, got.get(fld) == [par], so.loc, "%s <- %s" % (fld, got.get(fld)))
    # ---- R6 the whole framed packet reaches the socket (write_all) -----------------------------------------
    _check_write_all(prog, chk)


def _check_write_all(prog, chk):
    """The length field describes what is written only if write_all writes all of it: the cursor that advances
    through `out` must be (re)defined on every path of each iteration before it is used, its only sources are the
    count send() returned, 0 for a retry and a negative value that raises, and the loop ends only when nothing is
    left."""
    from ..core.cfg import assigned_names
    wa = prog.func("Packetizer.write_all")
    fl = Flow(prog, wa, implicit=True)
    outp = wa.params()[1]
    loops = [n for n in walk_no_defs(wa.node) if isinstance(n, ast.While)]
    if len(loops) != 1:
        raise AnalysisError("Packetizer.write_all", "expected one send loop, found %d" % len(loops))
    lp = loops[0]
    adv = [s for s in walk_no_defs(lp) if isinstance(s, ast.Assign) and unparse(s.targets[0]) == outp]
    if len(adv) != 1 or M.slice_of(adv[0].value) is None or unparse(M.slice_of(adv[0].value)[0]) != outp or M.slice_of(adv[0].value)[2] is not None:
        raise AnalysisError("Packetizer.write_all", "cursor advance `out = out[n:]` not recognised")
    cur = M.slice_of(adv[0].value)[1]
    heads = [n for n in fl.cfg.nodes_for(lp) if n.kind == "loop_head"]
    test_nodes = [n for n in fl.nodes(lambda n: n.kind == "cond" and n.ast is lp.test)]
    body_entry = [d for t in test_nodes for (d, lab) in fl.cfg.succ[t.id] if lab == "T"]
    in_loop = set(id(x) for x in walk_no_defs(lp))
    defs_in_body = [n for n in fl.cfg.nodes if n.id in fl.live and n.ast is not None and cur in assigned_names(n)
                    and (id(n.ast) in in_loop or any(id(x) in in_loop for x in [n.ast]))]
    uses = [n for n in fl.cfg.nodes if n.id in fl.live and n.ast is not None and n.kind in ("stmt", "cond")
            and id(n.ast) in in_loop | set(id(x) for s in walk_no_defs(lp) for x in ast.walk(s))
            and any(isinstance(x, ast.Name) and x.id == cur and isinstance(x.ctx, ast.Load) for x in ast.walk(n.ast))
            and cur not in (assigned_names(n) if n.kind == "stmt" and not isinstance(n.ast, ast.AugAssign) and n.ast is not adv[0] else ())]
    chk.floor("R6", "uses of the write cursor", len(uses), 3)
    defids = set(d.id for d in defs_in_body)
    # an assignment defines the cursor only when it completes: its exception edge (send() raising) does not
    completes = lambda s_, lab, d_: s_ in defids and lab not in ("exc", "raise")
    # path-sensitive in the boolean flags the loop body sets to constants (retry_write): the arm a flag selects is followed
    flags = sorted(set(t.id for x in walk_no_defs(lp) if isinstance(x, ast.Assign) and isinstance(x.value, ast.Constant) and isinstance(x.value.value, bool)
                       for t in x.targets if isinstance(t, ast.Name)))
    bad = [u for u in uses if u.id not in defids and not fl.dominated_ps([u], flags, guard_edge=completes, start=body_entry)]
    chk.ob("R6.cursor-defined-in-this-iteration", "write_all:%s" % cur, not bad, wa.loc,
           "every use of %s in the loop is preceded, within the same iteration, by an assignment%s" % (
               cur, "" if not bad else "; not so at %s: a count left over from an earlier iteration (or from before the loop) would advance the cursor "
               "past bytes that were never written - the peer then sees a packet shorter than its length field" % ", ".join(fl.where(u) for u in bad)))
    srcs = sorted(set(unparse(d.ast.value) for d in defs_in_body if isinstance(d.ast, ast.Assign)))
    oksrc = all(s in ("self.__socket.send(%s)" % outp, "0", "-1") for s in srcs) and "self.__socket.send(%s)" % outp in srcs
    chk.ob("R6.cursor-sources", "write_all:%s" % cur, oksrc, wa.loc, "%s <- %s (send()'s count, 0 for a retry, -1 to give up)" % (cur, srcs))
    advn = [n for n in fl.cfg.nodes_for(adv[0])][0]
    g = fl.edge_guard(lambda t: unparse(t) in ("%s < 0" % cur, "0 > %s" % cur), "F")
    chk.ob("R6.negative-count-raises", "write_all", fl.dominated([advn], guard_edge=g), wa.loc, "the cursor advances only after `%s < 0` was tested false (true arm raises EOFError)" % cur)
    # normal exits: the loop test fails (nothing left) or the break under n == len(out)
    brks = [n for n in fl.nodes(lambda n: n.kind == "break")]
    okb = all(fl.dominated([b], guard_edge=fl.edge_guard(lambda t: unparse(t) in ("%s == len(%s)" % (cur, outp), "len(%s) == %s" % (outp, cur)), "T")) for b in brks)
    rets = [n for n in fl.nodes(lambda n: n.kind == "return") if id(n.ast) in set(id(x) for x in walk_no_defs(lp))]
    chk.ob("R6.loop-ends-only-when-all-written", "write_all", okb and not rets and unparse(lp.test) in ("len(%s) > 0" % outp, outp), wa.loc,
           "loop test `%s`; %d break(s) all under `%s == len(%s)`; no return inside the loop" % (unparse(lp.test), len(brks), cur, outp))
