"""C15 - unauthenticated clients cannot reach connection-layer services."""
import ast
from ..core.model import AnalysisError, unparse, dotted, walk_no_defs, enclosing_function
from ..core.consts import Folder
from ..core.cfg import eval3
from ..core.flow import Flow, node_calls, attr_writes
from ..core import match as M
from .c12 import handled_sets

APP_GATED = ("check_channel", "check_port_forward_request", "cancel_port_forward_request", "check_global_request")


def run(prog, chk):
    fold = Folder(prog)
    chk.explanation = (
        "Decided structurally: (R1) in Transport.run every call through _handler_table is on the false arm "
        "of the value returned by _ensure_authed(ptype, m), with nothing else able to route around it; "
        "(R2) with server_mode and not-authenticated fixed, _ensure_authed returns a reply object (never "
        "None) for every transport-table type above HIGHEST_USERAUTH_MESSAGE_ID, and that constant lies "
        "between the auth types and the connection types; (R3) channels are constructed/registered only in "
        "open_channel and _parse_channel_open; (R4) every server_object call that consults the application "
        "about channels, forwards or global requests sits in a function reachable only through the gated "
        "table or through a channel handler (which needs an existing channel), and the unknown-channel arm "
        "touches neither; (R5) is_authenticated() is active && auth_handler && auth_handler.is_authenticated() "
        "and the latter returns the flag only _send_auth_result sets (C14-R1).")
    chk.assumptions = ["a Message object is truthy (no __bool__/__len__ defined)"]
    run_f = prog.func("Transport.run")
    fl = Flow(prog, run_f)
    # R1 -------------------------------------------------------------------------------------
    disp = [(n, c) for (n, c) in fl.nodes_with_call() if isinstance(c.func, ast.Subscript) and unparse(c.func.value) == "self._handler_table"]
    gate = [(n, c) for (n, c) in fl.nodes_with_call(name="self._ensure_authed")]
    ok = len(disp) == 1 and len(gate) == 1 and isinstance(gate[0][0].ast, ast.Assign) and isinstance(gate[0][0].ast.targets[0], ast.Name)
    if not ok:
        raise AnalysisError("Transport.run", "expected one _handler_table dispatch and one `x = self._ensure_authed(...)`")
    ev = gate[0][0].ast.targets[0].id
    args = [unparse(a) for a in gate[0][1].args]
    dargs = [unparse(a) for a in disp[0][1].args]
    conds = fl.nodes(lambda n: n.kind == "cond" and unparse(n.ast) in (ev, "%s is not None" % ev, "%s is None" % ev))
    okarm = {}
    for c in conds:
        okarm[c.id] = "T" if unparse(c.ast).endswith("is None") else "F"
    g = lambda s, lab, d: s in okarm and lab == okarm[s]
    ok = bool(conds) and fl.dominated([disp[0][0]], guard_edge=g) and fl.dominated([disp[0][0]], guard_nodes=[gate[0][0]], complete=True)
    ok = ok and args == ["ptype", "m"] and dargs == ["m"] and unparse(disp[0][1].func.slice) == "ptype"
    # the gate result is the one tested: single reaching def
    for c in conds:
        ds = fl.defs(ev, c)
        ok = ok and [d[0].id for d in ds] == [gate[0][0].id]
    chk.ob("R1.gate-dominates-dispatch", "run", ok, fl.where(disp[0][0]),
           "self._handler_table[ptype](m) only on the no-error arm of %s = _ensure_authed(ptype, m)" % ev
           if ok else "dispatch reachable around the gate: " + fl.witness([disp[0][0]], guard_edge=g))
    # the refusal arm sends the reply and does not dispatch
    for c in conds:
        bad = "T" if okarm[c.id] == "F" else "F"
        bs = [d for (d, lab) in fl.cfg.succ[c.id] if lab == bad]
        heads = [n.id for n in fl.cfg.nodes if n.kind == "loop_head" and unparse(n.ast.test) == "self.active"]
        r = fl.cfg.reach(bs, avoid_nodes=set(heads))
        chk.ob("R1.refusal-arm-does-not-dispatch", "run", disp[0][0].id not in r, fl.where(c), "refusal arm cannot reach the dispatch in the same iteration")

    # R2 -------------------------------------------------------------------------------------
    ea = prog.func("Transport._ensure_authed")
    cenv = fold.module_env("common")
    hi = cenv.get("HIGHEST_USERAUTH_MESSAGE_ID")
    hs = handled_sets(prog, fold)
    conn = [k for k in hs["transport"] if k is not None and k >= 80] + hs["channel"]
    auth = sorted(set(hs["auth-server"] + hs["auth-client"]))
    ok = isinstance(hi, int) and all(k > hi for k in conn) and all(k <= hi for k in auth) and all(
        k <= hi for k in hs["transport"] if k is not None and k < 50)
    chk.ob("R2.boundary-constant", "HIGHEST_USERAUTH_MESSAGE_ID", ok, "paramiko/common.py",
           "%r: auth types %s <= it < connection types %s" % (hi, auth, sorted(conn)))
    pt = ea.params()[1]
    gated_types = sorted(k for k in hs["transport"] if k is not None and k >= 80)
    chk.floor("R2", "gated transport-table types", len(gated_types), 5)
    names = dict((v, k) for k, v in cenv.items() if k.startswith("MSG_") and isinstance(v, int))
    for k in gated_types:
        env = {"self.server_mode": True, "self.is_authenticated()": False, "HIGHEST_USERAUTH_MESSAGE_ID": hi, pt: k}
        for nm, v in cenv.items():
            if nm.startswith("MSG_") and isinstance(v, int):
                env[nm] = v
        fe = Flow(prog, ea, env=env)
        rets = fe.nodes(lambda n: n.kind == "return")
        nones = [r for r in rets if r.ast.value is None or (isinstance(r.ast.value, ast.Constant) and r.ast.value.value is None)]
        objs = [r for r in rets if r not in nones]
        ok = not nones and bool(objs) and fe.cfg.exit.id in fe.live
        # the returned object is a Message built in this function
        for r in objs:
            ds = fe.defs(unparse(r.ast.value), r) if isinstance(r.ast.value, ast.Name) else []
            ok = ok and bool(ds) and all(rhs is not None and unparse(rhs) == "Message()" for (d, rhs) in ds)
        # falling off the end would return None
        ok = ok and fe.exit_dominated(guard_nodes=objs)
        chk.ob("R2.gate-tight", names.get(k, str(k)), ok, ea.loc,
               "unauthenticated server: type %d always yields a refusal object (%d `return None` live)" % (k, len(nones)))

    # R3 ---------------------------------------------------------------------------------------
    ctor = []
    puts = []
    for f in prog.all_functions():
        for c in walk_no_defs(f.node):
            if M.is_call(c, name="Channel"):
                ctor.append(f.qual)
            if M.is_call(c, name="self._channels.put"):
                puts.append(f.qual)
    allowed = ["Transport._parse_channel_open", "Transport.open_channel"]
    chk.ob("R3.channel-birth-sites", "Channel()", sorted(set(ctor)) == allowed, run_f.loc, "constructed in %s" % sorted(set(ctor)))
    chk.ob("R3.channel-birth-sites", "_channels.put", sorted(set(puts)) == allowed, run_f.loc, "registered in %s" % sorted(set(puts)))

    # R4 -----------------------------------------------------------------------------------------
    sites = {}
    for f in prog.all_functions():
        for c in walk_no_defs(f.node):
            nm = dotted(c.func) if isinstance(c, ast.Call) else None
            if nm and ".server_object." in "." + nm + "." or (nm and nm.startswith("server.")):
                last = nm.rsplit(".", 1)[1]
                if last.startswith(APP_GATED):
                    sites.setdefault(f.qual, []).append(last)
    allowed_fns = {"Transport._parse_global_request", "Transport._parse_channel_open", "Channel._handle_request"}
    chk.floor("R4", "application-consulting call sites", sum(len(v) for v in sites.values()), 8)
    for fq, calls in sorted(sites.items()):
        chk.ob("R4.app-consulted-behind-gate", fq, fq in allowed_fns, prog.func(fq).loc, "calls %s" % sorted(set(calls)))
    # those functions are referenced only from the dispatch tables
    for fq in sorted(allowed_fns):
        cn, mn = fq.split(".")
        refs = []
        for f in prog.all_functions():
            for n in walk_no_defs(f.node):
                if isinstance(n, ast.Attribute) and n.attr == mn and isinstance(getattr(n, "_parent", None), ast.Call) \
                        and n._parent.func is n:
                    refs.append(f.qual)
        chk.ob("R4.only-via-tables", fq, not refs, prog.func(fq).loc, "direct callers: %s" % sorted(set(refs)))
    # unknown-channel arm: no handler call, no server_object access
    chn = [(n, c) for (n, c) in fl.nodes_with_call() if isinstance(c.func, ast.Subscript) and unparse(c.func.value) == "self._channel_handler_table"]
    ok = len(chn) == 1
    if ok:
        gg = fl.edge_guard(lambda t: unparse(t) in ("chan is not None",), "T")
        ok = fl.dominated([chn[0][0]], guard_edge=gg)
        cd = fl.defs("chan", chn[0][0])
        ok = ok and all(r is not None and unparse(r) == "self._channels.get(chanid)" for (d, r) in cd)
        # None arm
        cn_ = fl.nodes(lambda n: n.kind == "cond" and unparse(n.ast) == "chan is not None")
        if cn_:
            fs = [d for (d, lab) in fl.cfg.succ[cn_[0].id] if lab == "F"]
            heads = [n.id for n in fl.cfg.nodes if n.kind == "loop_head" and unparse(n.ast.test) == "self.active"]
            r = fl.cfg.reach(fs, avoid_nodes=set(heads))
            touched = [fl.cfg.nodes[i] for i in r if any("server_object" in unparse(c) or isinstance(c.func, ast.Subscript) for c in node_calls(fl.cfg.nodes[i]))]
            ok = ok and not touched
    chk.ob("R4.unknown-channel-arm-inert", "run", ok, run_f.loc, "channel handlers only for a registered channel; the unknown-channel arm logs only")

    # R5 -------------------------------------------------------------------------------------------
    ia = prog.func("Transport.is_authenticated")
    rets = [n for n in walk_no_defs(ia.node) if isinstance(n, ast.Return)]
    want = "self.active and self.auth_handler is not None and self.auth_handler.is_authenticated()"
    chk.ob("R5.is-authenticated", "Transport.is_authenticated", len(rets) == 1 and unparse(rets[0].value) == want, ia.loc,
           "returns %s" % (unparse(rets[0].value) if rets else "?"))
    ha = prog.func("AuthHandler.is_authenticated")
    rets = [n for n in walk_no_defs(ha.node) if isinstance(n, ast.Return)]
    chk.ob("R5.is-authenticated", "AuthHandler.is_authenticated", len(rets) == 1 and unparse(rets[0].value) == "self.authenticated", ha.loc,
           "returns %s" % (unparse(rets[0].value) if rets else "?"))
    # every other object that can stand in as transport.auth_handler answers the question with a boolean that comes from
    # the real handler's flag: an is_authenticated that returns something else (a bound method is always true) opens the gate
    for f_ in prog.all_functions():
        if f_.name != "is_authenticated" or f_.qual in ("Transport.is_authenticated", "AuthHandler.is_authenticated") or f_.cls is None:
            continue
        if prog.is_subclass(f_.cls.name, "Transport"):
            continue
        rv = [n.value for n in walk_no_defs(f_.node) if isinstance(n, ast.Return)]
        okd = bool(rv) and all(v is not None and (unparse(v) == "self.authenticated" or
                                                  (isinstance(v, ast.Call) and isinstance(v.func, ast.Attribute) and v.func.attr == "is_authenticated" and not v.args)) for v in rv)
        is_prop = any(unparse(d) == "property" for d in f_.node.decorator_list)
        chk.ob("R5.is-authenticated", f_.qual, okd and not is_prop, f_.loc,
               "returns %s%s" % ([unparse(v) if v is not None else "None" for v in rv], " (a property: called as a method it would fail)" if is_prop else ""))
    # the server-side auth handler object is created once and never replaced by a fresh (unauthenticated->reset) one
    creators = []
    for f in prog.all_functions():
        if f.cls is None or not prog.is_subclass(f.cls.name, "Transport"):
            continue
        ff = None
        for (st, t, v) in attr_writes(f.node):
            if t.attr == "auth_handler" and isinstance(t.value, ast.Name) and t.value.id == "self" and M.is_call(v) and \
                    dotted(v.func) in ("AuthHandler", "AuthOnlyHandler"):
                if f.name == "_parse_newkeys":
                    ff = ff or Flow(prog, f)
                    nodes = ff.cfg.nodes_for(st)
                    gg = ff.edge_guard(lambda t_: unparse(t_) == "self.auth_handler is None", "T")
                    chk.ob("R5.server-auth-handler-created-once", f.qual, bool(nodes) and ff.dominated(nodes, guard_edge=gg),
                           "%s:%d" % (f.module.path, st.lineno), "AuthHandler(self) only when none exists (rekey keeps auth state)")
                creators.append(f.qual)
    chk.note("auth_handler creators: %s" % sorted(set(creators)))
