"""C35 - signature verification is total, agrees with signing, works for every key object."""
import ast
from ..core.model import AnalysisError, unparse, dotted, walk_no_defs
from ..core.flow import Flow, node_calls, attr_writes
from ..core.callgraph import CallGraph
from ..core.escape import Escapes, lib_verify_call
from ..core.consts import Folder
from ..core import match as M

KEYS = ["RSAKey", "ECDSAKey", "Ed25519Key"]
# methods documented to need a private key (callers test can_sign() first): dereferencing the
# signing half there is the caller's contract, not a property of "every key object"
PRIVATE_ONLY = {"sign_ssh_data", "write_private_key", "write_private_key_file", "__init__"}
CERT_SUFFIX = "-cert-v01@openssh.com"


def _optional_fields(prog, cg, cls):
    """fields of cls that __init__ may leave None on a normal exit.  A call of a self-method whose
    closure assigns the field counts as an assignment (the loaders)."""
    init = prog.method(cls, "__init__")
    fl = Flow(prog, init, implicit=True)
    fields = sorted(set(t.attr for (_, t, _) in attr_writes(init.node) if M_self(t)))
    writers = {}
    for (n, c) in fl.nodes_with_call():
        if isinstance(c.func, ast.Attribute) and unparse(c.func.value) == "self":
            m = prog.method(cls, c.func.attr, required=False)
            if m is None:
                continue
            w = set()
            for q in cg.closure([m.qual]):
                fq = cg.funcs.get(q)
                if fq is not None and fq.cls is not None and prog.is_subclass(cls, fq.cls.name):
                    for (_, t, _) in attr_writes(fq.node):
                        if M_self(t):
                            w.add(t.attr)
            writers.setdefault(n.id, set()).update(w)

    def transfer(node, st):
        d = dict(st)
        for fld in writers.get(node.id, ()):
            if fld in d:
                d[fld] = "S"
        a = node.ast
        if node.kind == "stmt" and isinstance(a, ast.Assign):
            for t in a.targets:
                elts = t.elts if isinstance(t, (ast.Tuple, ast.List)) else [t]
                for e in elts:
                    if M_self(e) and e.attr in d:
                        if len(elts) > 1:
                            d[e.attr] = "S"
                            continue
                        alts = fl.expand(a.value, node, depth=3)
                        d[e.attr] = "N" if any(isinstance(x, ast.Constant) and x.value is None for x in alts) else "S"
        return [tuple(sorted(d.items()))]

    init_state = tuple(sorted((f, "U") for f in fields))
    ins, outs = fl.cfg.forward(init_state, transfer, avoid_edge=fl.avoid)
    opt = set()
    for st in ins[fl.cfg.exit.id]:
        for (f, v) in st:
            if v == "N":
                opt.add(f)
    # "at least one of" invariants: `if a is None and b is None: raise` on the locals later stored
    pairs = []
    for n in fl.nodes(lambda n: n.kind == "cond"):
        pass
    for x in walk_no_defs(init.node):
        if isinstance(x, ast.If) and isinstance(x.test, ast.BoolOp) and isinstance(x.test.op, ast.And) \
                and all(_none_name(v) for v in x.test.values) and x.body and isinstance(x.body[0], ast.Raise):
            names = [_none_name(v) for v in x.test.values]
            flds = []
            for (s, t, v) in attr_writes(init.node):
                if M_self(t) and v is not None and unparse(v) in names:
                    flds.append(t.attr)
            if len(flds) == len(names):
                pairs.append(tuple(flds))
    return fields, opt, pairs


def M_self(t):
    return isinstance(t, ast.Attribute) and isinstance(t.value, ast.Name) and t.value.id == "self"


def _nc(fl, expr):
    ns = [n for n in fl.cfg.node_containing(expr) if n.id in fl.live]
    if not ns:
        raise AnalysisError(fl.f.qual, "expression %s is in no live CFG node" % unparse(expr)[:40])
    return ns[0]


def _none_name(test):
    """name text if test is `<name> is None`."""
    cp = M.compare_parts(test)
    if cp and cp[1] is ast.Is and isinstance(cp[2], ast.Constant) and cp[2].value is None:
        return unparse(cp[0])
    return None


def _nonnull_tests(prog, cls, fld):
    """texts of tests that, when true, establish self.<fld> is not None."""
    out = {"self.%s is not None" % fld: "T", "self.%s is None" % fld: "F", "self.%s" % fld: "T", "not self.%s" % fld: "F"}
    for k in prog.mro(cls):
        for name, m in k.methods.items():
            body = [s for s in m.node.body if not (isinstance(s, ast.Expr) and isinstance(s.value, ast.Constant))]
            if len(body) == 1 and isinstance(body[0], ast.Return) and body[0].value is not None \
                    and unparse(body[0].value) == "self.%s is not None" % fld and len(m.params()) == 1:
                out["self.%s()" % name] = "T"
                out["not self.%s()" % name] = "F"
    return out


def run(prog, chk):
    chk.explanation = (
        "Decides the structural clauses of C35, not cryptographic correctness. R1 (exception-escape analysis over "
        "the resolved call graph with a frozen catalogue of partial operations): no exception leaves verify_ssh_sig "
        "of RSAKey / ECDSAKey / Ed25519Key - the strict UTF-8 decode of the algorithm name, encode_dss_signature "
        "and the library verify calls sit under handlers - and every return is a boolean constant, True only after "
        "the library verify call returned. R2 (null-belief rule): a field that __init__ can leave None is only "
        "dereferenced, in methods every key object must support, under a test that establishes it (directly, via "
        "can_sign(), or via the constructor's 'at least one of' invariant on the complementary arm). R3 sign/verify "
        "agreement: same hash table and padding (RSA), same curve hash (ECDSA), emitted algorithm name is one the "
        "verifier accepts with the same hash, r/s order and mpint layout agree, signature message layout "
        "[string name, string blob] on both sides, the verified bytes are the caller's data. R4: the object handed "
        "to the library verify is a public key on every path (RSA converts a private key first).")
    chk.assumptions = [
        "catalogue of partial operations (core/escape.py): get_text/get_list decode strictly; encode_dss_signature "
        "raises ValueError; nacl VerifyKey.verify raises BadSignatureError or nacl ValueError; cryptography verify "
        "raises InvalidSignature; operations not catalogued are total",
        "Message.get_binary/get_mpint never raise (short reads return what is there; the subscripts inside them and inside "
        "inflate_long are decided by the length-guard analysis)"]
    kex = []
    cg = CallGraph(prog, kex)
    from ..core.escape import unguarded_constant_subscripts, unguarded_variable_subscripts
    idx_cache = {}

    def extra_sites(f):
        # the decoders under get_mpint / get_binary index the bytes they were given: an index needs an established length
        out = []
        if f.module.name in ("util", "message", "rsakey", "ecdsakey", "ed25519key"):
            if f.qual not in idx_cache:
                try:
                    idx_cache[f.qual] = [(x, why) for (x, need, have, why) in unguarded_constant_subscripts(prog, f)] + list(unguarded_variable_subscripts(prog, f))
                except AnalysisError:
                    idx_cache[f.qual] = []
            for (x, why) in idx_cache[f.qual]:
                out.append((x, "IndexError", why))
        return out
    esc = Escapes(prog, cg, extra_sites=extra_sites)
    fold = Folder(prog)

    for K in KEYS:
        v = prog.method(K, "verify_ssh_sig")
        if v.cls.name != K:
            raise AnalysisError("%s.verify_ssh_sig" % K, "not defined by the class itself")
        # ---- R1 totality
        es = esc.of(v.qual)
        chk.count("R1 functions analysed for escapes", 1)
        if not es:
            chk.ob("R1.verify-never-raises", K, True, v.loc, "no catalogued exception escapes %s" % v.qual)
        for (c, origin) in sorted(es):
            site = origin.split(" at ")[0]
            if c == "TypeError" and site == "raise" and origin.endswith(("via util.u", "via util.b")):
                # the type guard of util.u / util.b: Message.get_text hands u() the bytes get_string() returned
                chk.note("not a verification failure: %s (%s)" % (origin, "argument is always bytes here"))
                continue
            chk.ob("R1.verify-never-raises", "%s:%s:%s" % (K, c, site), False, v.loc, "%s may escape: %s" % (c, origin))
        fl = Flow(prog, v, implicit=True, )
        rets = fl.nodes(lambda n: n.kind == "return")
        chk.floor("R1", "%s.verify_ssh_sig returns" % K, len(rets), 2)
        lib = [(n, c) for (n, c) in fl.nodes_with_call(attr="verify") if lib_verify_call(c)]
        if len(lib) != 1:
            raise AnalysisError(v.qual, "expected exactly one library verify call, found %d" % len(lib))
        vn, vc = lib[0]
        for i, r in enumerate(rets):
            val = r.ast.value
            isbool = isinstance(val, ast.Constant) and isinstance(val.value, bool)
            chk.ob("R1.returns-boolean", "%s#%d" % (K, i), isbool, fl.where(r), "returns %s" % (unparse(val) if val is not None else "None"))
            if isbool and val.value is True:
                # every path to `return True` runs the verify call and leaves it normally
                exc_out = fl.cfg.dominated([r.id], [vn.id], None, fl.avoid, None)
                after_exc = any(lab == "exc" and r.id in fl.cfg.reach([d], avoid_edge=fl.avoid) for (lab, d) in fl.cfg.succ[vn.id])
                chk.ob("R1.true-only-after-library-verify", "%s#%d" % (K, i), exc_out and not after_exc, fl.where(r),
                       "`return True` is reached only through a normally-returning %s" % unparse(vc.func))
        if fl.cfg.dominated([fl.cfg.exit.id], [r.id for r in rets], None, fl.avoid, None) is False:
            chk.ob("R1.returns-boolean", "%s#fallthrough" % K, False, v.loc, "a path falls off the end (returns None)")
        # the verified message is the caller's data; the signature is what was read from msg
        ps = v.params()
        argt = [unparse(a) for a in vc.args]
        chk.ob("R3.verifies-callers-data", K, ps[1] in argt, fl.where(vc), "library verify arguments %s include %r" % (argt, ps[1]))

        # ---- R3 layout on both sides
        s = prog.method(K, "sign_ssh_data")
        adds = [c for c in walk_no_defs(s.node) if isinstance(c, ast.Call) and isinstance(c.func, ast.Attribute) and c.func.attr.startswith("add_")]
        chk.ob("R3.signature-message-layout", "%s.sign" % K, [c.func.attr for c in adds] == ["add_string", "add_string"], s.loc,
               "sign emits %s" % [c.func.attr for c in adds])
        gets = [c for c in walk_no_defs(v.node) if isinstance(c, ast.Call) and isinstance(c.func, ast.Attribute)
                and c.func.attr.startswith("get_") and unparse(c.func.value) == ps[2]]
        gets.sort(key=lambda c: (c.lineno, c.col_offset))
        chk.ob("R3.signature-message-layout", "%s.verify" % K, [c.func.attr for c in gets] == ["get_text", "get_binary"], v.loc,
               "verify reads %s" % [c.func.attr for c in gets])

    # ---- R3 per algorithm ------------------------------------------------------------------
    # RSA
    s = prog.method("RSAKey", "sign_ssh_data")
    v = prog.method("RSAKey", "verify_ssh_sig")
    hashes = fold.class_env("RSAKey").get("HASHES")
    if not isinstance(hashes, dict) or not hashes:
        raise AnalysisError("RSAKey.HASHES", "table did not fold")
    chk.floor("R3", "RSAKey.HASHES entries", len(hashes), 6)
    for name, h in sorted(hashes.items()):
        short = name.replace(CERT_SUFFIX, "")
        chk.ob("R3.rsa-emitted-name-verifies-with-same-hash", name, short in hashes and repr(hashes.get(short)) == repr(h),
               s.loc, "signing as %s emits %s; verifier maps that to %r, signer used %r" % (name, short, hashes.get(short), h))
    expect = {"rsa-sha2-256": "SHA256", "rsa-sha2-512": "SHA512", "ssh-rsa": "SHA1"}
    for name, hn in expect.items():
        chk.ob("R3.rsa-name-hash-table", name, name in hashes and repr(hashes[name]).endswith(hn + "'>") or hn in repr(hashes.get(name)), s.loc,
               "%s -> %r (RFC 8332 / RFC 4253)" % (name, hashes.get(name)))
    fs = Flow(prog, s, implicit=False)
    fv = Flow(prog, v, implicit=False)
    sc = [c for (n, c) in fs.nodes_with_call(attr="sign")]
    vc = [c for (n, c) in fv.nodes_with_call(attr="verify")]
    if len(sc) != 1 or len(vc) != 1:
        raise AnalysisError("RSAKey", "sign/verify call shape changed")

    def kwargs(c, names):
        d = {}
        for i, a in enumerate(c.args):
            d[names[i]] = a
        for k in c.keywords:
            d[k.arg] = k.value
        return d
    sk = kwargs(sc[0], ["data", "padding", "algorithm"])
    vk = kwargs(vc[0], ["signature", "data", "padding", "algorithm"])
    chk.ob("R3.rsa-padding-agrees", "RSAKey", unparse(sk.get("padding")) == unparse(vk.get("padding")) == "padding.PKCS1v15()", s.loc,
           "sign %s / verify %s" % (unparse(sk.get("padding")), unparse(vk.get("padding"))))
    sa, va = unparse(sk.get("algorithm")), unparse(vk.get("algorithm"))
    ok = sa.startswith("self.HASHES[") and va.startswith("self.HASHES[") and sa.endswith("]()") and va.endswith("]()")
    chk.ob("R3.rsa-hash-from-shared-table", "RSAKey", ok, s.loc, "sign %s / verify %s" % (sa, va))
    # the name written is derived from the very name used to pick the hash; the name read is the one used to pick the hash
    sidx = sk["algorithm"].func.slice if ok else None
    vidx = vk["algorithm"].func.slice if ok else None
    # the hash that goes with a curve (RFC 5656 s6.2.1: b <= 256 -> SHA-256, 256 < b <= 384 -> SHA-384, else SHA-512),
    # evaluated from _ECDSACurve.__init__ over the threshold grid; a key that signs and verifies with another hash is
    # consistent with itself and with nobody else
    from ..core.interp import Interp, Obj, Refuse
    ci = prog.func("_ECDSACurve.__init__")
    cps = ci.params()
    badh = None
    nh = 0
    for bits in (160, 255, 256, 257, 383, 384, 385, 512, 521):
        want = "SHA256" if bits <= 256 else ("SHA384" if bits <= 384 else "SHA512")
        selfo = Obj()
        it = Interp(intrinsics={"hashes": Obj(SHA256="SHA256", SHA384="SHA384", SHA512="SHA512", SHA1="SHA1", SHA224="SHA224")}, arith=False)
        try:
            kind, val = it.call_function(ci.node, {cps[0]: selfo, cps[1]: Obj(key_size=bits), cps[2]: "nistpX"})
        except Refuse as e:
            raise AnalysisError("_ECDSACurve.__init__", "not evaluable: %s" % (e,))
        nh += 1
        got = getattr(selfo, "hash_object", None)
        if (kind != "return" or got != want) and badh is None:
            badh = "key size %d: %s, hash %r (RFC 5656 wants %s)" % (bits, kind, got, want)
    chk.ob("R3.ecdsa-hash-follows-curve-size", "_ECDSACurve.__init__", badh is None, ci.loc,
           "%d key sizes evaluated%s" % (nh, "" if badh is None else "; first failing: " + badh))
    adds = [c for c in walk_no_defs(s.node) if M.is_call(c, attr="add_string")]
    first = unparse(adds[0].args[0]) if adds else ""
    chk.ob("R3.rsa-emits-name-of-hash-used", "RSAKey", ok and first == "%s.replace('%s', '')" % (unparse(sidx), CERT_SUFFIX), s.loc,
           "first field %s; hash chosen by %s" % (first, unparse(sidx) if ok else "?"))
    vdefs = fv.expand_text(vidx, _nc(fv,vc[0]), depth=2) if ok else []
    chk.ob("R3.rsa-verifies-with-hash-of-name-read", "RSAKey", vdefs == ["msg.get_text()"], v.loc, "hash chosen by %s" % vdefs)
    memb = fv.edge_guard(lambda t: unparse(t) == "%s not in self.HASHES" % (unparse(vidx) if ok else "?"), "F")
    chk.ob("R3.rsa-unknown-name-rejected", "RSAKey", ok and fv.dominated([_nc(fv,vc[0])], guard_edge=memb), v.loc,
           "the library verify runs only for a name in HASHES")
    # R4 RSA: a private key object is converted first
    recv = unparse(vc[0].func.value)
    vnode = _nc(fv,vc[0])
    conv = fv.nodes(lambda n: n.kind == "stmt" and isinstance(n.ast, ast.Assign) and unparse(n.ast.targets[0]) == recv
                    and unparse(n.ast.value) == "%s.public_key()" % recv)
    notpriv = fv.edge_guard(lambda t: unparse(t) == "isinstance(%s, rsa.RSAPrivateKey)" % recv, "F")
    chk.ob("R4.rsa-verifies-with-public-key", "RSAKey", recv != "self.key" and bool(conv) and fv.dominated([vnode], guard_nodes=conv, guard_edge=notpriv),
           v.loc, "receiver %s: a private key object is replaced by its public_key() before verify" % recv)
    # the zero padding never truncates: the only rewrite of the signature prepends bytes
    signame = unparse(vk["signature"])
    rew = [n for n in fv.nodes(lambda n: n.kind == "stmt" and isinstance(n.ast, ast.Assign) and unparse(n.ast.targets[0]) == signame)]
    okrew = True
    for n in rew:
        t = unparse(n.ast.value)
        if t == "msg.get_binary()":
            continue
        if not (isinstance(n.ast.value, ast.BinOp) and isinstance(n.ast.value.op, ast.Add) and unparse(n.ast.value.right) == signame):
            okrew = False
    chk.ob("R3.rsa-signature-bytes-kept", "RSAKey", okrew and bool(rew), v.loc, "signature is msg.get_binary(), optionally left-padded")

    # ECDSA
    s = prog.method("ECDSAKey", "sign_ssh_data")
    v = prog.method("ECDSAKey", "verify_ssh_sig")
    fs = Flow(prog, s, implicit=False)
    fv = Flow(prog, v, implicit=False)
    sc = [(n, c) for (n, c) in fs.nodes_with_call(attr="sign")]
    vc = [(n, c) for (n, c) in fv.nodes_with_call(attr="verify")]
    if len(sc) != 1 or len(vc) != 1:
        raise AnalysisError("ECDSAKey", "sign/verify call shape changed")
    salg = fs.expand_text(sc[0][1].args[1], sc[0][0], depth=2) if len(sc[0][1].args) > 1 else []
    valg = fv.expand_text(vc[0][1].args[2], vc[0][0], depth=2) if len(vc[0][1].args) > 2 else []
    chk.ob("R3.ecdsa-curve-hash-both-sides", "ECDSAKey", salg == valg == ["ec.ECDSA(self.ecdsa_curve.hash_object())"], s.loc,
           "sign %s / verify %s" % (salg, valg))
    adds = [c for c in walk_no_defs(s.node) if M.is_call(c, attr="add_string")]
    emitted = unparse(adds[0].args[0]) if adds else ""
    cmp_ = [x for x in walk_no_defs(v.node) if isinstance(x, ast.Compare) and isinstance(x.ops[0], (ast.NotEq, ast.Eq))]
    oknm = False
    for x in cmp_:
        l, r = x.left, x.comparators[0]
        lt = fv.expand_text(l, _nc(fv,x), depth=2)
        if unparse(r) == emitted and lt == ["msg.get_text()"] and isinstance(x.ops[0], ast.NotEq):
            nd = _nc(fv,x)
            g = fv.edge_guard(lambda t, x=x: t is x or unparse(t) == unparse(x), "F")
            oknm = fv.dominated([vc[0][0]], guard_edge=g)
    chk.ob("R3.ecdsa-name-agrees", "ECDSAKey", oknm and emitted == "self.ecdsa_curve.key_format_identifier", v.loc,
           "sign emits %s; verify proceeds only when the name read equals it" % emitted)
    enc = prog.method("ECDSAKey", "_sigencode")
    dec = prog.method("ECDSAKey", "_sigdecode")
    ea = [(c.func.attr, unparse(c.args[0])) for c in walk_no_defs(enc.node) if isinstance(c, ast.Call) and isinstance(c.func, ast.Attribute) and c.func.attr.startswith("add_")]
    ep = enc.params()
    chk.ob("R3.ecdsa-rs-layout", "_sigencode", ea == [("add_mpint", ep[1]), ("add_mpint", ep[2])], enc.loc, "writes %s" % ea)
    fd = Flow(prog, dec, implicit=False)
    drets = fd.nodes(lambda n: n.kind == "return")
    okd = len(drets) == 1
    if okd:
        alts = fd.expand_text(drets[0].ast.value, drets[0], depth=2)
        # two successive get_mpint() reads in order: the names bound in order r, s and returned in that order
        gm = [n for n in fd.nodes(lambda n: n.kind == "stmt" and isinstance(n.ast, ast.Assign) and M.is_call(n.ast.value, attr="get_mpint"))]
        order = [unparse(n.ast.targets[0]) for n in sorted(gm, key=lambda n: n.lineno)]
        okd = len(order) == 2 and unparse(drets[0].ast.value) in ("(%s, %s)" % tuple(order), "%s, %s" % tuple(order))
    chk.ob("R3.ecdsa-rs-layout", "_sigdecode", okd, dec.loc, "reads two mpints and returns them in wire order")
    # sign: r, s = decode_dss_signature(sig) -> _sigencode(r, s); verify: R, S = _sigdecode -> encode_dss_signature(R, S)
    se = [c for c in walk_no_defs(s.node) if M.is_call(c, name="self._sigencode")]
    sd = [st for st in walk_no_defs(s.node) if isinstance(st, ast.Assign) and M.is_call(st.value, name="decode_dss_signature")]
    oks = len(se) == 1 and len(sd) == 1 and isinstance(sd[0].targets[0], ast.Tuple) and \
        [unparse(a) for a in se[0].args] == [unparse(e) for e in sd[0].targets[0].elts]
    chk.ob("R3.ecdsa-rs-order", "sign", oks, s.loc, "r, s = decode_dss_signature(sig); _sigencode(r, s)")
    ve = [c for c in walk_no_defs(v.node) if M.is_call(c, name="encode_dss_signature")]
    vd = [st for st in walk_no_defs(v.node) if isinstance(st, ast.Assign) and M.is_call(st.value, name="self._sigdecode")]
    okv = len(ve) == 1 and len(vd) == 1 and isinstance(vd[0].targets[0], ast.Tuple) and \
        [unparse(a) for a in ve[0].args] == [unparse(e) for e in vd[0].targets[0].elts]
    chk.ob("R3.ecdsa-rs-order", "verify", okv, v.loc, "R, S = _sigdecode(sig); encode_dss_signature(R, S)")
    if okv:
        sigarg = fv.expand_text(vc[0][1].args[0], vc[0][0], depth=1)
        chk.ob("R3.ecdsa-verifies-decoded-signature", "ECDSAKey", sigarg == [unparse(ve[0])], v.loc, "library verify gets %s" % sigarg)
        darg = fv.expand_text(vd[0].value.args[0], _nc(fv,vd[0]), depth=1)
        chk.ob("R3.ecdsa-verifies-decoded-signature", "ECDSAKey:blob", darg == ["msg.get_binary()"], v.loc, "_sigdecode gets %s" % darg)
    chk.ob("R4.ecdsa-verifies-with-public-key", "ECDSAKey", unparse(vc[0][1].func.value) == "self.verifying_key", v.loc,
           "receiver %s" % unparse(vc[0][1].func.value))

    # Ed25519
    s = prog.method("Ed25519Key", "sign_ssh_data")
    v = prog.method("Ed25519Key", "verify_ssh_sig")
    fv = Flow(prog, v, implicit=False)
    adds = [c for c in walk_no_defs(s.node) if M.is_call(c, attr="add_string")]
    emitted = unparse(adds[0].args[0]) if adds else ""
    vc = [(n, c) for (n, c) in fv.nodes_with_call(attr="verify")]
    oknm = False
    for x in walk_no_defs(v.node):
        if isinstance(x, ast.Compare) and isinstance(x.ops[0], ast.NotEq) and unparse(x.comparators[0]) == emitted:
            lt = fv.expand_text(x.left, _nc(fv,x), depth=2)
            g = fv.edge_guard(lambda t, x=x: unparse(t) == unparse(x), "F")
            oknm = lt == ["msg.get_text()"] and len(vc) == 1 and fv.dominated([vc[0][0]], guard_edge=g)
    chk.ob("R3.ed25519-name-agrees", "Ed25519Key", oknm and emitted == "self.name", v.loc, "sign emits %s; verify requires it" % emitted)
    sigf = unparse(adds[1].args[0]) if len(adds) > 1 else ""
    chk.ob("R3.ed25519-detached-signature", "sign", sigf == "self._signing_key.sign(data).signature", s.loc, "second field %s" % sigf)
    if len(vc) == 1:
        a = [unparse(x) for x in vc[0][1].args]
        chk.ob("R3.ed25519-detached-signature", "verify", a == ["data", "msg.get_binary()"], v.loc, "verify(%s)" % ", ".join(a))
        recvs = fv.expand_text(vc[0][1].func.value, vc[0][0], depth=2)
        chk.ob("R4.ed25519-verifies-with-public-half", "Ed25519Key", set(recvs) <= {"self._signing_key.verify_key", "self._verifying_key"} and bool(recvs),
               v.loc, "receiver %s" % recvs)

    # ---- R2 unchecked optional ------------------------------------------------------------------
    nopt = 0
    for K in KEYS:
        fields, opt, pairs = _optional_fields(prog, cg, K)
        chk.note("%s: fields %s; may be None after __init__: %s; at-least-one-of: %s" % (K, fields, sorted(opt), pairs))
        nopt += len(opt)
        for name, m in sorted(prog.cls(K).methods.items()):
            if name in PRIVATE_ONLY or name.startswith("_from_private") or name in ("_decode_key", "_parse_signing_key_data", "generate"):
                continue
            derefs = []
            for x in walk_no_defs(m.node):
                if isinstance(x, ast.Attribute) and M_self(x.value) and x.value.attr in opt and isinstance(x.ctx, ast.Load):
                    derefs.append(x)
            if not derefs:
                continue
            fm = Flow(prog, m, implicit=False)
            for i, x in enumerate(derefs):
                fld = x.value.attr
                tests = _nonnull_tests(prog, K, fld)
                # complementary arm: the partner field is known None -> this one is not
                for pr in pairs:
                    if fld in pr:
                        for other in pr:
                            if other != fld:
                                for t, arm in _nonnull_tests(prog, K, other).items():
                                    tests.setdefault(t, "F" if arm == "T" else "T")

                def g(s_, lab, d, tests=tests, fm=fm):
                    n = fm.cfg.nodes[s_]
                    return n.kind == "cond" and tests.get(unparse(n.ast)) == lab
                nd = _nc(fm,x)
                ok = fm.dominated([nd], guard_edge=g)
                chk.ob("R2.optional-field-guarded", "%s.%s:%s#%d" % (K, name, fld, i), ok, fm.where(x),
                       "self.%s may be None after __init__; %s dereferences it %s" % (fld, m.qual, "under a guard" if ok else "unguarded: " + fm.witness([nd], guard_edge=g)))
    chk.floor("R2", "optional fields found in key classes", nopt, 3)
