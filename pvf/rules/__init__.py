"""Rule modules, one per property, plus the entry point that runs a property's own rules and the obligations it
shares with siblings (catalog/shared.py)."""
import importlib


def run_property(pid, prog, chk):
    """run rules/<pid>.run(prog, chk), then decide the shared obligations of ``pid`` by running the sibling rule modules
    on the same program and copying the matching obligations (keys prefixed with the sibling's id)."""
    from ..core.model import AnalysisError
    from ..core.report import Check
    from ..catalog.shared import SHARED
    mod = importlib.import_module("pvf.rules.%s" % pid.lower())
    pending = None
    try:
        mod.run(prog, chk)
    except AnalysisError as e:
        pending = e
    by_sib = {}
    for row in SHARED.get(pid, ()):
        sib, prefix, why = row[:3]
        by_sib.setdefault(sib, []).append((prefix, why) if len(row) == 3 else (prefix, why, row[3]))
    for sib in sorted(by_sib):
        smod = importlib.import_module("pvf.rules.%s" % sib.lower())
        sc = Check(sib, chk.tier, chk.seed, quiet=True)
        serr = None
        try:
            smod.run(prog, sc)
        except AnalysisError as e:
            serr = e
        for ent in by_sib[sib]:
            prefix, why = ent[:2]
            got = [o for o in sc.obligations if o["key"].startswith(prefix)]
            if not got and len(ent) > 2 and ent[2] == "zero-expected" and serr is None:
                # a rule that records unguarded sites only: none found by the sibling's (completed) analysis
                chk.ob("%s/%s" % (sib, prefix.split(":")[0]), ":".join(prefix.split(":")[1:]) or "all", True, "", "no unguarded site found [shared with %s: %s]" % (sib, why))
                continue
            if not got:
                if serr is not None:
                    raise AnalysisError("shared:%s:%s" % (sib, prefix), "sibling analysis stopped before the shared rule: %s %s" % (serr.anchor, serr.detail))
                raise AnalysisError("shared:%s:%s" % (sib, prefix), "no obligation of the shared rule was produced")
            for o in got:
                key = o["key"][len(o["rule"]) + 1:]
                chk.ob("%s/%s" % (sib, o["rule"]), key, o["ok"], o["where"], "%s [shared with %s: %s]" % (o["detail"], sib, why))
        chk.count("obligations shared with %s" % sib, sum(1 for o in sc.obligations if any(o["key"].startswith(e[0]) for e in by_sib[sib])))
    if pending is not None:
        raise pending
    return mod
