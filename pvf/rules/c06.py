"""C06 - key exchange agrees on a secret and authenticates the host key."""
import ast
from ..core.model import AnalysisError, unparse, dotted, walk_no_defs
from ..core.consts import Folder, is_sym
from ..core.flow import Flow, node_calls, attr_writes
from ..core import match as M
from . import _kex

STR = ("string", "auto")

# RFC templates in *client* terms; (slot, accepted kinds)
def template(fam, role, old_style=False):
    own, peer = ("own", "peer")
    c_is_own = role == "client"
    vc = "own_version" if c_is_own else "peer_version"
    vs = "peer_version" if c_is_own else "own_version"
    ic = "own_kexinit" if c_is_own else "peer_kexinit"
    isv = "peer_kexinit" if c_is_own else "own_kexinit"
    ks = "read0" if c_is_own else "server_key_bytes"
    t = [(vc, STR), (vs, STR), (ic, STR), (isv, STR), (ks, STR)]
    if fam == "dh":
        t += [("E", ("mpint",)), ("F", ("mpint",)), ("K", ("mpint",))]
    elif fam == "gex":
        if not old_style:
            t += [("min", ("uint32",))]
        t += [("n", ("uint32",))]
        if not old_style:
            t += [("max", ("uint32",))]
        t += [("p", ("mpint",)), ("g", ("mpint",)), ("E", ("mpint",)), ("F", ("mpint",)), ("K", ("mpint",))]
    else:
        t += [("E", ("string",)), ("F", ("string",)), ("K", ("mpint",))]
    return t


def public_slots(fam, role):
    """what the E (client public) and F (server public) and K slots must be."""
    if fam in ("dh", "gex"):
        P = "self.P" if fam == "dh" else "self.p"
        if role == "client":
            return "own_dh_public:self.e", "read1", "secret:pow(read1,x,%s)" % P
        return "read0", "own_dh_public:self.f", "secret:pow(read0,x,%s)" % P
    if fam == "ecdh":
        if role == "client":
            return "own_ec_public:self.Q_C", "read1", "secret:ecdh(point(read1))"
        return "read0", "own_ec_public:self.Q_S", "secret:ecdh(point(read0))"
    if role == "client":
        return "own_x_public", "read1", "secret:x25519(point(read1))"
    return "read0", "own_x_public", "secret:x25519(point(read0))"


def run(prog, chk):
    fold = Folder(prog)
    chk.explanation = (
        "Decided structurally for every non-GSS engine in Transport._kex_info and both roles: (R1) the "
        "exchange-hash input, field by field (kind and source), against RFC 4253 s8 / 4419 s3 / 5656 s4 "
        "with the role map, values read from the peer's message identified by read position; (R2) "
        "client order _set_K_H < _verify_key < _activate_outbound with H the digest of that layout; "
        "(R3) _verify_key is fail-closed; (R4) every reply field is bound into the hash or the "
        "signature check; (R5) session_id latch; (R6) server signs H with the negotiated algorithm and "
        "sends the same K_S/f it hashed; (R7) name<->hash table; (R8) every handler path raises or "
        "arms the next expected packet. Not decided: equality of the two peers' big-integer secrets "
        "(DH algebra / library).")
    chk.assumptions = ["Message.add dispatches str/bytes to add_string (C39)",
                       "cryptography's ECDH/X25519 exchange and pow() compute the DH function"]
    engs = _kex.engines(prog, fold)
    chk.floor("R1", "kex engines", len(engs), 10)
    done = {}
    layouts = 0
    for (alg, cn, fam) in engs:
        hc, hs = _kex.handlers(prog, cn, fam)
        for role, h in (("client", hc), ("server", hs)):
            key = (h.qual, role)
            if key in done:
                chk.ob("R1.hash-layout", "%s:%s" % (cn, role), done[key], h.loc, "inherits %s (analysed once)" % h.qual)
                continue
            ok_all = True
            hl = _kex.HashLayout(prog, h, role)
            if hl.problems or not hl.alts:
                raise AnalysisError("kex handler " + h.qual, "; ".join(hl.problems) or "no hash message found")
            E, F, K = public_slots(fam, role)
            for alt in hl.alts:
                old = None
                for (lab, val) in alt["conds"]:
                    if lab == "old_style":
                        old = not val  # the test is `not self.old_style`
                tmpl = template("ecdh" if fam == "x25519" else fam, role, old_style=bool(old))
                want = []
                for (slot, kinds) in tmpl:
                    want.append(({"E": E, "F": F, "K": K}.get(slot, slot), kinds))
                got = [(s, k) for (k, s, text) in alt["slots"]]

                def same(g, w):
                    if g == w:
                        return True
                    # own DH public value: the stored field or its defining pow(g, x, p)
                    return w.startswith("own_dh_public:") and g == "own_dh_public:computed"

                ok = len(got) == len(want) and all(same(g[0], w[0]) and g[1] in w[1] for g, w in zip(got, want))
                layouts += 1
                chk.ob("R1.hash-layout", "%s:%s%s" % (h.qual, role, ":old_style" if old else ""), ok, h.loc,
                       "fields %s ; RFC wants %s" % ([(s, k) for (s, k) in got], [(w[0], w[1][0]) for w in want])
                       if not ok else "%d fields match the RFC template" % len(got))
                ok_all = ok_all and ok
            done[key] = ok_all
            check_handler(prog, chk, h, role, fam, hl)
    chk.floor("R1", "distinct hash layouts", layouts, 8)

    # R3 _verify_key fail-closed ------------------------------------------------------
    vk = prog.func("Transport._verify_key")
    fl = Flow(prog, vk)
    ps = vk.params()
    conds = fl.nodes(lambda n: n.kind == "cond" and M.is_call(n.ast, attr="verify_ssh_sig"))
    ok = len(conds) == 1 and len(ps) == 3
    detail = ""
    if ok:
        c = conds[0]
        call = c.ast
        ok = len(call.args) == 2 and unparse(call.args[0]) == "self.H" and unparse(call.args[1]) == "Message(%s)" % ps[2]
        detail = unparse(call)
        g = lambda s, lab, d: s == c.id and lab == "T"
        ok = ok and fl.exit_dominated(guard_edge=g)
        fs = [d for (d, lab) in fl.cfg.succ[c.id] if lab == "F"]
        ok = ok and fl.cfg.exit.id not in fl.cfg.reach(fs)
        # the key object is built from the presented blob with the negotiated type's class
        kd = fl.expand_text(call.func.value, c)
        ok = ok and kd == ["self._key_info[self.host_key_type](Message(%s))" % ps[1]]
        detail += " ; key <- %s" % kd
        # host_key recorded only after the check
        ws = fl.nodes(lambda n: n.kind == "stmt" and isinstance(n.ast, ast.Assign) and unparse(n.ast.targets[0]) == "self.host_key")
        ok = ok and len(ws) == 1 and fl.dominated(ws, guard_edge=g)
    chk.ob("R3.verify-fail-closed", "Transport._verify_key", ok, vk.loc, detail)

    # R5 session-id latch ---------------------------------------------------------------
    writes = []
    for f in prog.all_functions():
        for (st, t, val) in attr_writes(f.node):
            if t.attr == "session_id" and isinstance(t.value, ast.Name) and t.value.id == "self" and \
                    f.cls is not None and prog.is_subclass(f.cls.name, "Transport"):
                writes.append((f, st, val))
            elif t.attr == "session_id" and unparse(t.value) in ("self.transport", "transport", "self._transport", "t"):
                writes.append((f, st, val))
    chk.floor("R5", "writes to session_id", len(writes), 2)
    for (f, st, val) in writes:
        if f.name == "__init__":
            ok = isinstance(val, ast.Constant) and val.value is None
            chk.ob("R5.session-id-latch", f.qual, ok, "%s:%d" % (f.module.path, st.lineno), "initialised to None")
        elif f.qual == "Transport._set_K_H":
            fl = Flow(prog, f)
            n = fl.cfg.nodes_for(st)
            g = fl.edge_guard(lambda t: unparse(t) in ("self.session_id is None", "self.session_id == None"), "T")
            ok = bool(n) and fl.dominated(n, guard_edge=g) and unparse(val) == f.params()[2]
            chk.ob("R5.session-id-latch", f.qual, ok, "%s:%d" % (f.module.path, st.lineno),
                   "assigned H only under `self.session_id is None`")
        else:
            chk.ob("R5.session-id-latch", f.qual, False, "%s:%d" % (f.module.path, st.lineno), "unexpected writer of session_id")
    skh = prog.func("Transport._set_K_H")
    got = dict((t.attr, unparse(v)) for (st, t, v) in attr_writes(skh.node))
    p = skh.params()
    chk.ob("R5.set-K-H", "Transport._set_K_H", got.get("K") == p[1] and got.get("H") == p[2], skh.loc, "K,H <- %s" % got)

    # R7 name <-> hash ---------------------------------------------------------------------
    want_hash = {"diffie-hellman-group1-sha1": "sha1", "diffie-hellman-group14-sha1": "sha1",
                 "diffie-hellman-group14-sha256": "sha256", "diffie-hellman-group16-sha512": "sha512",
                 "diffie-hellman-group-exchange-sha1": "sha1", "diffie-hellman-group-exchange-sha256": "sha256",
                 "ecdh-sha2-nistp256": "sha256", "ecdh-sha2-nistp384": "sha384", "ecdh-sha2-nistp521": "sha512",
                 "curve25519-sha256@libssh.org": "sha256"}
    curves = {"ecdh-sha2-nistp256": "ec.SECP256R1()", "ecdh-sha2-nistp384": "ec.SECP384R1()", "ecdh-sha2-nistp521": "ec.SECP521R1()"}
    for (alg, cn, fam) in engs:
        env = fold.class_env(cn)
        h = env.get("hash_algo")
        hn = h.text.split(".")[-1] if is_sym(h) else None
        chk.ob("R7.name-hash", alg, alg in want_hash and hn == want_hash[alg], prog.cls(cn).module.path,
               "%s.hash_algo = %s" % (cn, hn))
        nm = env.get("name")
        if nm is not None and not is_sym(nm):
            chk.ob("R7.name", alg, nm == alg, prog.cls(cn).module.path, "%s.name = %r" % (cn, nm))
        if alg in curves:
            cv = env.get("curve")
            chk.ob("R7.curve", alg, is_sym(cv) and cv.text == curves[alg], prog.cls(cn).module.path, "curve = %r" % cv)
    # group primes: P of group14 / group16 differ from group1 and G == 2
    for cn in ("KexGroup1", "KexGroup14", "KexGroup16SHA512"):
        env = fold.class_env(cn)
        P, G = env.get("P"), env.get("G")
        bits = {"KexGroup1": 1024, "KexGroup14": 2048, "KexGroup16SHA512": 4096}[cn]
        ok = isinstance(P, int) and P.bit_length() == bits and G == 2 and P % 2 == 1 and (P >> (bits - 64)) == (1 << 64) - 1 \
            and (P & ((1 << 64) - 1)) == (1 << 64) - 1
        chk.ob("R7.group", cn, ok, prog.cls(cn).module.path, "P has %s bits, G=%r" % (P.bit_length() if isinstance(P, int) else "?", G))

    # R8 identification strings: V_C / V_S are the lines as exchanged (RFC 4253 s8: without CR LF, *with* any comment) --
    writers = []
    for g in prog.all_functions():
        for (st, t, v) in attr_writes(g.node):
            if t.attr in ("remote_version", "local_version") and unparse(t.value) == "self" and g.cls is not None and "Transport" in [c.name for c in prog.mro(g.cls.name)]:
                writers.append((g, st, t.attr, v))
    rv = [(g, st, v) for (g, st, a, v) in writers if a == "remote_version" and g.name != "__init__"]
    chk.floor("R8", "writers of remote_version outside __init__", len(rv), 1)
    for i, (g, st, v) in enumerate(rv):
        flg = Flow(prog, g, implicit=False)
        nodes = [n for n in flg.cfg.nodes_for(st) if n.id in flg.live]
        exps = flg.expand(v, nodes[0]) if nodes else []
        alts = sorted(set(unparse(a) for a in exps))
        okv = bool(exps) and all(isinstance(a, ast.Call) and isinstance(a.func, ast.Attribute) and a.func.attr == "readline" for a in exps)
        chk.ob("R8.peer-identification-string-kept-whole", "%s#%d" % (g.qual, i), okv, "%s:%d" % (g.module.path, st.lineno),
               "remote_version = %s (the line read from the peer, untruncated: the peer hashed its comment too)" % alts)
    lv = [(g, st, v) for (g, st, a, v) in writers if a == "local_version"]
    sends = []
    for g in prog.all_functions():
        if g.cls is None or g.cls.name != "Transport":
            continue
        for c in walk_no_defs(g.node):
            if isinstance(c, ast.Call) and isinstance(c.func, ast.Attribute) and c.func.attr == "write_all" and "local_version" in unparse(c):
                sends.append((g, c))
    chk.floor("R8", "sends of the local identification string", len(sends), 1)
    for i, (g, c) in enumerate(sends):
        a0 = unparse(c.args[0]) if c.args else "?"
        chk.ob("R8.own-identification-string-sent-as-hashed", "%s#%d" % (g.qual, i), a0 in ("b(self.local_version + '\\r\\n')", "b(self.local_version + '\r\n')"),
               "%s:%d" % (g.module.path, c.lineno), "sends %s: exactly the hashed string plus CR LF" % a0)
    chk.ob("R8.own-identification-string-fixed", "Transport.local_version", all(g.name == "__init__" for (g, st, v) in lv) and bool(lv), prog.func("Transport.__init__").loc,
           "written in %s" % sorted(set(g.qual for (g, st, v) in lv)))


def check_handler(prog, chk, h, role, fam, hl):
    fl = hl.fl
    alt = hl.alts[0]
    hmvar = alt["var"]
    setkh = fl.nodes_with_call(attr="_set_K_H")
    act = fl.nodes_with_call(attr="_activate_outbound")
    ok = len(setkh) == 1 and len(act) == 1
    if not ok:
        raise AnalysisError(h.qual, "expected one _set_K_H and one _activate_outbound call")
    sn, sc = setkh[0]
    # H = hash_algo(hm.asbytes()).digest()
    hexp = fl.expand_text(sc.args[1], sn, depth=2)
    okH = hexp == ["self.hash_algo(%s.asbytes()).digest()" % hmvar]
    # K passed is the K hashed
    kslot = [s for (k, s, t) in alt["slots"]][-1]
    ktext = [t for (k, s, t) in alt["slots"]][-1]
    okK = unparse(sc.args[0]) in (ktext, "int(%s)" % ktext) or ktext in ("int(%s)" % unparse(sc.args[0]),)
    chk.ob("R2.set-K-H-args", "%s:%s" % (h.qual, role), okH and okK, fl.where(sn),
           "_set_K_H(%s, %s) with H <- %s" % (unparse(sc.args[0]), unparse(sc.args[1]), hexp))
    # hash message complete before it is hashed: all adds dominate the hash
    if role == "client":
        ver = fl.nodes_with_call(attr="_verify_key")
        ok = len(ver) == 1
        if ok:
            vn, vc = ver[0]
            ok = fl.dominated([vn], guard_nodes=[sn]) and fl.dominated([act[0][0]], guard_nodes=[vn], complete=True)
            # _verify_key(host key bytes read first, signature read last)
            rd = alt["reads"]
            a0 = hl._slot(fl.expand(vc.args[0], vn)[0], unparse(vc.args[0]), rd)
            a1 = hl._slot(fl.expand(vc.args[1], vn)[0], unparse(vc.args[1]), rd)
            nread = len(rd)
            ok = ok and a0 == "read0" and a1 == "read%d" % (nread - 1) and nread == 3
            chk.ob("R2.client-order", h.qual, ok, fl.where(vn),
                   "_set_K_H < _verify_key(%s, %s) < _activate_outbound" % (a0, a1))
            # R4: every reply field is bound
            used = set(s for (k, s, t) in alt["slots"] if s.startswith("read"))
            for (k, s, t) in alt["slots"]:
                if s.startswith("secret:") and "read" in s:
                    used.add("read" + s.split("read")[1][0])
            used |= set([a0, a1])
            if fam in ("ecdh", "x25519"):
                # the peer's point read from the wire is the one the secret is computed from
                used_ok = check_peer_point(fl, hl, alt, role)
            else:
                used_ok = True
            chk.ob("R4.reply-fields-bound", h.qual, used == set("read%d" % i for i in range(nread)) and used_ok,
                   h.loc, "reply fields used: %s of %d" % (sorted(used), nread))
        else:
            chk.ob("R2.client-order", h.qual, False, h.loc, "no single _verify_key call")
    else:
        # R6: sign H with the negotiated algorithm; send the K_S and public value that were hashed
        sg = fl.nodes_with_call(attr="sign_ssh_data")
        ok = len(sg) == 1
        detail = ""
        if ok:
            gn, gc = sg[0]
            hv = unparse(sc.args[1])
            ok = len(gc.args) == 2 and unparse(gc.args[0]) == hv and unparse(gc.args[1]) == "self.transport.host_key_type" \
                and unparse(gc.func.value) == "self.transport.get_server_key()"
            detail = unparse(gc)
            # reply layout: byte REPLY, string K_S, (mpint f | string Q_S), string sig
            from ..core.layout import split_messages
            rep = [m for m in split_messages(alt["events"]) if m["var"] == hl.mparam or (m["var"] != hmvar)]
            rep = [m for m in rep if m["var"] != hmvar]
            ok = ok and len(rep) == 1
            if ok:
                fields = [f for f in rep[0]["fields"]]
                kinds = [k for (k, t) in fields]
                want_kinds = ["byte", "string", "mpint" if fam in ("dh", "gex") else "string", "string"]
                ok = kinds == want_kinds
                hashed = dict((s, t) for (k, s, t) in alt["slots"])
                ks_text = hashed.get("server_key_bytes")
                pub_text = [t for (k, s, t) in alt["slots"] if s.startswith(("own_dh_public", "own_ec_public", "own_x_public"))]
                sigvar = gn.ast.targets[0].id if isinstance(gn.ast, ast.Assign) and isinstance(gn.ast.targets[0], ast.Name) else None
                ok = ok and fields[1][1] == ks_text and len(pub_text) == 1 and fields[2][1] == pub_text[0] and fields[3][1] == sigvar
                detail += " ; reply %s" % fields
                ok = ok and fl.dominated([act[0][0]], guard_nodes=[gn], complete=True) and fl.dominated([gn], guard_nodes=[sn])
        chk.ob("R6.server-signs-H", h.qual, ok, h.loc, detail)
        if fam in ("ecdh", "x25519"):
            chk.ob("R4.peer-point-bound", h.qual, check_peer_point(fl, hl, alt, role), h.loc,
                   "the secret is computed from the point parsed from the hashed bytes")
    # R8 typestate: every normal exit has armed the next packet (activate_outbound expects NEWKEYS)
    ok = fl.exit_dominated(guard_nodes=[act[0][0]])
    chk.ob("R8.typestate", h.qual, ok, h.loc, "every non-raising path reaches _activate_outbound")


def check_peer_point(fl, hl, alt, role):
    """ECDH/X25519: the key object handed to exchange() is constructed from
    the very bytes that were read and hashed."""
    want = "read1" if role == "client" else "read0"
    for (n, c) in fl.nodes_with_call():
        nm = dotted(c.func) or ""
        if nm in ("self.P.exchange", "self._perform_exchange"):
            arg = c.args[-1]
            alts = fl.expand(arg, n, depth=4)
            for a in alts:
                if M.is_call(a) and dotted(a.func) in ("ec.EllipticCurvePublicKey.from_encoded_point",
                                                       "X25519PublicKey.from_public_bytes"):
                    src = a.args[-1]
                    if hl._slot(src, unparse(src), alt["reads"]) != want:
                        return False
                    if dotted(a.func).startswith("ec.") and unparse(a.args[0]) != "self.curve":
                        return False
                else:
                    return False
            return True
    return False
