"""C30 - every SFTP request completes with exactly one well-formed response."""
import ast
from ..core.model import AnalysisError, unparse, dotted, walk_no_defs
from ..core.consts import Folder
from ..core.flow import Flow, node_calls
from ..core.layout import Extractor, split_messages
from ..core import match as M

REPLY_CMDS = ("CMD_STATUS", "CMD_HANDLE", "CMD_DATA", "CMD_NAME", "CMD_ATTRS", "CMD_EXTENDED_REPLY")
ALLOWED = {
    "CMD_OPEN": {"CMD_HANDLE", "CMD_STATUS"}, "CMD_CLOSE": {"CMD_STATUS"}, "CMD_READ": {"CMD_DATA", "CMD_STATUS"},
    "CMD_WRITE": {"CMD_STATUS"}, "CMD_REMOVE": {"CMD_STATUS"}, "CMD_RENAME": {"CMD_STATUS"}, "CMD_MKDIR": {"CMD_STATUS"},
    "CMD_RMDIR": {"CMD_STATUS"}, "CMD_OPENDIR": {"CMD_HANDLE", "CMD_STATUS"}, "CMD_READDIR": {"CMD_NAME", "CMD_STATUS"},
    "CMD_STAT": {"CMD_ATTRS", "CMD_STATUS"}, "CMD_LSTAT": {"CMD_ATTRS", "CMD_STATUS"}, "CMD_FSTAT": {"CMD_ATTRS", "CMD_STATUS"},
    "CMD_SETSTAT": {"CMD_STATUS"}, "CMD_FSETSTAT": {"CMD_STATUS"}, "CMD_READLINK": {"CMD_NAME", "CMD_STATUS"},
    "CMD_SYMLINK": {"CMD_STATUS"}, "CMD_REALPATH": {"CMD_NAME", "CMD_STATUS"}, "CMD_EXTENDED": {"CMD_EXTENDED_REPLY", "CMD_STATUS"},
}
# responders, bottom-up: each answers exactly once on every normal path (checked below)
CHAIN = ["_response", "_send_status", "_send_handle_response", "_open_folder", "_read_folder", "_check_file", "_process"]
PRIMITIVE = "_send_packet"
TOTAL_OUTSIDE_TRY = ("Message", "msg.get_int", "self._log", "util.tb_strings", "str")


def responder_calls(node, names):
    out = []
    for c in node_calls(node):
        if isinstance(c.func, ast.Attribute) and unparse(c.func.value) == "self" and c.func.attr in names:
            out.append(c)
    return out


def count_states(fl, names, env_avoid=None):
    """set of response counts (capped at 2) with which the normal exit is reached."""
    def transfer(node, st):
        k = len(responder_calls(node, names))
        return [min(2, st + k)]
    ins, outs = fl.cfg.forward(0, transfer, avoid_edge=fl.avoid)
    return ins[fl.cfg.exit.id]


def run(prog, chk):
    fold = Folder(prog)
    senv = fold.module_env("sftp")
    chk.explanation = (
        "Decided structurally. Server: (R1) on every normal path of SFTPServer._process - through its helpers, "
        "each verified bottom-up - exactly one response is emitted, and it is the last effectful call on its "
        "path so the catch-all in start_subsystem (which answers FAILURE once) can only fire on paths that "
        "have not answered; (R2) every response carries the request's own id; (R3) the packet type is a reply "
        "command allowed for that request by the draft (status for invalid handles and unsupported "
        "operations); (R4) start_subsystem only leaves its loop when reading fails, and nothing outside its "
        "try blocks can raise on peer-controlled input. Client: (R5) a request issued with the discarding sink "
        "type(None) must be awaited in the same function before control returns to the application, because "
        "_read_response drops such responses when another request is waited for; pipelined SFTPFile._write "
        "and listdir_iter violate this today (known findings).")
    chk.assumptions = ["SFTPServerInterface methods return error codes or objects as documented",
                       "loop progress of _check_file is C32's"]
    # R1 -----------------------------------------------------------------------------------
    verified = [PRIMITIVE]
    for nm in CHAIN:
        f = prog.func("SFTPServer." + nm)
        envs = [None]
        if nm == "_process":
            tests = sorted(set(unparse(x) for x in ast.walk(f.node) if isinstance(x, ast.Compare) and unparse(x).startswith("t == CMD_")))
            chk.floor("R1", "request arms of _process", len(tests), 19)
            envs = [dict((t, t == one) for t in tests) for one in tests] + [dict((t, False) for t in tests)]
        for env in envs:
            fl = Flow(prog, f, env=env, implicit=False)
            counts = count_states(fl, verified)
            label = nm
            if env is not None:
                on = [t for t, v in env.items() if v]
                label = "_process:%s" % (on[0][5:] if on else "unknown-command")
            ok = counts == set([1])
            chk.ob("R1.exactly-one-response", label, ok, f.loc,
                   "responses per normal path: %s" % sorted(counts))
            # the response is the last effectful call
            for n in fl.nodes(lambda n: bool(responder_calls(n, verified))):
                after = fl.cfg.reach([d for (d, l) in fl.cfg.succ[n.id]], avoid_edge=fl.avoid)
                eff = [fl.cfg.nodes[i] for i in after if fl.cfg.nodes[i].kind in ("stmt", "cond", "for_iter") and node_calls(fl.cfg.nodes[i])
                       and not all(dotted(c.func) == "self._log" for c in node_calls(fl.cfg.nodes[i]))]
                # the first responder in a chain of two (e.g. status path) is already a count violation; here: nothing follows
                if eff and env is not None:
                    chk.ob("R1.response-is-last", "%s@%s" % (label, unparse(n.ast)[:40]), False, fl.where(n),
                           "calls follow the response on its path: %s" % [unparse(e.ast)[:40] for e in eff][:2])
        verified.append(nm)
    # R2 -----------------------------------------------------------------------------------
    n2 = 0
    for nm in CHAIN[1:]:
        f = prog.func("SFTPServer." + nm)
        rp = "request_number"
        if rp not in f.params():
            chk.ob("R2.same-id", nm, False, f.loc, "no request_number parameter")
            continue
        rew = [s for s in walk_no_defs(f.node) if isinstance(s, (ast.Assign, ast.AugAssign)) and
               any(unparse(t) == rp for t in (s.targets if isinstance(s, ast.Assign) else [s.target]))]
        bad = []
        for c in walk_no_defs(f.node):
            if isinstance(c, ast.Call) and isinstance(c.func, ast.Attribute) and unparse(c.func.value) == "self" and c.func.attr in CHAIN:
                n2 += 1
                idarg = c.args[1] if c.func.attr == "_process" else (c.args[0] if c.args else None)
                if idarg is None or unparse(idarg) != rp:
                    bad.append(unparse(c)[:60])
        ex = Extractor()
        for (ev, kind) in ex.function(f.node):
            for m in split_messages(ev):
                if m["fields"] and m["var"] != f.params()[-1]:
                    if m["fields"][0] != ("uint32", rp):
                        bad.append("message %s starts with %s" % (m["var"], m["fields"][0]))
        chk.ob("R2.same-id", nm, not bad and not rew, f.loc, "responses carry request_number unchanged" if not bad else "; ".join(sorted(set(bad))[:3]))
    rs = prog.func("SFTPServer._response")
    lay = set()
    for (ev, kind) in Extractor().function(rs.node):
        for m in split_messages(ev):
            lay.add(m["fields"][0] if m["fields"] else None)
    chk.ob("R2.same-id", "_response", lay == set([("uint32", "request_number")]), rs.loc, "first field %s" % sorted(lay, key=str))
    # R3 -----------------------------------------------------------------------------------
    pr = prog.func("SFTPServer._process")
    tests = sorted(set(unparse(x) for x in ast.walk(pr.node) if isinstance(x, ast.Compare) and unparse(x).startswith("t == CMD_")))
    helper_types = {"_open_folder": {"CMD_HANDLE", "CMD_STATUS"}, "_read_folder": {"CMD_NAME", "CMD_STATUS"},
                    "_check_file": {"CMD_EXTENDED_REPLY", "CMD_STATUS"}, "_send_handle_response": {"CMD_HANDLE", "CMD_STATUS"},
                    "_send_status": {"CMD_STATUS"}}
    # verify the helper -> type claims
    for h, want in sorted(helper_types.items()):
        f = prog.func("SFTPServer." + h)
        got = set()
        for c in walk_no_defs(f.node):
            if M.is_call(c, name="self._response") and len(c.args) > 1:
                got.add(unparse(c.args[1]))
            if M.is_call(c, name="self._send_packet") and c.args:
                got.add(unparse(c.args[0]))
            if isinstance(c, ast.Call) and isinstance(c.func, ast.Attribute) and unparse(c.func.value) == "self" and c.func.attr in helper_types and c.func.attr != h:
                got |= helper_types[c.func.attr]
        chk.ob("R3.helper-reply-types", h, got == want, f.loc, "%s emits %s (declared %s)" % (h, sorted(got), sorted(want)))
    for one in tests:
        cmd = one[5:]
        env = dict((t, t == one) for t in tests)
        fl = Flow(prog, pr, env=env, implicit=False)
        got = set()
        for n in fl.nodes(lambda n: n.kind in ("stmt", "return", "cond")):
            for c in node_calls(n):
                if M.is_call(c, name="self._response") and len(c.args) > 1:
                    got.add(unparse(c.args[1]))
                elif isinstance(c.func, ast.Attribute) and unparse(c.func.value) == "self" and c.func.attr in helper_types:
                    got |= helper_types[c.func.attr]
        bad = sorted(t for t in got if t not in REPLY_CMDS)
        notallowed = sorted(t for t in got if t in REPLY_CMDS and t not in ALLOWED.get(cmd, set()))
        chk.ob("R3.reply-type-family", cmd, bool(got) and not bad and not notallowed and cmd in ALLOWED, pr.loc,
               "replies with %s" % sorted(got) + ("; NOT a reply command: %s" % bad if bad else "") +
               ("; not allowed for this request: %s" % notallowed if notallowed else ""))
    for nm in REPLY_CMDS:
        v = senv.get(nm)
        chk.ob("R3.reply-command-numbers", nm, isinstance(v, int) and (101 <= v <= 105 or v == 201), "paramiko/sftp.py", "%s = %r" % (nm, v))
    ss = prog.func("SFTPServer._send_status")
    t = [unparse(c.args[1]) for c in walk_no_defs(ss.node) if M.is_call(c, name="self._response") and len(c.args) > 1]
    chk.ob("R3.status-helper", "_send_status", t == ["CMD_STATUS"], ss.loc, "_send_status -> _response(.., CMD_STATUS, code, desc, '')")
    # R4 -----------------------------------------------------------------------------------
    st = prog.func("SFTPServer.start_subsystem")
    loops = [n for n in walk_no_defs(st.node) if isinstance(n, ast.While)]
    ok = len(loops) == 1 and isinstance(loops[0].test, ast.Constant) and loops[0].test.value is True
    outside = []
    if ok:
        for s in loops[0].body:
            if isinstance(s, ast.Try):
                continue
            for c in walk_no_defs(s):
                if isinstance(c, ast.Call) and (dotted(c.func) or "?") not in TOTAL_OUTSIDE_TRY:
                    outside.append(unparse(c)[:50])
                if isinstance(c, ast.Subscript) and isinstance(c.ctx, ast.Load) and not isinstance(c.slice, ast.Slice):
                    outside.append(unparse(c)[:50])
    chk.ob("R4.loop-body-cannot-raise", "start_subsystem", ok and not outside, st.loc,
           "partial operations outside the try blocks of the request loop: %s" % outside if outside else "only total operations outside the try blocks")
    trys = [s for s in (loops[0].body if loops else []) if isinstance(s, ast.Try)]
    ok = len(trys) == 2
    if ok:
        rd, pc = trys
        ok = any(M.is_call(c, name="self._read_packet") for c in walk_no_defs(rd)) and \
            all(any(isinstance(x, ast.Return) for x in h.body) for h in rd.handlers) and \
            any(h.type is not None and unparse(h.type) == "Exception" for h in rd.handlers)
        ok = ok and any(M.is_call(c, name="self._process") for c in walk_no_defs(pc)) and len(pc.handlers) == 1 and \
            unparse(pc.handlers[0].type) == "Exception" and \
            any(M.is_call(c, name="self._send_status") and unparse(c.args[0]) == "request_number" and unparse(c.args[1]) == "SFTP_FAILURE"
                for c in ast.walk(pc.handlers[0])) and not any(isinstance(x, (ast.Return, ast.Break, ast.Raise)) for x in ast.walk(pc.handlers[0]))
    chk.ob("R4.loop-leaves-only-on-read-failure", "start_subsystem", ok, st.loc,
           "reading failure returns; any error while processing is answered with FAILURE and the loop goes on")
    # the catch-all is the last resort for requests _process cannot even name (unknown command numbers raise in its
    # first log line): it must itself be total up to its FAILURE reply - no lookup under the command number, no other
    # subscript on a table, before the reply goes out (the logging helper formats what it is given and never raises)
    if len(trys) == 2 and trys[1].handlers:
        hb = trys[1].handlers[0].body
        before = []
        for s_ in hb:
            if isinstance(s_, ast.Try) and any(M.is_call(c, name="self._send_status") for c in ast.walk(s_)):
                break
            before.append(s_)
        risky = [unparse(x)[:40] for s_ in before for x in ast.walk(s_) if isinstance(x, ast.Subscript) and isinstance(x.ctx, ast.Load)
                 and not isinstance(x.slice, (ast.Slice, ast.Constant))]
        chk.ob("R4.catch-all-is-total-before-it-replies", "start_subsystem", not risky, st.loc,
               "statements of the handler before the fallback reply: %d, partial lookups: %s" % (len(before), risky or "none"))
    # no reply from a `finally:` - it runs on the exception path too, and there the catch-all replies as well (two
    # responses to one request)
    pr_ = prog.func("SFTPServer._process")
    infinal = []
    for t_ in walk_no_defs(pr_.node):
        if isinstance(t_, ast.Try):
            for s_ in t_.finalbody:
                for c in ast.walk(s_):
                    if isinstance(c, ast.Call) and (dotted(c.func) or "") in ("self._send_status", "self._response", "self._send_packet", "self._send_handle_response"):
                        infinal.append("%s:%d" % (pr_.module.path, c.lineno))
    chk.ob("R1.no-reply-in-finally", "_process", not infinal, pr_.loc, "replies inside finally blocks: %s" % (infinal or "none"))

    # R5 client ---------------------------------------------------------------------------------
    n5 = 0
    for f in prog.all_functions():
        if f.module.name not in ("sftp_client", "sftp_file"):
            continue
        calls = [c for c in walk_no_defs(f.node) if M.is_call(c, attr="_async_request") and c.args and unparse(c.args[0]) == "type(None)"]
        if not calls:
            continue
        fl = Flow(prog, f, implicit=False)
        for c in calls:
            n5 += 1
            nodes = fl.cfg.node_containing(c)
            node = nodes[0] if nodes else None
            ok = False
            detail = "request number not followed"
            if node is not None and isinstance(node.ast, ast.Assign) and isinstance(node.ast.targets[0], ast.Name):
                num = node.ast.targets[0].id
                waits = [n for (n, k) in fl.nodes_with_call(attr="_read_response") if k.args and unparse(k.args[0]) == num]
                succ = [d for (d, l) in fl.cfg.succ[node.id]]
                ok = bool(waits) and fl.cfg.dominated([fl.cfg.exit.id], guard_nodes=[w.id for w in waits], start=succ)
                detail = "awaited with _read_response(%s) before returning: %s" % (num, ok)
                if not ok:
                    detail = ("request sent with the discarding sink type(None) and its number %s is not awaited before control "
                              "returns to the application: any other request consumes and drops the response, and a later wait blocks for ever" % num)
            elif node is not None and isinstance(node.ast, ast.Expr):
                # fire-and-forget (e.g. CLOSE from __del__): nothing ever waits for it
                ok = True
                detail = "fire-and-forget request: never waited for"
            chk.ob("R5.discarding-sink-awaited-at-once", f.qual, ok, "%s:%d" % (f.module.path, c.lineno), detail)
    chk.floor("R5", "requests issued with the discarding sink", n5, 3)
    # every targeted wait _read_response(n) must be for a request issued in the same function: a number kept
    # from an earlier call may already have been consumed (and dropped) by another request's wait
    for f in prog.all_functions():
        if f.module.name not in ("sftp_client", "sftp_file"):
            continue
        waits = [c for c in walk_no_defs(f.node) if M.is_call(c, attr="_read_response") and c.args]
        if not waits:
            continue
        fl = Flow(prog, f, implicit=False)
        for c in waits:
            nodes = fl.cfg.node_containing(c)
            a = c.args[0]
            ok = False
            src = "?"
            if nodes and isinstance(a, ast.Name):
                ds = fl.defs(a.id, nodes[0])
                src = sorted(set(unparse(r) if r is not None else ("param" if d.kind == "entry" else "?") for (d, r) in ds))
                ok = bool(ds) and all(r is not None and M.is_call(r, attr="_async_request") for (d, r) in ds)
                if f.qual == "SFTPClient._read_response":
                    ok = True
            chk.ob("R5.waits-only-for-own-request", f.qual, ok, "%s:%d" % (f.module.path, c.lineno),
                   "_read_response(%s) with %s <- %s" % (unparse(a), unparse(a), src))
    # the prefetch wait loop leaves when an error was saved (C29-R3 shared) or when the prefetch is over: every status error
    # reaches _saved_exception, or - for an absorbed end-of-file - the request is unregistered so _prefetch_done gets set
    from ._shared import async_status_discipline
    d = async_status_discipline(prog)
    ok = d["ok_saved"] and set(d["absorbed"]) <= {"EOFError"} and (not d["absorbed"] or d["unregisters"])
    chk.ob("R5.async-errors-end-prefetch-wait", "SFTPFile._async_response", ok, d["loc"],
           "every error status is saved so the wait loop's _check_exception ends the wait%s" % (
               "" if not d["absorbed"] else "; %s is absorbed and the wait then ends through _prefetch_done because every reply unregisters "
               "its request (%s)" % (d["absorbed"], d["unregisters"])))
    rp = prog.func("SFTPFile._read_prefetch")
    fp = Flow(prog, rp, implicit=False)
    rdn = [x for (x, k) in fp.nodes_with_call(attr="_read_response")]
    cx = [x for (x, k) in fp.nodes_with_call(name="self._check_exception")]
    ok = len(rdn) == 1 and len(cx) == 1 and fp.cfg.dominated([rdn[0].id], guard_nodes=[cx[0].id], start=[d for (d, l) in fp.cfg.succ[rdn[0].id]])
    chk.ob("R5.prefetch-wait-checks-errors", "SFTPFile._read_prefetch", ok, rp.loc, "the wait loop re-raises saved errors after every response")
    rr = prog.func("SFTPClient._read_response")
    t = unparse(rr.node)
    chk.ob("R5.reader-loops-until-awaited", "_read_response", "while True" in t and "if num == waitfor" in t, rr.loc,
           "loops until the awaited number arrives")
    _request_numbers_unique(prog, chk)
    _peer_counted_loops_bounded(prog, chk)
    _frame_reader_total(prog, chk)


def _request_numbers_unique(prog, chk):
    """R6: a response is matched to its request by number, so two requests in flight must never share one: the counter
    is read, recorded in _expecting and advanced inside one critical section of SFTPClient._lock (the prefetch thread
    issues requests concurrently), and the number sent is the one recorded."""
    from ..core.locks import LockFlow
    ar = prog.func("SFTPClient._async_request")
    lf = LockFlow(prog, ar, implicit=True)
    # the lock is given back on every way out, an exception while the request is being encoded included (it is not
    # re-entrant: a leak blocks every later request of the session for ever although the server is idle)
    leaks = lf.held_at_exit()
    chk.ob("R6.lock-released-on-every-exit", "_async_request", not leaks, ar.loc,
           "locks possibly still held at a normal or raising exit: %s" % (sorted(leaks) or "none"))
    uses = [n for n in lf.fl.cfg.nodes if n.id in lf.fl.live and n.ast is not None and n.kind in ("stmt", "cond", "for_iter", "return")
            and any(isinstance(x, ast.Attribute) and unparse(x) == "self.request_number" for x in ast.walk(n.ast))]
    if len(uses) < 3:
        if leaks:
            return      # the region is not what the remaining rules describe; the leak above is the finding
        chk.floor("R6", "uses of request_number in _async_request", len(uses), 3)
    bad = [n for n in uses if not lf.holds(n, "self._lock")]
    chk.ob("R6.request-number-under-lock", "_async_request", not bad, ar.loc,
           "every read / write of self.request_number holds self._lock%s" % ("" if not bad else
           "; not at %s: two threads (prefetch + caller) can issue the same number and one response is routed to the wrong request" % ", ".join(lf.fl.where(n) for n in bad)))
    incs = [n for n in uses if isinstance(n.ast, ast.AugAssign) and isinstance(n.ast.op, ast.Add) and unparse(n.ast.value) == "1"]
    regs = [n for n in lf.fl.nodes(lambda n: n.kind == "stmt" and isinstance(n.ast, ast.Assign) and unparse(n.ast.targets[0]).startswith("self._expecting["))]
    ok = len(incs) == 1 and len(regs) == 1 and lf.holds(regs[0], "self._lock")
    if ok:
        key = unparse(regs[0].ast.targets[0].slice)
        kd = lf.fl.defs(key, regs[0])
        ok = len(kd) == 1 and kd[0][1] is not None and unparse(kd[0][1]) == "self.request_number"
        rets = lf.fl.nodes(lambda n: n.kind == "return")
        ok = ok and all(r.ast.value is not None and unparse(r.ast.value) == key for r in rets)
        # the number written into the message is the counter's value in the same critical section
        adds = [c for (n, c) in lf.fl.nodes_with_call(name="msg.add_int") if unparse(c.args[0]) in ("self.request_number", key)]
        ok = ok and len(adds) >= 1
    chk.ob("R6.number-recorded-sent-and-returned", "_async_request", ok, ar.loc,
           "num = self.request_number is written as the first field, recorded in _expecting[num] and returned; the counter advances once")
    # the reader side of the same lock: _read_response never reaches its acquire() with the lock still held (the lock is
    # not re-entrant: an iteration that leaves it held blocks the next one for ever) and holds nothing at any exit
    rr_ = prog.func("SFTPClient._read_response")
    lfr = LockFlow(prog, rr_, implicit=True)
    acq = [n for (n, c) in lfr.fl.nodes_with_call(name="self._lock.acquire")]
    held_at_acquire = [n for n in acq if any("self._lock" in s_ for (p_, lab) in lfr.cfg.pred[n.id] for s_ in lfr.outs.get(p_, ()))]
    chk.ob("R6.reader-lock-balanced", "_read_response", bool(acq) and not held_at_acquire and not lfr.held_at_exit(), rr_.loc,
           "%d acquire site(s); held when reached again: %s; held at an exit: %s" % (len(acq), bool(held_at_acquire), sorted(lfr.held_at_exit()) or "no"))
    # listdir_iter waits for exactly the requests of the current batch: the list of request numbers is emptied after a
    # batch was read to its end, before the next batch is issued (else it waits for answers that already came)
    li = prog.func("SFTPClient.listdir_iter")
    fli = Flow(prog, li, implicit=False)
    appends = [n for (n, c) in fli.nodes_with_call(name="nums.append")]
    resets = fli.nodes(lambda n: n.kind == "stmt" and isinstance(n.ast, ast.Assign) and unparse(n.ast.targets[0]) == "nums" and unparse(n.ast.value) in ("list()", "[]"))
    waits_ = [n for n in fli.nodes(lambda n: n.kind == "for_iter" and unparse(n.ast.iter) == "nums")]
    okl = bool(appends) and bool(waits_) and len(resets) >= 2
    if okl:
        # once the await loop has been entered, the next request is issued only after a reset
        reach = fli.cfg.reach([waits_[0].id], avoid_nodes=set(r.id for r in resets))
        okl = not (set(reach) & set(a_.id for a_ in appends))
    chk.ob("R5.listdir-batch-reset", "listdir_iter", okl, li.loc,
           "%d reset(s) of nums; the next batch is issued only after the list of awaited numbers was emptied" % len(resets))
    snd = [n for (n, c) in lf.fl.nodes_with_call(name="self._send_packet")]
    okb = len(snd) == 1 and len(regs) == 1 and lf.fl.dominated(snd, guard_nodes=regs, complete=True)
    chk.ob("R6.registered-before-sent", "_async_request", okb, ar.loc,
           "the request is in _expecting before its packet goes out (a reply read by another thread in between would be dropped as unexpected and the caller wait for ever)")


def _peer_counted_loops_bounded(prog, chk):
    """R4b: a loop that runs `count` times where count was read out of the request, and that reads from the same
    message in its body, must be bounded by what the message can hold: Message.get_* never fail on an exhausted
    message (they return zero bytes), so `for i in range(0xFFFFFFFF)` spins for hours and the request - with every
    later one on the session - is never answered.  Accepted: the count clamped with min(.., <expression of the
    remaining length>) or the body leaving the loop on an exhausted message."""
    n = 0
    for q in ("SFTPAttributes._unpack", "SFTPServer._process", "SFTPServer._check_file", "SFTPServer._read_folder", "SFTPServer._open_folder"):
        f = prog.func(q, required=False)
        if f is None:
            continue
        fl = Flow(prog, f, implicit=False)
        for lp in [x for x in walk_no_defs(f.node) if isinstance(x, ast.For) and M.is_call(x.iter, name="range")]:
            names = [x.id for a in lp.iter.args for x in ast.walk(a) if isinstance(x, ast.Name)]
            heads = [h for h in fl.cfg.nodes_for(lp) if h.kind == "for_iter"]
            if not heads:
                continue
            peer = []
            clamped = False
            for nm in names:
                # peer-counted: the name is assigned from a get_int somewhere in the function (flow-insensitive, so a
                # later clamp `count = min(count, ...)` does not hide where the number came from)
                if any(isinstance(s_, ast.Assign) and any(unparse(t_) == nm for t_ in s_.targets) and
                       (".get_int()" in unparse(s_.value) or ".get_int64()" in unparse(s_.value)) for s_ in walk_no_defs(f.node)):
                    peer.append(nm)
                for (dn, rhs) in fl.defs(nm, heads[0]):
                    if rhs is not None and M.is_call(rhs, name="min") and "get_remainder" in unparse(rhs):
                        clamped = True
            reads = [c for c in walk_no_defs(lp) if isinstance(c, ast.Call) and isinstance(c.func, ast.Attribute) and c.func.attr.startswith("get_")]
            if not peer or not reads:
                continue
            n += 1
            leaves = any(isinstance(s, ast.If) and "get_remainder" in unparse(s.test) and any(isinstance(x, (ast.Break, ast.Raise, ast.Return)) for x in s.body)
                         for s in walk_no_defs(lp))
            ok = clamped or leaves
            chk.ob("R4.peer-counted-loop-bounded-by-message", "%s:range(%s)" % (q, ", ".join(unparse(a) for a in lp.iter.args)), ok,
                   "%s:%d" % (f.module.path, lp.lineno),
                   "loop count %s comes out of the request and the body reads from the message; %s" % (
                       peer, "bounded by the remaining message length" if ok else
                       "nothing bounds it by what the message can hold: a count of 0xFFFFFFFF keeps the server busy for hours and the request is never answered"))
    chk.floor("R4", "peer-counted loops that read the message", n, 1)


def _frame_reader_total(prog, chk):
    """R4c: BaseSFTP._read_packet runs outside the per-request catch-all of start_subsystem: an internal error while
    taking a frame apart ends the server loop, and every later request goes unanswered.  A frame length is chosen by
    the peer, so indexing the frame needs an established length (a zero-length frame is legal input)."""
    from ..core.escape import unguarded_constant_subscripts, unguarded_variable_subscripts
    f = prog.func("BaseSFTP._read_packet")
    bad = [(unparse(x), why) for (x, need, have, why) in unguarded_constant_subscripts(prog, f)] + \
        [(unparse(x), why) for (x, why) in unguarded_variable_subscripts(prog, f)]
    subs = [x for x in walk_no_defs(f.node) if isinstance(x, ast.Subscript) and isinstance(x.ctx, ast.Load) and not isinstance(x.slice, ast.Slice)]
    chk.floor("R4", "index subscripts in BaseSFTP._read_packet", len(subs), 2)
    chk.ob("R4.frame-reader-indexes-only-established-lengths", "BaseSFTP._read_packet", not bad, f.loc,
           "%d index subscript(s); %s" % (len(subs), "each under an established length" if not bad else
                                          "; ".join("%s: %s" % b for b in bad) + " - IndexError ends start_subsystem's loop"))
