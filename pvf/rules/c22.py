"""C22 - EOF and CLOSE are sent at most once and end data transmission."""
import ast
from ..core.model import AnalysisError, unparse, dotted, walk_no_defs
from ..core.consts import Folder
from ..core.flow import Flow, node_calls, attr_writes
from ..core.locks import LockFlow, call_sites
from ..core import match as M
from .c21 import channel_messages

HOLDS_LOCK = ("_send_eof", "_close_internal", "_set_closed", "_wait_for_send_window")
STATE_DEPENDENT = ("_send_eof", "_close_internal", "_wait_for_send_window")


def run(prog, chk):
    chk.explanation = (
        "Decided structurally: (R1) CHANNEL_EOF is built only in _send_eof and CHANNEL_CLOSE only in "
        "_close_internal; (R2) both are test-and-set: _send_eof returns None once eof_sent and sets it before "
        "returning the message, _close_internal returns (None, None) once closed/not active and otherwise "
        "calls _set_closed; these and _wait_for_send_window are caller-holds-lock functions and every "
        "caller holds Channel.lock; (R3) _handle_close answers with _close_internal()'s messages and "
        "unlinks the channel, so a second CLOSE yields nothing; (R4) the sender re-tests closed/eof_sent "
        "after every wake-up, in the critical section that charges the window and builds the message; "
        "(R5) a message whose existence depends on that state must be handed to the transport inside the "
        "same critical section, otherwise another thread can emit a later-state message first; (R6) every "
        "public Channel method that emits a channel message tests the open state. R5 and R6 are violated "
        "today at listed sites (known findings: repair needs a per-channel send queue).")
    chk.assumptions = ["Transport._send_user_message serialises packets in call order (Packetizer write lock)"]
    C = prog.classes["Channel"]
    # R1 ----------------------------------------------------------------------------------
    msgs = channel_messages(prog)
    eof = sorted(f.qual for (f, fl) in msgs if fl[0][1] == "cMSG_CHANNEL_EOF")
    clo = sorted(f.qual for (f, fl) in msgs if fl[0][1] == "cMSG_CHANNEL_CLOSE")
    others = []
    for f in prog.all_functions():
        if f.cls is not None and f.cls.name == "Channel":
            continue
        for c in walk_no_defs(f.node):
            if M.is_call(c, attr="add_byte") and c.args and unparse(c.args[0]) in ("cMSG_CHANNEL_EOF", "cMSG_CHANNEL_CLOSE"):
                others.append(f.qual)
    chk.ob("R1.single-producer", "CHANNEL_EOF", eof == ["Channel._send_eof"] and not others, prog.func("Channel._send_eof").loc, "built in %s %s" % (eof, others))
    chk.ob("R1.single-producer", "CHANNEL_CLOSE", clo == ["Channel._close_internal"] and not others, prog.func("Channel._close_internal").loc,
           "built in %s %s" % (clo, others))

    for (f, fl_) in msgs:
        if fl_[0][1] in ("cMSG_CHANNEL_EOF", "cMSG_CHANNEL_CLOSE"):
            chk.ob("R1.addressed-to-peer-channel", "%s:%s" % (f.qual, fl_[0][1]), fl_[1:] == (("uint32", "self.remote_chanid"),), f.loc,
                   "layout %s (the peer releases the channel it knows by *its* id)" % (fl_,))

    # R2 ----------------------------------------------------------------------------------
    se = prog.func("Channel._send_eof")
    fs = Flow(prog, se, implicit=False)
    setf = fs.nodes(lambda n: n.kind == "stmt" and isinstance(n.ast, ast.Assign) and unparse(n.ast.targets[0]) == "self.eof_sent"
                    and isinstance(n.ast.value, ast.Constant) and n.ast.value.value is True)
    rets = fs.nodes(lambda n: n.kind == "return")
    msg_rets = [r for r in rets if r.ast.value is not None and not (isinstance(r.ast.value, ast.Constant) and r.ast.value.value is None)]
    g = fs.edge_guard(lambda t: unparse(t) == "self.eof_sent", "F")
    ok = len(setf) == 1 and len(msg_rets) == 1 and fs.dominated(msg_rets, guard_nodes=setf) and fs.dominated(msg_rets, guard_edge=g) \
        and fs.dominated(setf, guard_edge=g)
    builds = fs.nodes(lambda n: any(M.is_call(c, attr="add_byte") for c in node_calls(n)))
    ok = ok and fs.dominated(builds, guard_edge=g)
    chk.ob("R2.eof-test-and-set", "_send_eof", ok, se.loc, "None once eof_sent; otherwise eof_sent = True before the message is returned")
    ci = prog.func("Channel._close_internal")
    fc = Flow(prog, ci, implicit=False)
    sc = [n for (n, c) in fc.nodes_with_call(name="self._set_closed")]
    ga = fc.edge_guard(lambda t: unparse(t) == "self.closed", "F")
    gb = fc.edge_guard(lambda t: unparse(t) == "self.active", "T")
    builds = fc.nodes(lambda n: any(M.is_call(c, attr="add_byte") for c in node_calls(n)))
    rets = fc.nodes(lambda n: n.kind == "return")
    mr = [r for r in rets if isinstance(r.ast.value, ast.Tuple) and not all(isinstance(e, ast.Constant) for e in r.ast.value.elts)]
    ok = len(sc) == 1 and len(mr) == 1 and fc.dominated(builds + sc + mr, guard_edge=ga) and fc.dominated(builds + sc + mr, guard_edge=gb) \
        and fc.dominated(mr, guard_nodes=sc)
    eofc = [n for (n, c) in fc.nodes_with_call(name="self._send_eof")]
    ok = ok and len(eofc) == 1 and fc.dominated(mr, guard_nodes=eofc)
    chk.ob("R2.close-test-and-set", "_close_internal", ok, ci.loc, "(None, None) once closed / not active; otherwise EOF-if-needed, CLOSE, _set_closed()")
    # closing always passes through _send_eof (which latches eof_sent): the call is not hidden in a conditional
    # expression - a channel closed without the latch can emit an EOF after its CLOSE later (stdin.close(), shutdown)
    uncond = True
    calls_ = [c for c in walk_no_defs(ci.node) if M.is_call(c, name="self._send_eof")]
    for c in calls_:
        p_ = getattr(c, "_parent", None)
        while p_ is not None and not isinstance(p_, ast.stmt):
            if isinstance(p_, (ast.IfExp, ast.BoolOp, ast.Lambda, ast.ListComp, ast.GeneratorExp, ast.SetComp, ast.DictComp)):
                uncond = False
            p_ = getattr(p_, "_parent", None)
    chk.ob("R2.close-latches-eof-sent", "_close_internal", bool(calls_) and uncond and len(eofc) == 1 and fc.dominated(mr, guard_nodes=eofc, complete=True), ci.loc,
           "self._send_eof() is evaluated on every closing path (%d call(s), %s)" % (len(calls_), "unconditional" if uncond else "inside a conditional expression"))
    scl = prog.func("Channel._set_closed")
    w = [(t.attr, unparse(v)) for (st, t, v) in attr_writes(scl.node)]
    chk.ob("R2.set-closed", "_set_closed", ("closed", "True") in w, scl.loc, "closed = True")
    cw = []
    for f in prog.all_functions():
        for (st, t, v) in attr_writes(f.node):
            if t.attr in ("closed", "eof_sent") and f.cls is not None and f.cls.name == "Channel":
                cw.append((t.attr, f.qual, "False" if unparse(v) in ("0", "False") else unparse(v)))
    chk.ob("R2.state-writers", "closed/eof_sent", sorted(cw) == [("closed", "Channel.__init__", "False"), ("closed", "Channel._set_closed", "True"),
                                                                ("eof_sent", "Channel.__init__", "False"), ("eof_sent", "Channel._send_eof", "True")],
           scl.loc, "writers: %s" % sorted(cw))
    nsites = 0
    for nm in HOLDS_LOCK:
        for (f, c) in call_sites(prog, nm, classes=("Channel",)):
            if unparse(c.func.value) != "self":
                continue
            nsites += 1
            if f.name in HOLDS_LOCK:
                # a caller-holds-lock function calling another: inherits the obligation
                chk.ob("R2.caller-holds-lock", "%s->%s" % (f.qual, nm), True, "%s:%d" % (f.module.path, c.lineno), "inside a caller-holds-lock function")
                continue
            lf = LockFlow(prog, f)
            nodes = lf.fl.cfg.node_containing(c)
            ok = bool(nodes) and all(lf.holds(n, "self.lock") for n in nodes)
            chk.ob("R2.caller-holds-lock", "%s->%s" % (f.qual, nm), ok, "%s:%d" % (f.module.path, c.lineno), "%s() called with Channel.lock held" % nm)
    chk.floor("R2", "call sites of caller-holds-lock functions", nsites, 8)

    # R3 ----------------------------------------------------------------------------------
    hc = prog.func("Channel._handle_close")
    lh = LockFlow(prog, hc)
    ci_c = [n for (n, c) in lh.fl.nodes_with_call(name="self._close_internal")]
    ul = [n for (n, c) in lh.fl.nodes_with_call(name="self.transport._unlink_channel")]
    ok = len(ci_c) == 1 and len(ul) == 1 and lh.holds(ci_c[0], "self.lock") and lh.holds(ul[0], "self.lock") and lh.fl.exit_dominated(guard_nodes=ul)
    chk.ob("R3.close-answered-and-unlinked", "_handle_close", ok, hc.loc, "peer CLOSE: _close_internal() (nothing if already closed) and unlink, under the lock")

    # R4 ----------------------------------------------------------------------------------
    wf = prog.func("Channel._wait_for_send_window")
    fw = Flow(prog, wf, implicit=False)
    sub = fw.nodes(lambda n: n.kind == "stmt" and isinstance(n.ast, ast.AugAssign) and unparse(n.ast.target) == "self.out_window_size")
    waits = [n for (n, c) in fw.nodes_with_call(name="self.out_buffer_cv.wait")]
    gc_ = fw.edge_guard(lambda t: unparse(t) == "self.closed", "F")
    ge_ = fw.edge_guard(lambda t: unparse(t) == "self.eof_sent", "F")
    ok = bool(sub) and fw.dominated(sub, guard_edge=gc_) and fw.dominated(sub, guard_edge=ge_)
    chk.ob("R4.state-tested-before-grant", "_wait_for_send_window:entry", ok, wf.loc, "no window is granted when closed or eof_sent (from entry)")
    ok = bool(sub) and bool(waits)
    for wn in waits:
        start = [d for (d, lab) in fw.cfg.succ[wn.id]]
        ok = ok and fw.cfg.dominated([s.id for s in sub], guard_edge=gc_, start=start) and \
            fw.cfg.dominated([s.id for s in sub], guard_edge=ge_, start=start)
    chk.ob("R4.state-retested-after-wakeup", "_wait_for_send_window:after-wait", ok, wf.loc,
           "after every cv.wait() the closed/eof_sent tests are passed again before a window is granted")
    snd = prog.func("Channel._send")
    ls = LockFlow(prog, snd)
    ct = ls.fl.nodes(lambda n: n.kind == "cond" and unparse(n.ast) == "self.closed")
    wc = [n for (n, c) in ls.fl.nodes_with_call(name="self._wait_for_send_window")]
    adds = [n for (n, c) in ls.fl.nodes_with_call(attr="add_string")]
    ok = len(ct) == 1 and len(wc) == 1 and len(adds) == 1 and all(ls.holds(x, "self.lock") for x in ct + wc + adds) and \
        ls.fl.dominated(wc, guard_edge=lambda s, lab, d: s == ct[0].id and lab == "F")
    chk.ob("R4.send-tests-state-under-lock", "_send", ok, snd.loc, "closed test, window grant and payload in one critical section")

    # R5 ----------------------------------------------------------------------------------
    n5 = 0
    for f in C.methods.values():
        calls = [c for c in walk_no_defs(f.node) if isinstance(c, ast.Call) and isinstance(c.func, ast.Attribute)
                 and unparse(c.func.value) == "self" and c.func.attr in STATE_DEPENDENT]
        if not calls or f.name in HOLDS_LOCK:
            continue
        lf = LockFlow(prog, f)
        sends = [(n, c) for (n, c) in lf.fl.nodes_with_call(attr="_send_user_message")] + \
                [(n, c) for (n, c) in lf.fl.nodes_with_call(attr="_send_message")]
        for (n, c) in sends:
            n5 += 1
            ok = lf.holds(n, "self.lock")
            chk.ob("R5.send-inside-critical-section", f.qual, ok, lf.fl.where(n),
                   "state-dependent message handed to the transport %s Channel.lock" % ("under" if ok else
                   "after releasing (another thread can emit EOF/CLOSE in between: DATA after EOF/CLOSE, EOF after CLOSE)"))
    chk.floor("R5", "state-dependent send sites", n5, 5)

    # R6 ----------------------------------------------------------------------------------
    n6 = 0
    for f in C.methods.values():
        if f.name.startswith("_"):
            continue
        built = [fl for (ff, fl) in msgs if ff is f]
        if not built:
            continue
        kinds = set(fl[0][1] for fl in built)
        if kinds <= set(["cMSG_CHANNEL_WINDOW_ADJUST"]):
            continue  # receive-side credit, not data transmission
        n6 += 1
        deco = [unparse(d) for d in f.node.decorator_list]
        guarded = "open_only" in deco
        if not guarded:
            fl_ = Flow(prog, f)
            # explicit test of closed/eof_sent dominating the build, or the build delegated to _send / lock-holding helpers
            uses = any(isinstance(c, ast.Call) and isinstance(c.func, ast.Attribute) and c.func.attr in ("_send",) + STATE_DEPENDENT
                       for c in walk_no_defs(f.node))
            guarded = uses
        chk.ob("R6.open-state-guard", f.qual, guarded, f.loc,
               "emits %s %s" % (sorted(kinds), "behind an open-state test" if guarded else "with no closed/eof_sent test (can follow CLOSE)"))
    chk.floor("R6", "public emitting methods", n6, 10)
    # the decorator itself, evaluated over all 16 states of (closed, eof_received, eof_sent, active): the wrapped method
    # runs iff the channel is active and none of the three shut flags is set, otherwise SSHException
    import itertools
    from ..core.interp import Interp, Obj, Refuse
    oo = prog.func("channel.open_only")
    inner = [n for n in oo.node.body if isinstance(n, ast.FunctionDef)]
    if len(inner) != 1:
        raise AnalysisError("channel.open_only", "expected one wrapper function")
    wp = inner[0]
    a = wp.args
    bad = None
    for closed, eofr, eofs, active in itertools.product((False, True), repeat=4):
        ran = []

        def wrapped(*x, ran=ran, **k):
            ran.append(1)
            return "RESULT"
        env = {a.args[0].arg: Obj(closed=closed, eof_received=eofr, eof_sent=eofs, active=active)}
        if a.vararg:
            env[a.vararg.arg] = ()
        if a.kwarg:
            env[a.kwarg.arg] = {}
        it = Interp(intrinsics={oo.params()[0]: wrapped, "all": all, "any": any}, arith=False)
        try:
            kind, val = it.call_function(wp, env)
        except Refuse as e:
            raise AnalysisError("channel.open_only", "wrapper not evaluable: %s" % (e,))
        is_open = active and not (closed or eofr or eofs)
        good = (kind == "return" and val == "RESULT" and ran) if is_open else (kind == "raise" and val == "SSHException" and not ran)
        if not good and bad is None:
            bad = "closed=%s eof_received=%s eof_sent=%s active=%s: %s %r%s" % (closed, eofr, eofs, active, kind, val, " (method ran)" if ran else "")
    chk.ob("R6.open-only-decorator", "open_only", bad is None, oo.loc,
           "16 channel states evaluated: the method runs iff active and not closed / eof_received / eof_sent%s" % ("" if bad is None else "; first failing: " + bad))
