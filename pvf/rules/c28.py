"""C28 - prefetched and vectored SFTP reads return exactly the file's bytes (partial: structural clauses only)."""
import ast
import itertools
from ..core.model import AnalysisError, unparse, dotted, walk_no_defs
from ..core.flow import Flow
from ..core.interp import Interp, Obj, Refuse
from ..core import match as M


def _chunk_loop(chk, rule, key, f, loop, cursor, remaining_expr, pair_list, maxname="self.MAX_REQUEST_SIZE"):
    """while <more>: chunk = min(MAX, <remaining>); L.append((cursor, chunk)); cursor += chunk [; remaining -= chunk]"""
    body = loop.body
    ch = [s for s in body if isinstance(s, ast.Assign) and M.is_call(s.value, name="min")]
    ok = len(ch) == 1
    detail = "no `chunk = min(...)`"
    if ok:
        cv = unparse(ch[0].targets[0])
        margs = sorted(unparse(a) for a in ch[0].value.args)
        ok = margs == sorted([maxname, remaining_expr])
        detail = "%s = min(%s)" % (cv, ", ".join(margs))
        app = [s for s in body if isinstance(s, ast.Expr) and M.is_call(s.value, name="%s.append" % pair_list)]
        ok = ok and len(app) == 1 and unparse(app[0].value.args[0]) == "(%s, %s)" % (cursor, cv)
        adv = [s for s in body if isinstance(s, ast.AugAssign) and unparse(s.target) == cursor]
        ok = ok and len(adv) == 1 and isinstance(adv[0].op, ast.Add) and unparse(adv[0].value) == cv
        ok = ok and body.index(ch[0]) < body.index(app[0]) < body.index(adv[0]) if ok else False
        detail += "; appends %s; %s" % (unparse(app[0].value.args[0]) if app else "?", unparse(adv[0]) if adv else "cursor not advanced")
        if ok and remaining_expr.isidentifier():
            dec = [s for s in body if isinstance(s, ast.AugAssign) and unparse(s.target) == remaining_expr]
            ok = len(dec) == 1 and isinstance(dec[0].op, ast.Sub) and unparse(dec[0].value) == cv
            detail += "; %s" % (unparse(dec[0]) if dec else "remaining not reduced")
        ok = ok and not any(isinstance(x, (ast.Break, ast.Continue, ast.Return)) for x in walk_no_defs(loop))
    chk.ob(rule, key, ok, "%s:%d" % (f.module.path, loop.lineno), detail + " (chunks tile the range: each starts where the last ended and is at most MAX_REQUEST_SIZE and at most what is left)")


def run(prog, chk):
    chk.explanation = (
        "Partial. That reads return the file's true bytes under arbitrary short reads, response orders and seeks is "
        "arithmetic over a runtime map of offsets to chunks and is NOT decided. Decided - the structural clauses: (R1) "
        "the chunking loops of prefetch() and readv() tile the requested range (cursor agreement: each chunk starts "
        "where the previous ended, is min(MAX_REQUEST_SIZE, what is left), loop until nothing is left); (R2) "
        "_prefetch_thread issues READ(handle, offset, length) for each chunk in order with the file itself as the "
        "response sink and registers exactly that (offset, length) under the request number that very call returned, "
        "under the prefetch lock; (R3) _async_response stores the data under the offset registered for that number, "
        "removes the registration, under the lock; a STATUS is converted and saved, any other type raises; (R4) "
        "_data_in_prefetch_buffers and _read_prefetch are evaluated from their ASTs over the complete quotient of "
        "(buffer start, buffer length, read position, size) orderings on a small grid with opaque bytes: the bytes "
        "returned are the file's bytes at the read position, at most `size`, and what stays buffered still maps every "
        "remaining offset to its byte; (R5) _read serves from the prefetch buffers only when they hold the position "
        "and otherwise issues an ordinary READ at _realpos (so gaps left by short reads are fetched); (R6) readv "
        "seeks to each requested offset and yields read(length) in request order.")
    chk.assumptions = ["one thread reads responses at a time (SFTPClient serialises _read_response)", "BufferedFile.read/seek as decided by C27/C42"]
    pf = prog.method("SFTPFile", "prefetch")
    loops = [n for n in walk_no_defs(pf.node) if isinstance(n, ast.While)]
    if len(loops) != 1:
        raise AnalysisError("SFTPFile.prefetch", "chunk loop not found")
    lp = loops[0]
    cp = M.compare_parts(lp.test)
    okt = bool(cp) and cp[1] is ast.Lt and unparse(cp[2]) == pf.params()[1]
    cursor = unparse(cp[0]) if cp else "?"
    start = [s for s in walk_no_defs(pf.node) if isinstance(s, ast.Assign) and unparse(s.targets[0]) == cursor]
    chk.ob("R1.prefetch-range", "prefetch:range", okt and len(start) == 1 and unparse(start[0].value) == "self._realpos", pf.loc,
           "from %s = %s while %s" % (cursor, unparse(start[0].value) if start else "?", unparse(lp.test)))
    _chunk_loop(chk, "R1.chunks-tile-the-range", "prefetch", pf, lp, cursor, "%s - %s" % (pf.params()[1], cursor), "chunks")
    sp = [c for c in walk_no_defs(pf.node) if M.is_call(c, name="self._start_prefetch")]
    chk.ob("R1.prefetch-starts-with-those-chunks", "prefetch", len(sp) == 1 and unparse(sp[0].args[0]) == "chunks", pf.loc, "self._start_prefetch(chunks, ...)")
    rv = prog.method("SFTPFile", "readv")
    outer = [n for n in rv.node.body if isinstance(n, ast.For)]
    inner = [n for n in walk_no_defs(rv.node) if isinstance(n, ast.While)]
    if len(inner) != 1 or not outer:
        raise AnalysisError("SFTPFile.readv", "chunk loop not found")
    tgt = outer[0].target
    okrv = isinstance(tgt, ast.Tuple) and len(tgt.elts) == 2 and unparse(outer[0].iter) == rv.params()[1]
    off_v, size_v = (unparse(tgt.elts[0]), unparse(tgt.elts[1])) if okrv else ("?", "?")
    chk.ob("R1.readv-range", "readv:range", okrv and unparse(inner[0].test) == "%s > 0" % size_v, rv.loc, "for %s in %s: while %s" % (unparse(tgt), unparse(outer[0].iter), unparse(inner[0].test)))
    _chunk_loop(chk, "R1.chunks-tile-the-range", "readv", rv, inner[0], off_v, size_v, "read_chunks")

    # a prefetch is only ever started with something to fetch: _start_prefetch switches prefetching on with
    # _prefetch_done = False, and only a response to one of *its* requests can set it true again
    stp = prog.method("SFTPFile", "_start_prefetch")
    fst = Flow(prog, stp, implicit=False)
    cparam = stp.params()[1]
    on = fst.nodes(lambda n: n.kind == "stmt" and isinstance(n.ast, ast.Assign) and unparse(n.ast) in ("self._prefetching = True", "self._prefetch_done = False"))

    def nonempty(t, name):
        tx = unparse(t)
        if tx in ("len(%s) > 0" % name, "len(%s) != 0" % name, "len(%s) >= 1" % name, name):
            return "T"
        if tx in ("len(%s) == 0" % name, "not %s" % name):       # CFG folds `not x` into x with swapped arms
            return "F"
        return None
    self_guard = bool(on) and fst.dominated(on, guard_edge=lambda s_, lab, d_: fst.cfg.nodes[s_].kind == "cond" and nonempty(fst.cfg.nodes[s_].ast, cparam) == lab)
    for caller in ("prefetch", "readv"):
        cf = prog.method("SFTPFile", caller)
        fcf = Flow(prog, cf, implicit=False)
        for i, (n, c) in enumerate(fcf.nodes_with_call(name="self._start_prefetch")):
            arg = unparse(c.args[0])
            site_guard = fcf.dominated([n], guard_edge=lambda s_, lab, d_, arg=arg: fcf.cfg.nodes[s_].kind == "cond" and nonempty(fcf.cfg.nodes[s_].ast, arg) == lab)
            chk.ob("R1.prefetch-started-only-with-chunks", "%s#%d" % (caller, i), self_guard or site_guard, fcf.where(c),
                   "_start_prefetch(%s) is %s" % (arg, "guarded against an empty list (%s)" % ("inside _start_prefetch" if self_guard else "at the call site")
                                                  if (self_guard or site_guard) else
                                                  "reached with a possibly empty list: prefetching is switched on with nothing outstanding, _prefetch_done never "
                                                  "becomes true and the next unbuffered read waits for ever"))

    # ---- R2 ------------------------------------------------------------------------------------------------
    pt = prog.method("SFTPFile", "_prefetch_thread")
    fpt = Flow(prog, pt, implicit=False)
    lps = [n for n in pt.node.body if isinstance(n, ast.For)]
    ok = len(lps) == 1 and unparse(lps[0].iter) == pt.params()[1] and isinstance(lps[0].target, ast.Tuple)
    if ok:
        o_v, l_v = [unparse(e) for e in lps[0].target.elts]
        reqs = [s for s in walk_no_defs(lps[0]) if isinstance(s, ast.Assign) and M.is_call(s.value, name="self.sftp._async_request")]
        ok = len(reqs) == 1 and [unparse(a) for a in reqs[0].value.args] == ["self", "CMD_READ", "self.handle", "int64(%s)" % o_v, "int(%s)" % l_v]
        numv = unparse(reqs[0].targets[0]) if reqs else "?"
        regs = [s for s in walk_no_defs(lps[0]) if isinstance(s, ast.Assign) and unparse(s.targets[0]) == "self._prefetch_extents[%s]" % numv]
        ok = ok and len(regs) == 1 and unparse(regs[0].value) == "(%s, %s)" % (o_v, l_v)
        if ok:
            w = regs[0]._parent
            ok = isinstance(w, ast.With) and unparse(w.items[0].context_expr) == "self._prefetch_lock"
        ok = ok and not any(isinstance(x, (ast.Break, ast.Return)) and not _in_while(x, lps[0]) for x in walk_no_defs(lps[0]))
    chk.ob("R2.request-registered-under-its-own-number", "_prefetch_thread", ok, pt.loc,
           "num = _async_request(self, CMD_READ, handle, int64(offset), int(length)); with _prefetch_lock: _prefetch_extents[num] = (offset, length)")

    # ---- R3 ------------------------------------------------------------------------------------------------
    ar = prog.method("SFTPFile", "_async_response")
    far = Flow(prog, ar, implicit=False)
    tp, mp, np_ = ar.params()[1], ar.params()[2], ar.params()[3]
    stores = [s for s in walk_no_defs(ar.node) if isinstance(s, ast.Assign) and unparse(s.targets[0]).startswith("self._prefetch_data[")]
    ok = len(stores) == 1
    detail = "%d stores into _prefetch_data" % len(stores)
    if ok:
        st = stores[0]
        keyv = unparse(st.targets[0].slice)
        unp = [s for s in walk_no_defs(ar.node) if isinstance(s, ast.Assign) and isinstance(s.targets[0], ast.Tuple) and unparse(s.value) == "self._prefetch_extents[%s]" % np_]
        ok = len(unp) == 1 and unparse(unp[0].targets[0].elts[0]) == keyv
        dv = unparse(st.value)
        dd = [s for s in walk_no_defs(ar.node) if isinstance(s, ast.Assign) and unparse(s.targets[0]) == dv]
        srcs = sorted(unparse(x.value) for x in dd)
        ok = ok and srcs in (["%s.get_string()" % mp], ["None", "%s.get_string()" % mp])
        if ok and "None" in srcs:
            # a reply without data stores nothing: the store is under `data is not None`
            stn = [n for n in far.cfg.nodes_for(st) if n.id in far.live]
            ok = bool(stn) and far.dominated(stn, guard_edge=far.edge_guard(lambda q: unparse(q) == "%s is not None" % dv, "T"))
        dels = [s for s in walk_no_defs(ar.node) if isinstance(s, ast.Delete) and unparse(s.targets[0]) == "self._prefetch_extents[%s]" % np_]
        ok = ok and len(dels) == 1
        for s in (st, unp[0] if unp else None, dels[0] if dels else None):
            if s is None:
                ok = False
                continue
            p = s
            locked = False
            while p is not None and p is not ar.node:
                if isinstance(p, ast.With) and unparse(p.items[0].context_expr) == "self._prefetch_lock":
                    locked = True
                p = getattr(p, "_parent", None)
            ok = ok and locked
        detail = "_prefetch_data[%s] = %s with (%s, _) = _prefetch_extents[%s]; registration deleted; all under _prefetch_lock" % (keyv, dv, keyv, np_)
    chk.ob("R3.data-stored-under-registered-offset", "_async_response", ok, ar.loc, detail)
    # whatever the reply type, the request is unregistered: a registration that is never removed keeps the prefetch
    # "in flight" for ever (the concurrency cap never frees a slot, _prefetch_done never becomes true)
    deln = [n for n in far.nodes(lambda n: n.kind == "stmt" and isinstance(n.ast, ast.Delete) and unparse(n.ast.targets[0]) == "self._prefetch_extents[%s]" % np_)]
    okd = bool(deln) and far.exit_dominated(guard_nodes=deln)
    chk.ob("R3.every-reply-unregisters-its-request", "_async_response", okd, ar.loc,
           "every normal exit of _async_response has removed _prefetch_extents[%s]%s" % (np_, "" if okd else
           " - not so: " + far.witness([far.cfg.exit.id], guard_nodes=deln)))
    conv = [c for c in walk_no_defs(ar.node) if M.is_call(c, name="self.sftp._convert_status")]
    okc = len(conv) == 1
    if okc:
        from ._shared import async_status_discipline
        d = async_status_discipline(prog)
        okc = d["ok_saved"] and set(d["absorbed"]) <= {"EOFError"} and (not d["absorbed"] or d["unregisters"])
        g = far.edge_guard(lambda q: unparse(q) == "%s == CMD_STATUS" % tp, "T")
        okc = okc and far.dominated([n for n in far.cfg.node_containing(conv[0]) if n.id in far.live], guard_edge=g)
    chk.ob("R3.status-converted-and-saved", "_async_response", okc, ar.loc,
           "a STATUS reply is converted by _convert_status and the error kept for _check_exception (end-of-file may be left to the fall-back read)")
    raises = far.nodes(lambda n: n.kind == "raise" and isinstance(n.ast, ast.Raise))
    g_ne = far.edge_guard(lambda q: unparse(q) == "%s != CMD_DATA" % tp, "T")
    g_eq = far.edge_guard(lambda q: unparse(q) == "%s == CMD_DATA" % tp, "F")
    okr = len(raises) == 1 and (far.dominated(raises, guard_edge=g_ne) or far.dominated(raises, guard_edge=g_eq))
    # ... and a reply that is neither STATUS nor DATA cannot reach the store
    if okr and stores:
        stn_ = [n for n in far.cfg.nodes_for(stores[0]) if n.id in far.live]
        okr = bool(stn_)
    chk.ob("R3.other-reply-types-raise", "_async_response", okr, ar.loc, "anything but DATA (after STATUS was handled) raises")

    # ---- R4 evaluated buffers ------------------------------------------------------------------------------------
    dib = prog.method("SFTPFile", "_data_in_prefetch_buffers")
    rpf = prog.method("SFTPFile", "_read_prefetch")
    FILE = bytes(range(65, 65 + 14))          # opaque distinct bytes: offset i holds FILE[i]
    bad1 = bad2 = None
    n1 = n2 = 0
    layouts = []
    for a in range(0, 6):
        for la in range(1, 5):
            layouts.append({a: FILE[a:a + la]})
            for b in range(a + la, 9):
                for lb in range(1, 4):
                    layouts.append({a: FILE[a:a + la], b: FILE[b:b + lb]})
    layouts.append({})
    for bufs in layouts:
        for pos in range(0, 12):
            n1 += 1
            selfo = Obj(_prefetch_data=dict(bufs))
            it = Interp(arith=True)
            kind, val = it.call_function(dib.node, {dib.params()[0]: selfo, dib.params()[1]: pos})
            below = [k for k in bufs if k <= pos]
            want = None
            if below:
                k = max(below)
                want = k if pos < k + len(bufs[k]) else None
            if (kind != "return" or val != want) and bad1 is None:
                bad1 = "buffers %s, position %d -> %s %r, want %r" % (dict((k, len(v)) for k, v in bufs.items()), pos, kind, val, want)
            if want is None:
                continue
            for size in range(1, 7):
                n2 += 1
                selfo = Obj(_prefetch_data=dict(bufs), _realpos=pos, _prefetch_done=True, _closed=False, _prefetching=True)

                def dibf(off, selfo=selfo):
                    k2, v2 = Interp(arith=True).call_function(dib.node, {dib.params()[0]: selfo, dib.params()[1]: off})
                    if k2 != "return":
                        raise Refuse(None, "_data_in_prefetch_buffers raised %s" % v2)
                    return v2
                it = Interp(intrinsics={"self._data_in_prefetch_buffers": dibf, "self.sftp._read_response": lambda *a: None, "self._check_exception": lambda: None}, arith=True)
                kind, val = it.call_function(rpf.node, {rpf.params()[0]: selfo, rpf.params()[1]: size})
                k = want
                avail = k + len(bufs[k]) - pos
                exp = FILE[pos:pos + min(size, avail)]
                okv = kind == "return" and val == exp
                if okv:
                    # what stays buffered still maps every other offset to its own byte, and nothing was lost
                    before = set()
                    for kk, vv in bufs.items():
                        before |= set(range(kk, kk + len(vv)))
                    after = {}
                    for kk, vv in selfo._prefetch_data.items():
                        for j, byte in enumerate(vv):
                            if (kk + j) in after or FILE[kk + j] != byte:
                                okv = False
                            after[kk + j] = byte
                    okv = okv and set(after) == before - set(range(pos, pos + len(exp)))
                if not okv and bad2 is None:
                    bad2 = "buffers %s, position %d, size %d -> %s %r (want %r); left %s" % (
                        dict((k_, len(v_)) for k_, v_ in bufs.items()), pos, size, kind, val, exp, dict((k_, bytes(v_)) for k_, v_ in selfo._prefetch_data.items()))
    chk.count("R4 (buffers, position) cases for _data_in_prefetch_buffers", n1)
    chk.count("R4 (buffers, position, size) cases for _read_prefetch", n2)
    chk.exhaustive = True
    chk.ob("R4.buffer-lookup", "_data_in_prefetch_buffers", bad1 is None, dib.loc, "%d cases%s" % (n1, "" if bad1 is None else "; first failing: " + bad1))
    chk.ob("R4.served-bytes-and-remainder", "_read_prefetch", bad2 is None, rpf.loc, "%d cases%s" % (n2, "" if bad2 is None else "; first failing: " + bad2))
    # the wait loop of _read_prefetch re-checks for saved errors and stops when the prefetch is over
    frp = Flow(prog, rpf, implicit=False)
    wl = [n for n in walk_no_defs(rpf.node) if isinstance(n, ast.While)]
    okw = len(wl) == 1
    if okw:
        calls = [unparse(s.value) for s in wl[0].body if isinstance(s, ast.Expr)]
        okw = calls == ["self.sftp._read_response()", "self._check_exception()"]
        brk = [s for s in wl[0].body if isinstance(s, ast.If) and any(isinstance(x, ast.Break) for x in s.body)]
        okw = okw and sorted(unparse(b.test) for b in brk) == sorted(["offset is not None", "self._prefetch_done or self._closed"])
    chk.ob("R4.wait-loop", "_read_prefetch", okw, rpf.loc, "waits by reading responses, re-raises saved errors, stops when data is there or the prefetch is done / the file closed")

    # ---- R5 ------------------------------------------------------------------------------------------------
    rd = prog.method("SFTPFile", "_read")
    frd = Flow(prog, rd, implicit=False)
    pfc = [(n, c) for (n, c) in frd.nodes_with_call(name="self._read_prefetch")]
    req = [(n, c) for (n, c) in frd.nodes_with_call(name="self.sftp._request")]
    ok = len(pfc) == 1 and len(req) == 1
    if ok:
        g = frd.edge_guard(lambda t: unparse(t) == "self._prefetching", "T")
        ok = frd.dominated([pfc[0][0]], guard_edge=g)
        dv = unparse(pfc[0][0].ast.targets[0]) if isinstance(pfc[0][0].ast, ast.Assign) else None
        rets = frd.nodes(lambda n: n.kind == "return" and n.ast.value is not None and unparse(n.ast.value) == dv)
        ok = ok and dv is not None and len(rets) == 1 and frd.dominated(rets, guard_edge=frd.edge_guard(lambda t: unparse(t) == "%s is not None" % dv, "T"))
        # the synchronous request stays reachable when the buffers do not hold the position
        ok = ok and req[0][0].id in frd.cfg.reach([d for (d, l) in frd.cfg.succ[pfc[0][0].id]])
    chk.ob("R5.fallback-to-ordinary-read", "SFTPFile._read", ok, rd.loc, "prefetched data is returned only when there is some; otherwise READ at _realpos")
    nf = [s for s in walk_no_defs(rpf.node) if isinstance(s, ast.Assign) and unparse(s.targets[0]) == "self._prefetching" and unparse(s.value) == "False"]
    okn = len(nf) == 1 and isinstance(nf[0]._parent, ast.If) and unparse(nf[0]._parent.test) == "offset is None"
    chk.ob("R5.prefetch-disabled-only-when-nothing-found", "_read_prefetch", okn, rpf.loc, "self._prefetching = False only under `offset is None`, returning None")

    # ---- R6 ------------------------------------------------------------------------------------------------
    ylp = [n for n in rv.node.body if isinstance(n, ast.For) and any(isinstance(x, (ast.Yield,)) for x in ast.walk(n))]
    ok = len(ylp) == 1 and unparse(ylp[0].iter) == rv.params()[1]
    if ok:
        x = unparse(ylp[0].target)
        ok = [unparse(s) for s in ylp[0].body] == ["self.seek(%s[0])" % x, "yield self.read(%s[1])" % x]
    chk.ob("R6.readv-yields-each-range-in-order", "readv", ok, rv.loc, "for x in chunks: self.seek(x[0]); yield self.read(x[1])")
    spc = [c for c in walk_no_defs(rv.node) if M.is_call(c, name="self._start_prefetch")]
    chk.ob("R6.readv-prefetches-the-split-chunks", "readv", len(spc) == 1 and unparse(spc[0].args[0]) == "read_chunks", rv.loc, "self._start_prefetch(read_chunks, ...)")


def _in_while(node, stop):
    p = getattr(node, "_parent", None)
    while p is not None and p is not stop:
        if isinstance(p, ast.While):
            return True
        p = getattr(p, "_parent", None)
    return False
