"""C11 - key re-exchange is transparent to traffic in flight.

Every send site of the package is classified by (thread context, gated or
ungated sender, message type class) and checked against the gating
discipline that keeps connection/auth-layer traffic out of the window between
our KEXINIT and our NEWKEYS without deadlocking the transport thread.
"""
import ast
from ..core.model import AnalysisError, unparse, dotted, walk_no_defs
from ..core.consts import Folder
from ..core.flow import Flow, node_calls
from ..core.layout import Extractor, split_messages
from ..core.callgraph import CallGraph, dict_values_as_methods
from ..core.locks import LockFlow
from ..core import match as M
from . import _kex

GATED, UNGATED = "_send_user_message", "_send_message"
PUBLIC_CLASSES = ("Transport", "ServiceRequestingTransport", "Channel", "ChannelFile", "ChannelStderrFile", "ChannelStdinFile",
                  "SSHClient", "SFTPClient", "SFTPFile", "BufferedFile", "SFTP", "AuthHandler", "AuthOnlyHandler",
                  "AgentRequestHandler", "AgentClientProxy", "AgentServerProxy")


def type_class(n):
    if n is None:
        return "unknown"
    if n in (5, 6):
        return "service"
    if 1 <= n <= 19:
        return "transport"
    if 20 <= n <= 49:
        return "kex"
    if 50 <= n <= 79:
        return "auth"
    if 80 <= n <= 127:
        return "connection"
    return "unknown"


def build_graph(prog, fold):
    engs = _kex.engines(prog, fold, include_gss=True)
    kex_classes = sorted(set(cn for (alg, cn, fam) in engs))
    cg = CallGraph(prog, kex_classes)
    # dispatch tables as edges from Transport.run
    init = prog.func("Transport.__init__")
    for n in ast.walk(init.node):
        if isinstance(n, ast.Assign) and unparse(n.targets[0]) == "self._handler_table":
            for q in dict_values_as_methods(prog, n.value, "Transport"):
                cg.add_edge("Transport.run", q)
    for cn in ("ServiceRequestingTransport",):
        si = prog.classes[cn].methods.get("__init__")
        if si is not None:
            for n in ast.walk(si.node):
                if isinstance(n, ast.Assign) and isinstance(n.targets[0], ast.Subscript) and unparse(n.targets[0].value) == "self._handler_table":
                    if isinstance(n.value, ast.Attribute):
                        t = prog.method(cn, n.value.attr, required=False)
                        if t is not None:
                            cg.add_edge("Transport.run", t.qual)
    tab = prog.cls("Transport").class_assigns.get("_channel_handler_table")
    for q in dict_values_as_methods(prog, tab):
        cg.add_edge("Transport.run", q)
    for prop in ("_server_handler_table", "_client_handler_table"):
        for cn in ("AuthHandler", "AuthOnlyHandler"):
            f = prog.classes[cn].methods.get(prop)
            if f is None:
                continue
            for r in walk_no_defs(f.node):
                if isinstance(r, ast.Return):
                    for q in dict_values_as_methods(prog, r.value, cn):
                        cg.add_edge("Transport.run", q)
    from ._shared import gss_handler_table
    for (q, kind, txt) in gss_handler_table(prog):
        cg.add_edge("Transport.run", q)
    # keep-alive callback: installed by Transport.set_keepalive, run from Packetizer.read_all on the transport thread
    sk = prog.func("Transport.set_keepalive")
    if any(M.is_call(c, attr="global_request") for c in ast.walk(sk.node)):
        cg.add_edge("Packetizer._check_keepalive", "Transport.global_request")
    # application callbacks given by the application run where they are called (opaque)
    return cg


def send_sites(prog, fold):
    """[(FuncInfo, call, gated?, set of message type numbers, description)]"""
    cenv = fold.module_env("common")
    out = []
    ex = Extractor()
    for f in prog.all_functions():
        calls = [c for c in walk_no_defs(f.node) if isinstance(c, ast.Call) and isinstance(c.func, ast.Attribute)
                 and c.func.attr in (GATED, UNGATED)]
        # only the Transport's senders (the agent protocol has an unrelated _send_message)
        keep = []
        for c in calls:
            recv = unparse(c.func.value)
            if recv == "self":
                if f.cls is not None and prog.is_subclass(f.cls.name, "Transport"):
                    keep.append(c)
            elif recv in ("self.transport", "self._transport", "transport", "t", "x"):
                keep.append(c)
        calls = keep
        if not calls:
            continue
        # message types by variable name
        types = {}
        try:
            for (ev, kind) in ex.function(f.node):
                for m in split_messages(ev):
                    if m["fields"] and m["fields"][0][0] == "byte":
                        types.setdefault(m["var"], set()).add(m["fields"][0][1])
        except AnalysisError:
            pass
        fl = None
        for c in calls:
            arg = unparse(c.args[0]) if c.args else "?"
            names = set(types.get(arg, ()))
            if not names:
                # messages produced by the channel helpers
                fl = fl or Flow(prog, f, implicit=False)
                nodes = fl.cfg.node_containing(c)
                srcs = set()
                if nodes and c.args and isinstance(c.args[0], ast.Name):
                    for (dn, rhs) in fl.defs(c.args[0].id, nodes[0]):
                        srcs.add(unparse(rhs) if rhs is not None else (unparse(dn.ast.iter) if dn.kind == "for_iter" else "?"))
                t = " ".join(sorted(srcs))
                if "_send_eof()" in t:
                    names.add("cMSG_CHANNEL_EOF")
                if "_close_internal()" in t or t == "msgs":
                    names |= set(["cMSG_CHANNEL_EOF", "cMSG_CHANNEL_CLOSE"])
            nums = set()
            for nm in names:
                v = cenv.get(nm)
                if isinstance(v, bytes) and len(v) == 1:
                    nums.add(v[0])
                else:
                    v2 = fold.name(f.module.name, nm)
                    if isinstance(v2, bytes) and len(v2) == 1:
                        nums.add(v2[0])
            out.append((f, c, c.func.attr == GATED, nums, sorted(names)))
    return out


def run(prog, chk):
    fold = Folder(prog)
    chk.explanation = (
        "Decided structurally over the whole package: a call graph (MRO-resolved, dispatch tables and the "
        "keep-alive callback as edges) gives the transport-thread closure T of Transport.run and the user "
        "closure U of the public API; every send site is typed by the first field of the message it sends. "
        "(R1) U-context sends of service/auth/connection messages use the gated sender; (R2) T-context code "
        "never calls the gated sender (it is the only thread that can finish the exchange: blocking it on "
        "the gate ends in 'Key-exchange timed out'); (R3) T-context sends of service/auth/connection messages "
        "are not emitted with the ungated sender from handlers that can run between our KEXINIT and NEWKEYS; "
        "(R4) the gate is closed under its lock before KEXINIT goes out and reopened only after the new "
        "inbound keys are active. R1-R3 are violated today at the reply sites of the handlers (the known "
        "upstream weakness 'rekey with traffic in flight'); each site is a known finding keyed by function and "
        "message type, and any new site of the wrong kind is a fresh violation. Not decided: delivery of the "
        "queued traffic afterwards (runtime ordering).")
    chk.assumptions = ["application callbacks run on the thread that calls them; receiver types from the frozen table in core/callgraph.py"]
    cg = build_graph(prog, fold)
    T = cg.closure(["Transport.run"])
    roots = []
    for cn in PUBLIC_CLASSES:
        if cn not in prog.classes:
            continue
        for f in prog.classes[cn].methods.values():
            if not f.name.startswith("_") and f.qual != "Transport.run":
                roots.append(f.qual)
    # AuthHandler's auth_* are entered from Transport.auth_* (user thread)
    U = cg.closure(roots)
    sites = send_sites(prog, fold)
    chk.floor("R0", "send sites in the package", len(sites), 60)
    chk.count("T-closure functions", len(T))
    chk.count("U-closure functions", len(U))
    nres = sum(len(v) for v in cg.unresolved.values())
    chk.note("calls on typed receivers that resolve to no method: %s" % sorted(set("%s: %s.%s" % (k, r, m) for k, v in cg.unresolved.items() for (r, m, t) in v)))
    counter = {}
    for (f, c, gated, nums, names) in sorted(sites, key=lambda s: (s[0].qual, s[1].lineno)):
        inT, inU = f.qual in T, f.qual in U
        classes = sorted(set(type_class(n) for n in nums)) or ["unknown"]
        where = "%s:%d" % (f.module.path, c.lineno)
        tname = "+".join(names) if names else unparse(c.args[0]) if c.args else "?"
        # key: function, sender kind and ordinal of the site within the function (message names go in the detail)
        base = "%s:%s" % (f.qual, "gated" if gated else "ungated")
        i = counter.get(base, 0)
        counter[base] = i + 1
        key = "%s#%d" % (base, i)
        upper = any(k in ("service", "auth", "connection", "unknown") for k in classes)
        if f.cls is not None and f.cls.name in ("Transport", "ServiceRequestingTransport") and f.name in (GATED, UNGATED):
            continue  # the senders themselves
        if gated and inT:
            chk.ob("R2.transport-thread-never-gated", key, False, where,
                   "%s is reachable from Transport.run (%s) and calls the gated sender: during a re-exchange the transport thread "
                   "blocks on its own gate until 'Key-exchange timed out'" % (f.qual, " > ".join((cg.path(["Transport.run"], f.qual) or [])[-3:])))
        elif gated:
            chk.ob("R2.transport-thread-never-gated", key, True, where, "gated sender used from user context only")
        if (not gated) and upper:
            if inT:
                chk.ob("R3.handler-replies-deferred-during-kex", key, False, where,
                       "%s message sent with the ungated sender from the transport thread: it can go out between our KEXINIT and NEWKEYS" % "/".join(classes))
            if inU and not inT:
                chk.ob("R1.user-sends-gated", key, False, where,
                       "%s message sent with the ungated sender from user context" % "/".join(classes))
            elif inU and inT:
                chk.ob("R1.user-sends-gated", key, False, where,
                       "%s message sent with the ungated sender from a function reachable from both the API and the transport thread" % "/".join(classes))
        if (not gated) and not upper:
            chk.ob("R3.lower-layer-ungated", key, True, where, "%s message: may be sent during key exchange" % "/".join(classes))

    # R5 lock order: never wait on the send gate while holding a lock the transport thread needs -------
    n5 = 0
    for cn, lock in (("Channel", "self.lock"),):
        for f in prog.classes[cn].methods.values():
            calls = [c for c in walk_no_defs(f.node) if M.is_call(c, attr=GATED)]
            if not calls:
                continue
            lf = LockFlow(prog, f)
            for c in calls:
                n5 += 1
                nodes = lf.fl.cfg.node_containing(c)
                held = bool(nodes) and any(lf.canon(lock) in lf.held_at(n) for n in nodes)
                chk.ob("R5.no-gated-send-under-channel-lock", "%s#%d" % (f.qual, [x for x in calls].index(c)), not held,
                       "%s:%d" % (f.module.path, c.lineno),
                       "the gated sender may block until the exchange completes; the transport thread needs Channel.lock to "
                       "process in-flight channel messages, so holding it here stalls the exchange")
    chk.floor("R5", "gated sends in Channel", n5, 15)

    # R4 gate discipline -----------------------------------------------------------------------
    for fq in ("Transport._send_kex_init", "Transport._negotiate_keys"):
        f = prog.func(fq)
        lf = LockFlow(prog, f)
        clr = [n for (n, c) in lf.fl.nodes_with_call(name="self.clear_to_send.clear")]
        ok = len(clr) == 1 and lf.holds(clr[0], "self.clear_to_send_lock") and not lf.held_at_exit()
        snd = [n for (n, c) in lf.fl.nodes_with_call(name="self._send_message")] + [n for (n, c) in lf.fl.nodes_with_call(name="self._send_kex_init")] + \
              [n for (n, c) in lf.fl.nodes_with_call(name="self._parse_kex_init")]
        ok = ok and bool(snd) and lf.fl.dominated(snd, guard_nodes=clr)
        chk.ob("R4.gate-closed-before-kexinit", fq, ok, f.loc, "clear_to_send cleared under its lock before KEXINIT is sent / processed")
    pn = prog.func("Transport._parse_newkeys")
    lf = LockFlow(prog, pn)
    st = [n for (n, c) in lf.fl.nodes_with_call(name="self.clear_to_send.set")]
    ai = [n for (n, c) in lf.fl.nodes_with_call(name="self._activate_inbound")]
    ok = len(st) == 1 and len(ai) == 1 and lf.holds(st[0], "self.clear_to_send_lock") and lf.fl.dominated(st, guard_nodes=ai) and not lf.held_at_exit()
    chk.ob("R4.gate-reopened-after-newkeys", "_parse_newkeys", ok, pn.loc, "clear_to_send set under its lock after _activate_inbound()")
    setters = []
    for f in prog.all_functions():
        for c in walk_no_defs(f.node):
            if M.is_call(c, name="self.clear_to_send.set"):
                setters.append(f.qual)
    chk.ob("R4.gate-openers", "clear_to_send.set", sorted(set(setters)) == ["Transport._parse_newkeys"], pn.loc, "opened in %s" % sorted(set(setters)))
    su = prog.func("Transport._send_user_message")
    fl = Flow(prog, su, implicit=False)
    snd = [n for (n, c) in fl.nodes_with_call(name="self._send_message")]
    g = fl.edge_guard(lambda t: unparse(t) == "self.clear_to_send.is_set()", "T")
    lfu = LockFlow(prog, su)
    n2 = [n for (n, c) in lfu.fl.nodes_with_call(name="self._send_message")]
    ok = len(snd) == 1 and fl.dominated(snd, guard_edge=g) and bool(n2) and lfu.holds(n2[0], "self.clear_to_send_lock")
    chk.ob("R4.gated-sender-tests-gate-under-lock", "_send_user_message", ok, su.loc, "sends only with the gate open, holding clear_to_send_lock")

    # R6 packet expectations are a kex-phase constraint set by the transport thread -----------------------------------
    # `_expect_packet` narrows what the run loop accepts next.  Set from a user-thread function it (a) races with the
    # run loop's test-and-clear and (b) outlaws connection traffic the peer sent before it saw our KEXINIT - exactly
    # the traffic in flight a re-exchange must tolerate.  Every caller must be transport-thread-only.
    nexp = 0
    per = {}
    for f in prog.all_functions():
        for c in walk_no_defs(f.node):
            if isinstance(c, ast.Call) and isinstance(c.func, ast.Attribute) and c.func.attr == "_expect_packet":
                nexp += 1
                i = per.get(f.qual, 0)
                per[f.qual] = i + 1
                inT, inU = f.qual in T, f.qual in U
                okx = inT and not inU
                # the engines' start_kex is called by _negotiate_keys on the transport thread only
                chk.ob("R6.expectation-set-on-transport-thread-only", "%s#%d" % (f.qual, i), okx, "%s:%d" % (f.module.path, c.lineno),
                       "%s in %s (%s)" % (unparse(c)[:60], f.qual, "transport thread only" if okx else
                                          "reachable from the public API: %s" % " > ".join((cg.path(roots, f.qual) or [f.qual])[-3:]) if inU else "not reachable from Transport.run"))
    chk.floor("R6", "_expect_packet call sites", nexp, 20)
