"""C37 - malformed private key files fail with SSHException (partial)."""
import ast
from ..core.model import AnalysisError, unparse, dotted, walk_no_defs
from ..core.flow import Flow
from ..core.callgraph import CallGraph
from ..core.escape import Escapes, unguarded_constant_subscripts, unguarded_variable_subscripts
from ..core import match as M

ENTRIES = ["PKey._read_private_key_file", "PKey._read_private_key", "RSAKey._decode_key", "ECDSAKey._decode_key",
           "Ed25519Key.__init__", "RSAKey._from_private_key", "RSAKey._from_private_key_file",
           "ECDSAKey._from_private_key", "ECDSAKey._from_private_key_file"]
ALLOWED = ("SSHException", "OSError", "EOFError")

EXTRA = [
    ("attr", "readlines", ["UnicodeDecodeError"], "a key file opened in text mode: undecodable bytes raise while reading"),
    ("text", "mode", ["ValueError"], "modes.CBC/CTR(iv) validates the IV length (salt comes from the file)"),
    ("text", "cipher['mode']", ["ValueError"], "cipher mode constructor validates the IV length"),
    ("pred", lambda f, c: isinstance(c.func, ast.Attribute) and c.func.attr == "decode" and not any(k.arg == "errors" for k in c.keywords)
     and len(c.args) <= 1 and f.module.name in ("pkey", "ed25519key", "rsakey", "ecdsakey"), ["UnicodeDecodeError"],
     "strict bytes.decode of a field read from the file"),
    ("pred", lambda f, c: isinstance(c.func, ast.Attribute) and c.func.attr == "update" and "decryptor" in unparse(c.func.value), ["ValueError"],
     "CipherContext.update on a finalised / misused context (kept for completeness)"),
]
EXTRA = [r for r in EXTRA if not (r[0] == "pred" and "update" in r[3])]


# escapes that are not failures of *loading a file*: (function of the site, callee prefix, class) -> reason
NOT_LOADING = [
    ("util.b", "raise", "TypeError", "util.b on a non-string argument (e.g. a non-str password): caller's programming error, not file content"),
    ("util.u", "raise", "TypeError", "util.u on a value that is neither bytes nor str: Message.get_text hands it get_string()'s bytes; not file content"),
    (None, "nacl.signing.SigningKey", "TypeError", "the seed is always a bytes slice of the parsed message"),
    (None, "nacl.signing.VerifyKey", "TypeError", "the key is always bytes read from the message"),
]


def _not_loading(fn_of_site, callee, cls):
    for (fq, cal, c, why) in NOT_LOADING:
        if (fq is None or fq == fn_of_site) and callee.startswith(cal) and (c is None or c == cls):
            return why
    return None


def _mod_zero_sites(f):
    """x % y / x // y with a non-constant divisor computed from parsed key material."""
    out = []
    if f.name != "_decode_key":
        return out
    for x in walk_no_defs(f.node):
        if isinstance(x, ast.BinOp) and isinstance(x.op, (ast.Mod, ast.FloorDiv, ast.Div)) and not isinstance(x.right, ast.Constant):
            if isinstance(x.left, ast.Constant) and isinstance(x.left.value, str):
                continue
            out.append((x, "ZeroDivisionError", "divisor %s is computed from numbers read from the file" % unparse(x.right)))
    return out


_KEYMODS = ("pkey", "rsakey", "ecdsakey", "ed25519key")
_flows = {}


def _unguarded_dict_lookup(prog, f, n):
    """`D[k]` (load) where the key may be absent because file content decides it: D a local dict filled while parsing
    with k a string constant, or D a table (dotted attribute) with k a plain variable.  Discharged by a dominating
    membership test (`k in D` true arm / `k not in D` false arm) with k not rebound in between; an enclosing handler
    is the escape engine's business.  Returns ["KeyError"] or None."""
    if f.module.name not in _KEYMODS or not isinstance(n.ctx, ast.Load):
        return None
    base, key = n.value, n.slice
    if isinstance(base, ast.Name) and isinstance(key, ast.Constant) and isinstance(key.value, str):
        filled = [st for st in walk_no_defs(f.node) if isinstance(st, ast.Assign) and any(unparse(t) == base.id for t in st.targets)
                  and ((isinstance(st.value, ast.Dict) and not st.value.keys) or (M.is_call(st.value, name="dict") and not st.value.args and not st.value.keywords))]
        if not filled:
            return None
    elif isinstance(base, ast.Attribute) and dotted(base) and isinstance(key, ast.Name):
        pass
    else:
        return None
    if f.qual not in _flows:
        _flows[f.qual] = Flow(prog, f, implicit=False)
    fl = _flows[f.qual]
    use = [u for u in fl.cfg.node_containing(n) if u.id in fl.live]
    if not use:
        return None
    kt, bt = unparse(key), unparse(base)

    def member(arm_in):
        def pred(t):
            return (isinstance(t, ast.Compare) and len(t.ops) == 1 and isinstance(t.ops[0], ast.In if arm_in else ast.NotIn)
                    and unparse(t.left) == kt and unparse(t.comparators[0]) == bt)
        return pred
    g1 = fl.edge_guard(member(True), "T")
    g2 = fl.edge_guard(member(False), "F")
    def gm(s_, lab, d):
        return g1(s_, lab, d) or g2(s_, lab, d)
    if not fl.dominated(use, guard_edge=gm):
        # paths around the membership test may be infeasible: `if k != c and k not in D: raise` ... `if k == c: ... else:
        # D[k]`.  Discharged when every such path establishes k == c for a constant c while the lookup is dominated by
        # an edge establishing k != c, k not rebound in between.
        if not isinstance(key, ast.Name):
            return ["KeyError"]
        at_use = fl.rd[use[0].id].get(key.id)

        def cmp_const(t, op):
            return (isinstance(t, ast.Compare) and len(t.ops) == 1 and isinstance(t.ops[0], op) and unparse(t.left) == kt and
                    isinstance(t.comparators[0], ast.Constant))
        consts = set(repr(c.ast.comparators[0].value) for c in fl.nodes(lambda c: c.kind == "cond" and (cmp_const(c.ast, ast.Eq) or cmp_const(c.ast, ast.NotEq))))
        for cv in sorted(consts):
            def is_c(t, op):
                return cmp_const(t, op) and repr(t.comparators[0].value) == cv
            eqT, neF = fl.edge_guard(lambda t: is_c(t, ast.Eq), "T"), fl.edge_guard(lambda t: is_c(t, ast.NotEq), "F")
            eqF, neT = fl.edge_guard(lambda t: is_c(t, ast.Eq), "F"), fl.edge_guard(lambda t: is_c(t, ast.NotEq), "T")
            around = fl.cfg.reach([fl.cfg.entry.id], avoid_edge=lambda s_, lab, d: gm(s_, lab, d) or eqT(s_, lab, d) or neF(s_, lab, d))
            if use[0].id in around:
                continue
            if not fl.dominated(use, guard_edge=lambda s_, lab, d: eqF(s_, lab, d) or neT(s_, lab, d)):
                continue
            involved = fl.nodes(lambda c: c.kind == "cond" and (is_c(c.ast, ast.Eq) or is_c(c.ast, ast.NotEq) or member(True)(c.ast) or member(False)(c.ast)))
            if all(fl.rd[c.id].get(key.id) == at_use for c in involved):
                return None
        return ["KeyError"]
    if isinstance(key, ast.Name):
        conds = fl.nodes(lambda c: c.kind == "cond" and (member(True)(c.ast) or member(False)(c.ast)))
        at_use = fl.rd[use[0].id].get(key.id)
        if not any(fl.rd[c.id].get(key.id) == at_use for c in conds):
            return ["KeyError"]
    return None


def run(prog, chk):
    chk.explanation = (
        "Partial: that a loaded key's public and private halves agree is a value property, decided only at the one site "
        "where the code itself checks it (R2). Decided: (R1) exception-escape analysis from the private-key loading entry "
        "points of every key class (_from_private_key[_file], _read_private_key[_file], _read_private_key_pem/_openssh, "
        "_uint32_cstruct_unpack, _unpad_openssh, _decode_key, Ed25519Key._parse_signing_key_data) over the resolved call "
        "graph: the only exception classes that may leave are SSHException subclasses (incl. PasswordRequiredException) "
        "and OSError from opening the file. Sources: explicit raises, a frozen catalogue of partial operations "
        "(text-mode readlines, unhexlify, cipher mode / finalize, bcrypt.kdf, nacl SigningKey, strict decodes, "
        "RSAPrivateNumbers.private_key, get_text), constant-index subscripts on data from the file without an "
        "established length, lookups in a dict filled from the file (constant key) or in a table under a name from the "
        "file without a dominating membership test, divisions by numbers from the file - each filtered by the enclosing "
        "handlers. (R2) "
        "validation is not an `assert` (it vanishes under -O and is an AssertionError otherwise). (R3) the object "
        "returned by load_der_private_key is type-checked with a raising arm before its type-specific attributes are "
        "used (a key of another type in a file with this tag). Operations outside the catalogue are assumed total.")
    chk.assumptions = ["catalogue rows confirmed against the library documentation / by one-off experiments at design time",
                       "operations not catalogued are total (an uncatalogued partial operation is a missed escape, never a false alarm)"]
    cg = CallGraph(prog, [])
    idx_cache = {}

    def extra_sites(f):
        out = list(_mod_zero_sites(f))
        if f.module.name in ("pkey", "rsakey", "ecdsakey", "ed25519key"):
            if f.qual not in idx_cache:
                try:
                    idx_cache[f.qual] = [(x, why) for (x, need, have, why) in unguarded_constant_subscripts(prog, f)] + \
                        list(unguarded_variable_subscripts(prog, f))
                except AnalysisError:
                    idx_cache[f.qual] = []
            for (x, why) in idx_cache[f.qual]:
                out.append((x, "IndexError", why))
        return out
    _flows.clear()
    esc = Escapes(prog, cg, extra_catalog=EXTRA, extra_sites=extra_sites, dict_subscripts=lambda f, n: _unguarded_dict_lookup(prog, f, n))
    seen = {}
    skipped = {}
    nfun = 0
    for q in ENTRIES:
        f = prog.func(q)
        nfun += 1
        if q == "Ed25519Key.__init__":
            # only the file-loading part of the constructor: the calls that read and parse the private key,
            # each filtered by the handlers that enclose the call site
            found = []
            sites = [c for c in walk_no_defs(f.node) if isinstance(c, ast.Call) and dotted(c.func) in ("self._read_private_key", "self._parse_signing_key_data")]
            if len(sites) < 3:
                raise AnalysisError(q, "expected the two _read_private_key calls and the _parse_signing_key_data call, found %d" % len(sites))
            for c_ in sites:
                ts, _ = cg._targets(f, c_)
                for t in ts:
                    for (c, origin) in esc.of(t):
                        if esc.survives(c, c_, f.node):
                            found.append((c, origin if " via " in origin else origin + " via " + t))
        else:
            found = esc.of(f.qual)
        for (c, origin) in sorted(found):
            if any(esc.is_a(c, a) for a in ALLOWED):
                continue
            # key by the originating site (function of origin, callee text, class), not by entry point
            m = origin.split(" via ")
            site = m[0]
            fn_of_site = m[1] if len(m) > 1 else f.qual
            callee = site.split(" at ")[0].strip()
            if site.startswith("raise at") or site.startswith("assert at"):
                callee = site.split(" at ")[0]
            key = "%s:%s:%s" % (fn_of_site, callee[:40], c)
            why = _not_loading(fn_of_site, callee, c)
            if why is not None:
                skipped[key] = why
                continue
            if key not in seen:
                seen[key] = (origin, f)
    for k in sorted(skipped):
        chk.note("not a loading failure: %s - %s" % (k, skipped[k]))
    clo = cg.closure([prog.func(q).qual for q in ENTRIES])
    chk.count("functions in the loading closure", len(clo))
    chk.floor("R1", "loading entry points", nfun, 9)
    if not seen:
        chk.ob("R1.loader-raises-only-ssh-exceptions", "all-entry-points", True, "paramiko/pkey.py", "no catalogued non-SSH exception escapes the loaders")
    else:
        chk.ob("R1.loader-raises-only-ssh-exceptions", "all-entry-points", True, "paramiko/pkey.py", "%d escape site(s) listed individually" % len(seen))
    # every catalogued partial operation in the closure is an obligation of its own (discharged when a handler
    # on the way to every entry point converts or absorbs it)
    nsites = 0
    for q in sorted(clo):
        fq = cg.funcs.get(q)
        if fq is None or fq.module.name not in ("pkey", "rsakey", "ecdsakey", "ed25519key"):
            continue
        if fq.qual == "Ed25519Key.__init__":
            continue    # its own partial operations belong to the public-blob path; the loader calls are followed above
        sites = []
        for x in walk_no_defs(fq.node):
            if isinstance(x, ast.Call):
                for classes, why in esc.site_exceptions(fq, x):
                    for c in classes:
                        sites.append((x, unparse(x.func), c, why))
        for (x, c, why) in extra_sites(fq):
            sites.append((x, unparse(x), c, why))
        for (x, callee, c, why) in sites:
            if any(esc.is_a(c, a) for a in ALLOWED):
                continue
            key = "%s:%s:%s" % (fq.qual, callee[:40], c)
            if key in seen or _not_loading(fq.qual, callee, c) is not None:
                continue
            nsites += 1
            chk.ob("R1.loader-raises-only-ssh-exceptions", key, True, "%s:%d" % (fq.module.path, x.lineno),
                   "%s from %s (%s) is converted or absorbed before it can leave a loading entry point" % (c, callee[:40], why))
    chk.floor("R1", "catalogued partial operations in the loading closure", nsites + len(seen), 15)
    for key in sorted(seen):
        origin, f = seen[key]
        if key.split(":")[1].startswith("assert"):
            continue   # reported under R2
        where = origin.split(" at ")[1].split(" ")[0] if " at " in origin else f.loc
        chk.ob("R1.loader-raises-only-ssh-exceptions", key, False, where, "%s may escape a key-loading entry point: %s" % (key.split(":")[-1], origin))
    # ---- R2 asserts used as validation --------------------------------------------------------------------
    nassert = 0
    for q in sorted(clo):
        f = cg.funcs.get(q)
        if f is None or f.module.name not in ("pkey", "rsakey", "ecdsakey", "ed25519key", "message", "util"):
            continue
        for i, x in enumerate([x for x in walk_no_defs(f.node) if isinstance(x, ast.Assert)]):
            nassert += 1
            surv = esc.survives("AssertionError", x, f.node)
            chk.ob("R2.validation-is-not-an-assert", "%s:assert#%d" % (f.qual, i), not surv, "%s:%d" % (f.module.path, x.lineno),
                   "assert %s - %s" % (unparse(x.test)[:80], "converted by an enclosing handler" if not surv else
                                       "AssertionError escapes, and the check disappears under python -O"))
    chk.count("assert statements in the loading closure", nassert)
    # ---- R3 loaded key type is checked -----------------------------------------------------------------------
    want_cls = {"RSAKey": "rsa.RSAPrivateKey", "ECDSAKey": "ec.EllipticCurvePrivateKey"}
    for K, cls_ in sorted(want_cls.items()):
        f = prog.method(K, "_decode_key")
        fl = Flow(prog, f, implicit=False)
        loads = fl.nodes_with_call(name="serialization.load_der_private_key")
        if not loads:
            raise AnalysisError("%s._decode_key" % K, "load_der_private_key call not found")
        kv = unparse(loads[0][0].ast.targets[0]) if isinstance(loads[0][0].ast, ast.Assign) else None
        uses = fl.nodes(lambda n: n.kind == "stmt" and isinstance(n.ast, ast.Assign) and any(
            isinstance(t, ast.Attribute) and unparse(t.value) == "self" for t in n.ast.targets) and kv in [x.id for x in ast.walk(n.ast.value) if isinstance(x, ast.Name)])

        def is_check(t):
            return M.is_call(t, name="isinstance") and len(t.args) == 2 and unparse(t.args[0]) == kv
        g = fl.edge_guard(is_check, "T")
        conds = fl.nodes(lambda n: n.kind == "cond" and is_check(n.ast))
        ok = bool(uses) and bool(conds) and fl.dominated(uses, guard_edge=g, start=[d for (d, l) in fl.cfg.succ[loads[0][0].id]])
        if ok:
            # the failing arm raises an allowed class (not an assert)
            for c in conds:
                par = c.ast._parent
                if isinstance(par, ast.Assert):
                    ok = False
        chk.ob("R3.loaded-key-type-checked", K, ok, f.loc,
               "the key returned by load_der_private_key is %s before self.* is set from it" % (
                   "checked with isinstance(..) and a raising arm" if ok else "not type-checked with a raising arm (a %s-tagged file holding another key type: AttributeError / AssertionError)" % K))

    # ---- R4 the halves of an Ed25519 key are compared where the code derives one from the other ---------------
    pf = prog.func("Ed25519Key._parse_signing_key_data")
    fl = Flow(prog, pf, implicit=False)
    appends = [n for (n, c) in fl.nodes_with_call(name="signing_keys.append")]
    sk = [n for n in fl.nodes(lambda n: n.kind == "stmt" and isinstance(n.ast, ast.Assign) and M.is_call(n.ast.value, name="nacl.signing.SigningKey"))]
    if len(appends) != 1 or len(sk) != 1:
        raise AnalysisError("Ed25519Key._parse_signing_key_data", "signing key construction / collection not recognised")
    skv = unparse(sk[0].ast.targets[0])
    derived = "%s.verify_key.encode()" % skv

    def is_halves_check(t):
        if not isinstance(t, ast.Compare) or not all(isinstance(o, ast.Eq) for o in t.ops):
            return False
        operands = [unparse(x) for x in [t.left] + list(t.comparators)]
        return derived in operands and len(operands) >= 2
    conds = fl.nodes(lambda n: n.kind == "cond" and is_halves_check(n.ast))
    ok = bool(conds) and fl.dominated(appends, guard_edge=fl.edge_guard(is_halves_check, "T"))
    stored = []
    for c in conds:
        stored += [unparse(x) for x in [c.ast.left] + list(c.ast.comparators) if unparse(x) != derived]
    chk.ob("R4.public-half-derived-from-seed-is-compared", "Ed25519Key._parse_signing_key_data", ok, pf.loc,
           "a key is collected only when %s (derived from the private seed) equals the stored public copies %s%s" % (
               derived, stored or "", "" if ok else " - no such comparison dominates signing_keys.append: a file whose halves disagree would load"))
    if ok:
        want = {"public", "public_keys[i]", "key_data[32:]"}
        chk.ob("R4.every-public-copy-compared", "Ed25519Key._parse_signing_key_data", want <= set(stored), pf.loc,
               "compared copies: %s (the outer public key, the inner copy, the second half of the key data)" % sorted(set(stored)))

    # ---- R5: no opt-out of the backend's key validation in the loading closure -----------------------------------
    def opts_out(call):
        return [k.arg for k in call.keywords if k.arg and k.arg.startswith("unsafe_") and not (isinstance(k.value, ast.Constant) and k.value.value in (False, None))]
    probe = ast.parse("numbers.private_key(backend, unsafe_skip_rsa_key_validation=True)").body[0].value
    if opts_out(probe) != ["unsafe_skip_rsa_key_validation"]:
        raise AnalysisError("C37.R5", "the opt-out matcher does not match its own positive example")
    nbuild = 0
    ords = {}
    for q in sorted(clo):
        fq = cg.funcs.get(q)
        if fq is None or fq.module.name not in _KEYMODS:
            continue
        for c in walk_no_defs(fq.node):
            if not isinstance(c, ast.Call):
                continue
            last = c.func.attr if isinstance(c.func, ast.Attribute) else (c.func.id if isinstance(c.func, ast.Name) else "")
            builds = last in ("private_key", "public_key", "load_der_private_key", "load_pem_private_key", "load_ssh_private_key", "derive_private_key")
            bad = opts_out(c)
            if builds:
                nbuild += 1
            if builds or bad:
                chk.ob("R5.backend-validation-not-switched-off", "%s:%s#%d" % (fq.qual, last, ords.setdefault((fq.qual, last), []).append(1) or len(ords[(fq.qual, last)]) - 1), not bad, "%s:%d" % (fq.module.path, c.lineno),
                       "%s(...)%s" % (unparse(c.func)[-50:], "" if not bad else " passes %s: inconsistent key material from the file is accepted instead of raising" % bad))
    chk.floor("R5", "backend key constructions in the loading closure", nbuild, 4)
