"""C33 - SFTP attributes survive encoding and decoding."""
import ast
from ..core.model import AnalysisError, unparse, dotted, walk_no_defs
from ..core.consts import Folder
from ..core.layout import eval_order, ADD, GET
from ..core import match as M

FLAGS = ["FLAG_SIZE", "FLAG_UIDGID", "FLAG_PERMISSIONS", "FLAG_AMTIME", "FLAG_EXTENDED"]
SPEC = {"FLAG_SIZE": [("uint64", "st_size")], "FLAG_UIDGID": [("uint32", "st_uid"), ("uint32", "st_gid")],
        "FLAG_PERMISSIONS": [("uint32", "st_mode")], "FLAG_AMTIME": [("uint32", "st_atime"), ("uint32", "st_mtime")]}


def flag_of(test):
    """FLAG name for a test `self._flags & self.FLAG_X`."""
    if isinstance(test, ast.BinOp) and isinstance(test.op, ast.BitAnd):
        for a, b in ((test.left, test.right), (test.right, test.left)):
            if unparse(a) == "self._flags" and unparse(b).startswith("self.FLAG_"):
                return unparse(b)[5:]
    return None


def strip_int(e):
    if M.is_call(e, name="int") and len(e.args) == 1:
        return e.args[0]
    return e


def groups(fnode, msgvar, reading):
    """[(flag, [(kind, attr)]...)] in source order + extended group roles."""
    out = []
    ext = None
    for st in fnode.body:
        if not isinstance(st, ast.If):
            continue
        fl = flag_of(st.test)
        if fl is None:
            continue
        fields = []
        roles = None
        for s in st.body:
            if isinstance(s, ast.For):
                roles = loop_roles(s, msgvar, reading)
                continue
            calls = []
            eval_order(s, lambda x: calls.append(x) if isinstance(x, ast.Call) else None)
            for c in calls:
                if not (isinstance(c.func, ast.Attribute) and unparse(c.func.value) == msgvar):
                    continue
                if reading and c.func.attr in GET:
                    tgt = None
                    if isinstance(s, ast.Assign) and s.value is c:
                        tgt = unparse(s.targets[0])
                    fields.append((GET[c.func.attr], tgt.replace("self.", "") if tgt else "?"))
                if (not reading) and c.func.attr in ADD:
                    fields.append((ADD[c.func.attr], unparse(strip_int(c.args[0])).replace("self.", "")))
        out.append((fl, fields, roles))
    return out


def loop_roles(loop, msgvar, reading):
    """evaluation-ordered [(kind, 'key'|'value')] of the per-entry fields."""
    roles = []
    if reading:
        names = {}
        for s in loop.body:
            calls = []
            eval_order(s, lambda x: calls.append(x) if isinstance(x, ast.Call) else None)
            gets = [c for c in calls if isinstance(c.func, ast.Attribute) and unparse(c.func.value) == msgvar and c.func.attr in GET]
            if isinstance(s, ast.Assign) and isinstance(s.targets[0], ast.Subscript) and unparse(s.targets[0].value) == "self.attr":
                keyexpr, valexpr = s.targets[0].slice, s.value
                for c in gets:      # already in evaluation order (value before the target's subscript)
                    if any(x is c for x in ast.walk(valexpr)):
                        roles.append((GET[c.func.attr], "value"))
                    elif any(x is c for x in ast.walk(keyexpr)):
                        roles.append((GET[c.func.attr], "key"))
                for nm, role in ((keyexpr, "key"), (valexpr, "value")):
                    if isinstance(nm, ast.Name) and nm.id in names:
                        roles[names[nm.id]] = (roles[names[nm.id]][0], role)
            elif isinstance(s, ast.Assign) and isinstance(s.targets[0], ast.Name) and len(gets) == 1 and s.value is gets[0]:
                names[s.targets[0].id] = len(roles)
                roles.append((GET[gets[0].func.attr], "?"))
        return roles
    tgt = loop.target
    order = [unparse(e) for e in tgt.elts] if isinstance(tgt, ast.Tuple) else [unparse(tgt)]
    it = unparse(loop.iter)
    for s in loop.body:
        calls = []
        eval_order(s, lambda x: calls.append(x) if isinstance(x, ast.Call) else None)
        for c in calls:
            if isinstance(c.func, ast.Attribute) and unparse(c.func.value) == msgvar and c.func.attr in ADD:
                a = unparse(c.args[0])
                role = "?"
                if it.endswith(".items()") and len(order) == 2:
                    role = "key" if a == order[0] else ("value" if a == order[1] else "?")
                roles.append((ADD[c.func.attr], role))
    return roles


def run(prog, chk):
    fold = Folder(prog)
    chk.explanation = (
        "Decided structurally by writer/reader agreement between SFTPAttributes._pack and _unpack: both are a "
        "leading uint32 flags word followed by the groups SIZE, UIDGID, PERMISSIONS, AMTIME, EXTENDED in that "
        "order, each written/read iff its flag is set, with identical field kinds and attributes (compared "
        "in Python evaluation order, which is what exposes a key/value swap in `d[get()] = get()`); flag "
        "constants are distinct bits per draft-ietf-secsh-filexfer-02 s5; _pack recomputes the flags from the "
        "presence of the fields (is-not-None tests, len(attr) > 0) starting from 0; a fresh object has all "
        "fields absent and its own empty dict. Not decided: 32/64-bit ranges of the values.")
    chk.assumptions = ["Message.add_int/get_int etc. are inverses (C39)"]
    env = fold.class_env("SFTPAttributes")
    vals = [env.get(f) for f in FLAGS]
    want = [1, 2, 4, 8, 0x80000000]
    chk.ob("R1.flag-constants", "FLAG_*", vals == want, prog.cls("SFTPAttributes").module.path, "flags %s (draft: %s)" % (vals, want))
    pk = prog.func("SFTPAttributes._pack")
    up = prog.func("SFTPAttributes._unpack")
    pm, um = pk.params()[1], up.params()[1]
    gw = groups(pk.node, pm, False)
    gr = groups(up.node, um, True)
    # the writer's first group list includes the presence-computation Ifs? no: those test fields, not flags
    chk.ob("R1.group-order", "writer", [g[0] for g in gw] == FLAGS, pk.loc, "groups written in order %s" % [g[0] for g in gw])
    chk.ob("R1.group-order", "reader", [g[0] for g in gr] == FLAGS, up.loc, "groups read in order %s" % [g[0] for g in gr])
    wd = dict((g[0], g) for g in gw)
    rd = dict((g[0], g) for g in gr)
    for fl in FLAGS[:4]:
        w = wd.get(fl, (fl, [], None))[1]
        r = rd.get(fl, (fl, [], None))[1]
        ok = w == SPEC[fl] and r == SPEC[fl]
        chk.ob("R1.group-agreement", fl, ok, pk.loc, "writer %s / reader %s / draft %s" % (w, r, SPEC[fl]))
    w = wd.get("FLAG_EXTENDED", (0, [], None))
    r = rd.get("FLAG_EXTENDED", (0, [], None))
    ok = w[1][:1] == [("uint32", "len(attr)")] and r[1][:1] == [("uint32", "count")] and w[2] == [("string", "key"), ("string", "value")] and r[2] == w[2]
    chk.ob("R1.group-agreement", "FLAG_EXTENDED", ok, up.loc,
           "writer count+%s / reader count+%s (in evaluation order: the right-hand side of an assignment is read first)" % (w[2], r[2]))
    # leading flags word
    first_w = [s for s in pk.node.body if isinstance(s, ast.Expr) and M.is_call(s.value, name=pm + ".add_int")]
    first_r = [s for s in up.node.body if isinstance(s, ast.Assign) and M.is_call(s.value, name=um + ".get_int")]
    ok = bool(first_w) and unparse(first_w[0].value.args[0]) == "self._flags" and bool(first_r) and unparse(first_r[0].targets[0]) == "self._flags"
    # written before any group
    if ok:
        idx_w = pk.node.body.index(first_w[0])
        ok = all(pk.node.body.index(s) > idx_w for s in pk.node.body if isinstance(s, ast.If) and flag_of(s.test))
        idx_r = up.node.body.index(first_r[0])
        ok = ok and all(up.node.body.index(s) > idx_r for s in up.node.body if isinstance(s, ast.If) and flag_of(s.test))
    chk.ob("R1.flags-word-first", "_pack/_unpack", ok, pk.loc, "uint32 flags precede all groups on both sides")

    # R2 flags reflect presence ------------------------------------------------------------------
    body = [s for s in pk.node.body if not (isinstance(s, ast.Expr) and isinstance(s.value, ast.Constant))]
    ok = bool(body) and isinstance(body[0], ast.Assign) and unparse(body[0]) == "self._flags = 0"
    chk.ob("R2.flags-recomputed-from-zero", "_pack", ok, pk.loc, "first statement: %s" % (unparse(body[0]) if body else "?"))
    presence = {}
    for s in pk.node.body:
        if isinstance(s, ast.If) and flag_of(s.test) is None and len(s.body) == 1 and isinstance(s.body[0], ast.AugAssign) \
                and unparse(s.body[0].target) == "self._flags" and isinstance(s.body[0].op, ast.BitOr):
            presence[unparse(s.body[0].value)[5:]] = unparse(s.test)
    wantp = {"FLAG_SIZE": ["self.st_size is not None"],
             "FLAG_UIDGID": ["self.st_uid is not None and self.st_gid is not None"],
             "FLAG_PERMISSIONS": ["self.st_mode is not None"],
             "FLAG_AMTIME": ["self.st_atime is not None and self.st_mtime is not None"],
             "FLAG_EXTENDED": ["len(self.attr) > 0", "self.attr", "len(self.attr) != 0"]}
    for fl in FLAGS:
        chk.ob("R2.flag-iff-present", fl, presence.get(fl) in wantp[fl], pk.loc, "%s set when: %s" % (fl, presence.get(fl)))
    # presence computed before the flags word is written
    if first_w:
        idx_w = pk.node.body.index(first_w[0])
        ok = all(pk.node.body.index(s) < idx_w for s in pk.node.body if isinstance(s, ast.If) and flag_of(s.test) is None)
        chk.ob("R2.presence-before-write", "_pack", ok, pk.loc, "all presence tests precede the flags word")
    init = prog.func("SFTPAttributes.__init__")
    got = {}
    for s in init.node.body:
        if isinstance(s, ast.Assign) and isinstance(s.targets[0], ast.Attribute):
            got[s.targets[0].attr] = s.value
    ok = all(isinstance(got.get(k), ast.Constant) and got[k].value is None for k in ("st_size", "st_uid", "st_gid", "st_mode", "st_atime", "st_mtime"))
    ok = ok and isinstance(got.get("attr"), ast.Dict) and not got["attr"].keys and isinstance(got.get("_flags"), ast.Constant) and got["_flags"].value == 0
    chk.ob("R2.fresh-object-empty", "__init__", ok, init.loc,
           "all fields None, attr = {} (a fresh dict per object: %s)" % (unparse(got.get("attr")) if got.get("attr") is not None else "?"))
    fm = prog.func("SFTPAttributes._from_msg")
    t = unparse(fm.node)
    chk.ob("R2.decode-into-fresh-object", "_from_msg", "attr = cls()" in t and "attr._unpack(msg)" in t, fm.loc, "decodes into a new object")
    # R3: who may write the value fields.  The object that was decoded (or filled by the application) is what gets encoded:
    # only the constructor, the decoder and - for the flags word alone - the encoder assign to its fields; the renderers
    # (__str__, __repr__, _debug_str, asbytes) read.  A renderer that "defaults" an absent field turns absent into present
    # on the next encode (the server's directory listing renders an entry right before packing it).
    VALUE = ("st_size", "st_uid", "st_gid", "st_mode", "st_atime", "st_mtime", "attr", "_flags")
    allowed = {"__init__": set(VALUE), "_unpack": set(VALUE), "_pack": {"_flags"}}
    cls = prog.cls("SFTPAttributes")
    nw = 0
    for name, m in sorted(cls.methods.items()):
        wrote = set()
        for x in walk_no_defs(m.node):
            tgts = []
            if isinstance(x, ast.Assign):
                tgts = x.targets
            elif isinstance(x, (ast.AugAssign, ast.AnnAssign)):
                tgts = [x.target]
            elif isinstance(x, ast.Delete):
                tgts = x.targets
            for t_ in tgts:
                for e in (t_.elts if isinstance(t_, (ast.Tuple, ast.List)) else [t_]):
                    base = e.value if isinstance(e, ast.Subscript) else e
                    if isinstance(base, ast.Attribute) and isinstance(base.value, ast.Name) and base.value.id == "self" and base.attr in VALUE:
                        wrote.add(base.attr)
        extra = wrote - allowed.get(name, set())
        if wrote:
            nw += 1
        chk.ob("R3.value-fields-written-only-by-constructor-and-decoder", "SFTPAttributes.%s" % name, not extra, m.loc,
               "writes %s%s" % (sorted(wrote) or "nothing", "" if not extra else " - %s must not be assigned here" % sorted(extra)))
    chk.floor("R3", "methods of SFTPAttributes that write value fields", nw, 3)
