"""Rule fragments used by more than one property."""
import ast
from ..core.model import AnalysisError, unparse, dotted
from ..core.flow import Flow
from ..core import match as M


def check_inc_iv(prog, chk, rule="R.nonce-function"):
    """Packetizer._inc_iv_counter(iv) == iv[0:4] || be64(int(iv[4:]) + 1)
    (RFC 5647 section 7.1: fixed 4 bytes, 8-byte invocation counter + 1)."""
    f = prog.func("Packetizer._inc_iv_counter")
    ps = f.params()
    if len(ps) != 2:
        raise AnalysisError("Packetizer._inc_iv_counter", "expected (self, iv)")
    iv = ps[1]
    fl = Flow(prog, f)
    rets = fl.nodes(lambda n: n.kind == "return")
    ok = len(rets) == 1 and rets[0].ast.value is not None
    detail = ""
    if ok:
        alts = fl.expand(rets[0].ast.value, rets[0], depth=6)
        for alt in alts:
            detail = unparse(alt)
            parts = M.flatten_add(alt)
            good = len(parts) == 2
            if good:
                s0 = M.slice_of(parts[0])
                good = bool(s0 and unparse(s0[0]) == iv and s0[1] is None and s0[2] == "4")
            if good:
                c = parts[1]
                good = M.is_call(c, attr="to_bytes") and len(c.args) >= 2 and \
                    isinstance(c.args[0], ast.Constant) and c.args[0].value == 8 and \
                    isinstance(c.args[1], ast.Constant) and c.args[1].value == "big"
                if good:
                    inner = c.func.value
                    good = isinstance(inner, ast.BinOp) and isinstance(inner.op, ast.Add)
                    if good:
                        ops = [inner.left, inner.right]
                        one = [o for o in ops if isinstance(o, ast.Constant) and o.value == 1]
                        fb = [o for o in ops if M.is_call(o, name="int.from_bytes")]
                        good = len(one) == 1 and len(fb) == 1
                        if good:
                            a0 = fb[0].args[0] if fb[0].args else None
                            s1 = M.slice_of(a0) if a0 is not None else None
                            byteorder = M.arg(fb[0], 1, "byteorder")
                            good = bool(s1 and unparse(s1[0]) == iv and s1[1] == "4" and s1[2] is None) and \
                                isinstance(byteorder, ast.Constant) and byteorder.value == "big"
            if not good:
                ok = False
                break
    chk.ob(rule, "Packetizer._inc_iv_counter", ok, f.loc,
           "returns %s" % detail[:200])
    return ok


def check_compression_activation(prog, chk, rule):
    """Every key change installs a fresh (de)compressor in both directions under the
    same condition, and delayed zlib is switched on at authentication only."""
    from ..core.flow import node_calls
    from ..core.model import walk_no_defs
    # R8 compression switched on symmetrically on every key change ----------------------------
    for fname, side, setter in (("_activate_inbound", "remote", "set_inbound_compressor"),
                                ("_activate_outbound", "local", "set_outbound_compressor")):
        f = prog.func("Transport." + fname)
        cvars = [unparse(n.targets[0]) for n in walk_no_defs(f.node) if isinstance(n, ast.Assign)
                 and unparse(n.value).startswith("self._compression_info[self.%s_compression]" % side)]
        if len(cvars) != 1:
            raise AnalysisError("Transport." + fname, "compressor variable not found")
        cv = cvars[0]
        delayed = "self.%s_compression != 'zlib@openssh.com'" % side
        cases = (("plain-zlib", {"%s is not None" % cv: True, delayed: True}, True),
                 ("delayed-zlib-after-auth", {"%s is not None" % cv: True, delayed: False, "self.authenticated": True}, True),
                 ("delayed-zlib-before-auth", {"%s is not None" % cv: True, delayed: False, "self.authenticated": False}, False),
                 ("none", {"%s is not None" % cv: False}, False))
        for lab, env, want in cases:
            fl = Flow(prog, f, env=env)
            st_ = [n for (n, c) in fl.nodes_with_call(attr=setter)]
            if want:
                ok = len(st_) == 1 and fl.exit_dominated(guard_nodes=st_)
                if ok:
                    c = [c for c in node_calls(st_[0]) if M.is_call(c, attr=setter)][0]
                    ok = len(c.args) == 1 and unparse(c.args[0]) == "%s()" % cv
            else:
                ok = not st_
            chk.ob(rule, "%s:%s" % (fname, lab), ok, f.loc,
                   "%s %s (a fresh engine per key change, so both ends restart their zlib streams together)" % (
                       setter, "installed on every path" if want else "not installed"))
    at = prog.func("Transport._auth_trigger")
    for side, setter, idx in (("local", "set_outbound_compressor", 0), ("remote", "set_inbound_compressor", 1)):
        fl = Flow(prog, at, env={"self.%s_compression == 'zlib@openssh.com'" % side: True})
        st_ = [n for (n, c) in fl.nodes_with_call(attr=setter)]
        ok = len(st_) == 1 and fl.exit_dominated(guard_nodes=st_)
        fl2 = Flow(prog, at, env={"self.%s_compression == 'zlib@openssh.com'" % side: False})
        ok = ok and not fl2.nodes_with_call(attr=setter)
        chk.ob(rule, "_auth_trigger:%s" % side, ok, at.loc, "delayed zlib switched on at authentication, only then")



def check_retest_after_wakeup(prog, chk, rule):
    """Channel._wait_for_send_window: after every cv.wait() the closed / eof_sent
    tests are passed again before a window is granted (shared by C22 and C25)."""
    wf = prog.func("Channel._wait_for_send_window")
    fw = Flow(prog, wf, implicit=False)
    sub = fw.nodes(lambda n: n.kind == "stmt" and isinstance(n.ast, ast.AugAssign) and unparse(n.ast.target) == "self.out_window_size")
    waits = [n for (n, c) in fw.nodes_with_call(name="self.out_buffer_cv.wait")]
    gc_ = fw.edge_guard(lambda t: unparse(t) == "self.closed", "F")
    ge_ = fw.edge_guard(lambda t: unparse(t) == "self.eof_sent", "F")
    ok = bool(sub) and fw.dominated(sub, guard_edge=gc_) and fw.dominated(sub, guard_edge=ge_)
    chk.ob(rule + ".state-tested-before-grant", "_wait_for_send_window:entry", ok, wf.loc, "no window is granted when closed or eof_sent (from entry)")
    ok = bool(sub) and bool(waits)
    for wn in waits:
        start = [d for (d, lab) in fw.cfg.succ[wn.id]]
        ok = ok and fw.cfg.dominated([s.id for s in sub], guard_edge=gc_, start=start) and \
            fw.cfg.dominated([s.id for s in sub], guard_edge=ge_, start=start)
    chk.ob(rule + ".state-retested-after-wakeup", "_wait_for_send_window:after-wait", ok, wf.loc,
           "after every cv.wait() the closed/eof_sent tests are passed again before a window is granted")
    return ok


def check_adjust_wakes_all(prog, chk, rule):
    """Channel._window_adjust notifies every blocked sender under the lock (C19/C20/C25)."""
    from ..core.locks import LockFlow
    wa = prog.func("Channel._window_adjust")
    lw = LockFlow(prog, wa)
    nt = [n for (n, c) in lw.fl.nodes_with_call(name="self.out_buffer_cv.notify_all")]
    ok = len(nt) == 1 and lw.holds(nt[0], "self.lock") and lw.fl.exit_dominated(guard_nodes=nt)
    chk.ob(rule, "_window_adjust", ok, wa.loc, "out_buffer_cv.notify_all() under the lock on every path (a single notify leaves other blocked senders parked)")
    return ok


def gss_handler_table(prog):
    """[(handler qual, 'unbound'|'bound', value text)] of GssapiWithMicAuthHandler's dispatch table, in either form the
    class has had: a class-level dict of plain functions (values are Names: *unbound*, the caller must pass self) or
    a dict of bound methods (self._x) returned by the _handler_table property / built in __init__."""
    import ast as _ast
    from ..core.model import walk_no_defs as _w
    g2 = prog.cls("GssapiWithMicAuthHandler")
    out = []
    for s in g2.node.body:
        if isinstance(s, _ast.Assign) and isinstance(s.value, _ast.Dict) and "handler_table" in unparse(s.targets[0]):
            for v in s.value.values:
                if isinstance(v, _ast.Name) and v.id in g2.methods:
                    out.append((g2.methods[v.id].qual, "unbound", v.id))
    if not out:
        for m in g2.methods.values():
            if "handler_table" not in m.name and m.name != "__init__":
                continue
            for d in _w(m.node):
                if isinstance(d, _ast.Dict):
                    for v in d.values:
                        if isinstance(v, _ast.Attribute) and unparse(v.value) == "self" and v.attr in g2.methods:
                            out.append((g2.methods[v.attr].qual, "bound", unparse(v)))
    if not out:
        raise AnalysisError("GssapiWithMicAuthHandler", "dispatch table not found in either recognised form")
    return out


def async_status_discipline(prog):
    """How SFTPFile._async_response treats a STATUS reply.  Returns dict(ok_saved, absorbed, unregisters, detail):
    ok_saved     the last handler around _convert_status is `except Exception as e` and stores e, unfiltered, on
                 every path;
    absorbed     exception classes an earlier handler swallows (only EOFError is acceptable: an ordinary read at that
                 position reports end of file by itself);
    unregisters  every normal exit of the function has removed the request from _prefetch_extents (so the prefetch
                 wait ends through _prefetch_done even when nothing was saved)."""
    import ast as _ast
    ar = prog.func("SFTPFile._async_response")
    fa = Flow(prog, ar, env={"t == CMD_STATUS": True}, implicit=True)      # exception edges make the handlers reachable
    num = ar.params()[3]
    conv = [c for (n, c) in fa.nodes_with_call(attr="_convert_status")]
    hs = [h for h in fa.cfg.nodes if h.kind == "except" and h.id in fa.live]
    ok_saved = False
    absorbed = []
    detail = "handlers: %s" % [unparse(h.ast.type) if h.ast.type is not None else "bare" for h in hs]
    if len(conv) == 1 and hs:
        last = hs[-1]
        save = fa.nodes(lambda x: x.kind == "stmt" and isinstance(x.ast, _ast.Assign) and unparse(x.ast.targets[0]) == "self._saved_exception")
        ok_saved = last.ast.type is not None and unparse(last.ast.type) == "Exception" and last.ast.name is not None and len(save) == 1 \
            and unparse(save[0].ast.value) == last.ast.name and \
            fa.cfg.dominated([fa.cfg.exit.id], guard_nodes=[save[0].id], start=[last.id])
        for h in hs[:-1]:
            names = [unparse(h.ast.type)] if not isinstance(h.ast.type, _ast.Tuple) else [unparse(e) for e in h.ast.type.elts]
            body_ok = all(isinstance(s, _ast.Pass) for s in h.ast.body)
            absorbed += names if body_ok else ["%s (handler does more than pass)" % n_ for n_ in names]
    fall = Flow(prog, ar, implicit=False)
    deln = fall.nodes(lambda n: n.kind == "stmt" and isinstance(n.ast, _ast.Delete) and unparse(n.ast.targets[0]) == "self._prefetch_extents[%s]" % num)
    unregisters = bool(deln) and fall.exit_dominated(guard_nodes=deln)
    return {"ok_saved": ok_saved, "absorbed": absorbed, "unregisters": unregisters, "detail": detail, "loc": ar.loc}
