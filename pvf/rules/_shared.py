"""Rule fragments used by more than one property."""
import ast
from ..core.model import AnalysisError, unparse, dotted
from ..core.flow import Flow
from ..core import match as M


def check_inc_iv(prog, chk, rule="R.nonce-function"):
    """Packetizer._inc_iv_counter(iv) == iv[0:4] || be64(int(iv[4:]) + 1)
    (RFC 5647 section 7.1: fixed 4 bytes, 8-byte invocation counter + 1)."""
    f = prog.func("Packetizer._inc_iv_counter")
    ps = f.params()
    if len(ps) != 2:
        raise AnalysisError("Packetizer._inc_iv_counter", "expected (self, iv)")
    iv = ps[1]
    fl = Flow(prog, f)
    rets = fl.nodes(lambda n: n.kind == "return")
    ok = len(rets) == 1 and rets[0].ast.value is not None
    detail = ""
    if ok:
        alts = fl.expand(rets[0].ast.value, rets[0], depth=6)
        for alt in alts:
            detail = unparse(alt)
            parts = M.flatten_add(alt)
            good = len(parts) == 2
            if good:
                s0 = M.slice_of(parts[0])
                good = bool(s0 and unparse(s0[0]) == iv and s0[1] is None and s0[2] == "4")
            if good:
                c = parts[1]
                good = M.is_call(c, attr="to_bytes") and len(c.args) >= 2 and \
                    isinstance(c.args[0], ast.Constant) and c.args[0].value == 8 and \
                    isinstance(c.args[1], ast.Constant) and c.args[1].value == "big"
                if good:
                    inner = c.func.value
                    good = isinstance(inner, ast.BinOp) and isinstance(inner.op, ast.Add)
                    if good:
                        ops = [inner.left, inner.right]
                        one = [o for o in ops if isinstance(o, ast.Constant) and o.value == 1]
                        fb = [o for o in ops if M.is_call(o, name="int.from_bytes")]
                        good = len(one) == 1 and len(fb) == 1
                        if good:
                            a0 = fb[0].args[0] if fb[0].args else None
                            s1 = M.slice_of(a0) if a0 is not None else None
                            byteorder = M.arg(fb[0], 1, "byteorder")
                            good = bool(s1 and unparse(s1[0]) == iv and s1[1] == "4" and s1[2] is None) and \
                                isinstance(byteorder, ast.Constant) and byteorder.value == "big"
            if not good:
                ok = False
                break
    chk.ob(rule, "Packetizer._inc_iv_counter", ok, f.loc,
           "returns %s" % detail[:200])
    return ok
