"""C21 - channel byte streams arrive intact, in order, on the right stream (partial: routing)."""
import ast
from ..core.model import AnalysisError, unparse, dotted, walk_no_defs
from ..core.consts import Folder
from ..core.flow import Flow, node_calls, attr_writes
from ..core.layout import Extractor, split_messages
from ..core.locks import LockFlow
from ..core import match as M

TABLE = {"MSG_CHANNEL_SUCCESS": "Channel._request_success", "MSG_CHANNEL_FAILURE": "Channel._request_failed",
         "MSG_CHANNEL_DATA": "Channel._feed", "MSG_CHANNEL_EXTENDED_DATA": "Channel._feed_extended",
         "MSG_CHANNEL_WINDOW_ADJUST": "Channel._window_adjust", "MSG_CHANNEL_REQUEST": "Channel._handle_request",
         "MSG_CHANNEL_EOF": "Channel._handle_eof", "MSG_CHANNEL_CLOSE": "Channel._handle_close"}


def channel_messages(prog):
    """[(FuncInfo, fields)] for every message built in class Channel whose first
    field is a cMSG_CHANNEL_* byte."""
    out = []
    ex = Extractor()
    for f in prog.classes["Channel"].methods.values():
        seen = set()
        for (ev, kind) in ex.function(f.node):
            for m in split_messages(ev):
                fl = tuple(m["fields"])
                if fl and fl[0][0] == "byte" and fl[0][1].startswith("cMSG_CHANNEL_") and fl not in seen:
                    seen.add(fl)
                    out.append((f, fl))
    return out


def run(prog, chk):
    fold = Folder(prog)
    chk.explanation = (
        "Partial: content equality and cross-thread ordering are runtime values / schedules and are not "
        "decided. Decided - routing, which is a table: (R1) the channel dispatch table maps each of the eight "
        "channel message types 93-100 to its handler (DATA -> _feed, EXTENDED_DATA -> _feed_extended) and the "
        "run loop picks the channel by the message's first uint32; (R2) every channel message built in "
        "channel.py starts [byte type, uint32 self.remote_chanid]; (R3) stream agreement: send emits 94, "
        "send_stderr 95 with code 1; _feed_extended buffers exactly code 1, into the stderr buffer unless "
        "combine_stderr (then stdout); recv reads the stdout buffer and recv_stderr the stderr buffer; (R4) "
        "exit-status: writer [.., 'exit-status', False, uint32 status], reader stores get_int() and sets the "
        "event recv_exit_status waits on; (R5) set_combine_stderr switches the flag before draining the "
        "backlog, in one critical section, and re-feeds it.")
    chk.assumptions = ["BufferedPipe is a FIFO (C26)"]
    # R1 ---------------------------------------------------------------------------------
    T = prog.cls("Transport")
    tab = T.class_assigns.get("_channel_handler_table")
    got = dict((unparse(k), unparse(v)) for k, v in zip(tab.keys, tab.values)) if isinstance(tab, ast.Dict) else None
    if got is None:
        raise AnalysisError("Transport._channel_handler_table", "dict literal not found")
    cenv = fold.module_env("common")
    nums = sorted(cenv.get(k) for k in got)
    chk.ob("R1.handler-table", "_channel_handler_table", got == TABLE and nums == list(range(93, 101)), T.module.path,
           "types %s -> %s" % (nums, sorted(got.values())))
    run_f = prog.func("Transport.run")
    fl = Flow(prog, run_f)
    disp = [(n, c) for (n, c) in fl.nodes_with_call() if isinstance(c.func, ast.Subscript) and unparse(c.func.value) == "self._channel_handler_table"]
    ok = len(disp) == 1
    if ok:
        n, c = disp[0]
        ok = unparse(c.func.slice) == "ptype" and [unparse(a) for a in c.args] == ["chan", "m"]
        cd = fl.defs("chan", n)
        ok = ok and len(cd) == 1 and unparse(cd[0][1]) == "self._channels.get(chanid)"
        idd = fl.defs("chanid", cd[0][0]) if ok else []
        ok = ok and len(idd) == 1 and unparse(idd[0][1]) == "m.get_int()"
    chk.ob("R1.channel-selected-by-first-field", "run", ok, run_f.loc, "handler(chan, m) with chan = _channels.get(m.get_int())")

    # R2 ---------------------------------------------------------------------------------
    msgs = channel_messages(prog)
    chk.floor("R2", "channel messages built in channel.py", len(msgs), 16)
    for (f, fields) in msgs:
        ok = len(fields) >= 2 and fields[1] == ("uint32", "self.remote_chanid")
        chk.ob("R2.addressed-to-remote-id", "%s:%s" % (f.qual, fields[0][1]), ok, f.loc,
               "second field %s" % (fields[1],) if len(fields) > 1 else "no channel id")

    # R3 ---------------------------------------------------------------------------------
    by = {}
    for (f, fields) in msgs:
        by.setdefault(f.name, []).append(fields)
    ok = by.get("send") == [(("byte", "cMSG_CHANNEL_DATA"), ("uint32", "self.remote_chanid"))] and cenv.get("cMSG_CHANNEL_DATA") == b"\x5e"
    chk.ob("R3.stdout-type", "send", ok, prog.func("Channel.send").loc, "send builds %s" % by.get("send"))
    ok = by.get("send_stderr") == [(("byte", "cMSG_CHANNEL_EXTENDED_DATA"), ("uint32", "self.remote_chanid"), ("uint32", "1"))] and \
        cenv.get("cMSG_CHANNEL_EXTENDED_DATA") == b"\x5f"
    chk.ob("R3.stderr-type-and-code", "send_stderr", ok, prog.func("Channel.send_stderr").loc, "send_stderr builds %s" % by.get("send_stderr"))
    fe = prog.func("Channel._feed_extended")
    for lab, env, want in (("separate", {"self.combine_stderr": False, "code != 1": False, "code == 1": True}, "self.in_stderr_buffer.feed"),
                           ("combined", {"self.combine_stderr": True, "code != 1": False, "code == 1": True}, "self._feed")):
        ff = Flow(prog, fe, env=env, implicit=False)
        feeds = [(n, c) for (n, c) in ff.nodes_with_call() if dotted(c.func) in ("self.in_stderr_buffer.feed", "self._feed", "self.in_buffer.feed")]
        ok = len(feeds) == 1 and dotted(feeds[0][1].func) == want and ff.exit_dominated(guard_nodes=[feeds[0][0]])
        if ok:
            sd = ff.defs(unparse(feeds[0][1].args[0]), feeds[0][0])
            ok = len(sd) == 1 and unparse(sd[0][1]) in ("m.get_binary()", "m.get_string()")
            cd = ff.defs("code", feeds[0][0])
            ok = ok and len(cd) == 1 and unparse(cd[0][1]) == "m.get_int()"
        chk.ob("R3.code-1-routing", lab, ok, fe.loc, "code-1 data -> %s" % want)
    ff = Flow(prog, fe, env={"code != 1": True, "code == 1": False}, implicit=False)
    feeds = [n for (n, c) in ff.nodes_with_call() if dotted(c.func) in ("self.in_stderr_buffer.feed", "self._feed", "self.in_buffer.feed")]
    chk.ob("R3.other-codes-not-buffered", "_feed_extended", not feeds, fe.loc, "data of other codes reaches no stream")
    fd = prog.func("Channel._feed")
    ffd = Flow(prog, fd, implicit=False)
    feeds = [(n, c) for (n, c) in ffd.nodes_with_call(name="self.in_buffer.feed")]
    ok = len(feeds) == 1 and ffd.exit_dominated(guard_nodes=[feeds[0][0]])
    if ok:
        srcs = sorted(unparse(r) for (d, r) in ffd.defs(unparse(feeds[0][1].args[0]), feeds[0][0]) if r is not None)
        ok = srcs in (["m", "m.get_binary()"], ["m.get_binary()"])
    chk.ob("R3.stdout-routing", "_feed", ok, fd.loc, "DATA payload -> in_buffer on every path")
    for nm, buf in (("recv", "self.in_buffer"), ("recv_stderr", "self.in_stderr_buffer")):
        f = prog.func("Channel." + nm)
        ff = Flow(prog, f)
        rd = [(n, c) for (n, c) in ff.nodes_with_call(attr="read")]
        rets = ff.nodes(lambda n: n.kind == "return")
        ok = len(rd) == 1 and unparse(rd[0][1].func.value) == buf and len(rets) == 1
        if ok:
            ds = ff.defs(unparse(rets[0].ast.value), rets[0])
            ok = [d[0].id for d in ds] == [rd[0][0].id] and unparse(rd[0][1].args[0]) == f.params()[1]
        chk.ob("R3.reader-buffer", nm, ok, f.loc, "%s returns %s.read(nbytes, timeout)" % (nm, buf))

    # R4 -----------------------------------------------------------------------------------
    want = (("byte", "cMSG_CHANNEL_REQUEST"), ("uint32", "self.remote_chanid"), ("string", "'exit-status'"), ("boolean", "False"))
    es = by.get("send_exit_status") or []
    ok = len(es) == 1 and es[0][:4] == want and len(es[0]) == 5 and es[0][4] == ("uint32", prog.func("Channel.send_exit_status").params()[1])
    chk.ob("R4.exit-status-writer", "send_exit_status", ok, prog.func("Channel.send_exit_status").loc, "builds %s" % es)
    hr = prog.func("Channel._handle_request")
    fh = Flow(prog, hr, env={"key == 'exit-status'": True})
    w = fh.nodes(lambda n: n.kind == "stmt" and isinstance(n.ast, ast.Assign) and unparse(n.ast.targets[0]) == "self.exit_status")
    ev = [n for (n, c) in fh.nodes_with_call(name="self.status_event.set")]
    ok = len(w) == 1 and unparse(w[0].ast.value) == "m.get_int()" and len(ev) == 1 and fh.dominated(ev, guard_nodes=w)
    # reads before it: key (text), want_reply (boolean)
    if ok:
        ex = Extractor(cond_filter=lambda t: "exit" if unparse(t) == "key == 'exit-status'" else None)
        seqs = set()
        for (e, kind) in ex.function(hr.node):
            if ("cond", "exit", True) in [tuple(x[:3]) for x in e if x[0] == "cond"]:
                seqs.add(tuple(x[2] for x in e if x[0] == "get" and x[1] == "m"))
        ok = seqs == set([("string", "boolean", "uint32")])
    chk.ob("R4.exit-status-reader", "_handle_request", ok, hr.loc, "exit_status = m.get_int() after (name, want_reply); status_event set")
    allw = []
    for f in prog.all_functions():
        for (st, t, v) in attr_writes(f.node):
            if t.attr == "exit_status":
                allw.append((f.qual, unparse(v)))
    chk.ob("R4.exit-status-writers", "exit_status", sorted(allw) == [("Channel.__init__", "-1"), ("Channel._handle_request", "m.get_int()")],
           hr.loc, "writers: %s" % sorted(allw))
    rs = prog.func("Channel.recv_exit_status")
    rets = [unparse(r.value) for r in walk_no_defs(rs.node) if isinstance(r, ast.Return)]
    waits = [c for c in walk_no_defs(rs.node) if M.is_call(c, name="self.status_event.wait")]
    chk.ob("R4.exit-status-getter", "recv_exit_status", rets == ["self.exit_status"] and len(waits) == 1, rs.loc, "waits for status_event, returns exit_status")

    # R5 ------------------------------------------------------------------------------------
    sc = prog.func("Channel.set_combine_stderr")
    lf = LockFlow(prog, sc)
    flag = lf.fl.nodes(lambda n: n.kind == "stmt" and isinstance(n.ast, ast.Assign) and unparse(n.ast.targets[0]) == "self.combine_stderr")
    em = [n for (n, c) in lf.fl.nodes_with_call(name="self.in_stderr_buffer.empty")]
    ok = len(flag) == 1 and len(em) == 1 and unparse(flag[0].ast.value) == sc.params()[1]
    ok = ok and lf.fl.dominated(em, guard_nodes=flag) and lf.holds(flag[0], "self.lock") and lf.holds(em[0], "self.lock")
    chk.ob("R5.flag-before-drain", "set_combine_stderr", ok, sc.loc,
           "combine_stderr is switched before the stderr backlog is drained, both under Channel.lock (no packet falls between)")
    fs = lf.fl
    fd_ = [(n, c) for (n, c) in fs.nodes_with_call(name="self._feed")] + [(n, c) for (n, c) in fs.nodes_with_call(name="self.in_buffer.feed")]
    ok = len(em) == 1 and len(fd_) == 1 and isinstance(em[0].ast, ast.Assign)
    if ok:
        dv = unparse(em[0].ast.targets[0])
        ok = unparse(fd_[0][1].args[0]) == dv
    chk.ob("R5.backlog-refed", "set_combine_stderr", ok, sc.loc, "the drained stderr backlog is fed to the stdout buffer")
