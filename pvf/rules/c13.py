"""C13 - blocking calls return once the connection ends.

Liveness over schedules is not decidable statically; the decidable part is a
*wait-site obligation*: a blocked caller can only be stuck at one of finitely
many blocking primitives, and each must be discharged as

  poll    bounded wait (constant timeout) in a loop that cannot come back to
          the wait without passing a liveness test whose dead arm leaves;
  event   unbounded Event.wait on an event that the teardown closure sets and
          nothing clears after the caller's liveness check;
  cv      Condition.wait inside a loop that re-tests a predicate teardown
          falsifies, with teardown using notify_all;
  stream  a read loop that leaves when the underlying read returns empty (EOF).
"""
import ast
from ..core.model import AnalysisError, unparse, dotted, walk_no_defs
from ..core.flow import Flow, node_calls, attr_writes
from ..core import match as M

MODULES = ("transport", "channel", "packet", "auth_handler", "buffered_pipe", "proxy")
# liveness tests: text -> the arm on which the object is dead
LIVENESS = {"self.active": "F", "self.transport.is_active()": "F", "self.closed": "T", "self.__closed": "T",
            "self._closed": "T", "self.is_alive()": "F", "self.sock._closed": "T", "self.packetizer.closed": "T",
            "self.transport.active": "F", "self.eof_sent": "T"}
# events that Channel._set_closed / teardown leave set (checked below)
TEARDOWN_EVENTS = {"self.status_event": "Channel._set_closed", "self.event": "Channel._set_closed"}
TEARDOWN_CVS = {"self.out_buffer_cv": "Channel._set_closed", "self._cv": "BufferedPipe.close",
                "self.server_accept_cv": "Transport.run"}


def const_timeout(call):
    if call.args and isinstance(call.args[0], ast.Constant) and isinstance(call.args[0].value, (int, float)) \
            and not isinstance(call.args[0].value, bool):
        return call.args[0].value
    return None


def wait_sites(prog):
    """[(FuncInfo, call, kind, receiver text)] for every blocking primitive."""
    out = []
    for f in prog.all_functions():
        if f.module.name not in MODULES:
            continue
        for c in walk_no_defs(f.node):
            if not isinstance(c, ast.Call):
                continue
            nm = dotted(c.func) or ""
            if isinstance(c.func, ast.Attribute) and c.func.attr == "wait":
                recv = unparse(c.func.value)
                if recv == "self.process":
                    continue
                out.append((f, c, "cv" if recv.endswith("_cv") else "event", recv))
            elif nm == "time.sleep":
                out.append((f, c, "sleep", "time.sleep"))
            elif nm == "self.join":
                out.append((f, c, "join", "self.join"))
            elif isinstance(c.func, ast.Attribute) and c.func.attr == "recv" and unparse(c.func.value) == "self.__socket":
                out.append((f, c, "stream", "socket.recv"))
            elif nm == "os.read":
                out.append((f, c, "stream", "os.read"))
    return out


def back_to(fl, node):
    """successors of node from which node is reachable again (i.e. in a loop)."""
    succ = [d for (d, l) in fl.cfg.succ[node.id] if l != "exc"]
    return succ, node.id in fl.cfg.reach(succ)


def poll_discharged(fl, node):
    """every way back to the wait passes a liveness test, and the dead arm of
    each such test cannot come back to the wait."""
    succ, loops = back_to(fl, node)
    if not loops:
        return False, "not inside a loop"
    tests = [n for n in fl.nodes(lambda n: n.kind == "cond" and unparse(n.ast) in LIVENESS)]
    if not tests:
        return False, "no liveness test in the loop"
    on_cycle = [t for t in tests if t.id in fl.cfg.reach(succ) and node.id in fl.cfg.reach([t.id])]
    if not fl.cfg.dominated([node.id], guard_nodes=[t.id for t in on_cycle], start=succ):
        return False, "can return to the wait without testing liveness"
    for t in on_cycle:
        dead = LIVENESS[unparse(t.ast)]
        ds = [d for (d, l) in fl.cfg.succ[t.id] if l == dead]
        if node.id in fl.cfg.reach(ds):
            # acceptable only if another liveness test still stands between
            others = [o.id for o in on_cycle if o is not t]
            if not fl.cfg.dominated([node.id], guard_nodes=others, start=ds):
                return False, "the dead arm of `%s` goes back to waiting" % unparse(t.ast)
    return True, "bounded poll; liveness tested by %s" % sorted(set(unparse(t.ast) for t in on_cycle))


def run(prog, chk):
    chk.explanation = (
        "Decided part of a liveness property: every blocking primitive reachable in transport / channel / "
        "packet / auth_handler / buffered_pipe / proxy is enumerated (floor 17) and must be discharged as a "
        "bounded poll with an exiting liveness test, an unbounded wait on an event the teardown closure sets and "
        "nothing clears behind the caller's back, a condition wait inside a predicate loop that teardown "
        "falsifies and wakes with notify_all, or a stream read loop that leaves on an empty read. The teardown "
        "side is checked too: run()'s shutdown block unlinks every channel and, when it is the one to "
        "deactivate, closes the packetizer, sets completion/auth/channel-open events and wakes accept(); "
        "Channel._set_closed closes both buffers, sets both events and notifies all senders. Not decided: "
        "'promptly' as a time bound, fairness.")
    chk.assumptions = ["the socket given to Transport has the 0.1 s timeout Transport.__init__ sets",
                       "threading primitives behave as documented"]
    sites = wait_sites(prog)
    chk.floor("R1", "blocking primitives", len(sites), 17)
    flows = {}
    counts = {}
    for (f, c, kind, recv) in sorted(sites, key=lambda s: (s[0].qual, s[1].lineno)):
        fl = flows.get(f.qual) or Flow(prog, f, implicit=False)
        flows[f.qual] = fl
        nodes = fl.cfg.node_containing(c)
        i = counts.get((f.qual, recv), 0)
        counts[(f.qual, recv)] = i + 1
        key = "%s:%s%s" % (f.qual, recv, "#%d" % i if i else "")
        where = "%s:%d" % (f.module.path, c.lineno)
        if not nodes:
            chk.ob("R1.wait-site", key, False, where, "wait site not located in the CFG")
            continue
        node = nodes[0]
        ok, why = False, ""
        if kind in ("event", "sleep", "join") and (kind == "sleep" or const_timeout(c) is not None):
            ok, why = poll_discharged(fl, node)
        elif kind == "event":
            # unbounded (or caller-timed) wait on an event
            if recv in TEARDOWN_EVENTS and f.cls is not None and f.cls.name == "Channel":
                setter = prog.func(TEARDOWN_EVENTS[recv])
                sets = [x for x in walk_no_defs(setter.node) if M.is_call(x, name=recv + ".set")]
                clears = []
                for g in prog.classes["Channel"].methods.values():
                    for x in walk_no_defs(g.node):
                        if M.is_call(x, name=recv + ".clear"):
                            clears.append(g.qual)
                ok = bool(sets) and not clears
                why = "set by %s; cleared in %s" % (setter.qual, clears) if clears else "set by %s and never cleared" % setter.qual
                if clears:
                    # a clear is tolerable only if the wait itself polls liveness
                    ok2, why2 = poll_discharged(fl, node)
                    ok = ok2
                    why = why2 if ok2 else ("unbounded wait on %s, which %s clears after the caller's open-state test: a teardown "
                                            "between that test and the clear is lost (%s)" % (recv, clears[0], why2))
            else:
                # a liveness test after the wait does not help if the wait itself can last for ever
                ok = False
                why = ("wait on %s with an unbounded / computed timeout: only a teardown signal could end it, and none is "
                       "established for this event on every teardown path (local close() skips abort()/completion signals)" % recv)
        elif kind == "cv":
            okp, whyp = poll_discharged(fl, node)
            src = TEARDOWN_CVS.get(recv)
            notif = False
            if src:
                sf = prog.func(src)
                notif = any(M.is_call(x, name=recv + ".notify_all") for x in walk_no_defs(sf.node))
            ok = okp and notif
            why = "%s; teardown notify_all in %s: %s" % (whyp, src, notif)
        elif kind == "stream":
            succ, loops = back_to(fl, node)
            a = node.ast
            var = None
            if isinstance(a, ast.Assign) and isinstance(a.targets[0], ast.Name):
                var = a.targets[0].id
            elif isinstance(a, ast.AugAssign):
                var = None
            if var is None:
                ok, why = False, "the result of the read is consumed without being tested for emptiness (EOF spins)"
            else:
                def eof_edge(s, lab, d, var=var):
                    n = fl.cfg.nodes[s]
                    if n.kind != "cond":
                        return False
                    t = unparse(n.ast)
                    return (t in ("len(%s) == 0" % var, "not %s" % var, "%s == b''" % var) and lab == "F") or \
                           (t in (var, "len(%s) > 0" % var, "len(%s) != 0" % var) and lab == "T")
                ok = (not loops) or fl.cfg.dominated([node.id], guard_edge=eof_edge, start=succ)
                why = "an empty read leaves the loop" if ok else "an empty read goes round the loop again"
                # and a timed-out read (exception path) tests liveness before reading again
                if ok and recv == "socket.recv":
                    fx = Flow(prog, f, implicit=True)
                    nx = fx.cfg.node_containing(c)[0]
                    exc = [d for (d, l) in fx.cfg.succ[nx.id] if l == "exc"]
                    tests = [t for t in fx.nodes(lambda n: n.kind == "cond" and unparse(n.ast) in LIVENESS)]
                    flags = sorted(set(t_.id for s_ in walk_no_defs(f.node) if isinstance(s_, ast.Assign) and
                                       isinstance(s_.value, ast.Constant) and isinstance(s_.value.value, bool)
                                       for t_ in s_.targets if isinstance(t_, ast.Name)))
                    okp = bool(exc) and bool(tests) and fx.dominated_ps([nx.id], flags, guard_nodes=[t.id for t in tests], start=exc)
                    for t in tests:
                        ds = [d for (d, l) in fx.cfg.succ[t.id] if l == LIVENESS[unparse(t.ast)]]
                        okp = okp and nx.id not in fx.cfg.reach(ds)
                    ok = okp
                    why += "; after a timeout liveness (%s) is tested before the next read: %s" % (
                        sorted(set(unparse(t.ast) for t in tests)), okp)
        chk.ob("R1.wait-site", key, ok, where, why)

    # R2 teardown side ----------------------------------------------------------------------
    run_f = prog.func("Transport.run")
    fl = Flow(prog, run_f, implicit=False)
    heads = [n for n in fl.cfg.nodes if n.kind == "loop_head" and unparse(n.ast.test) == "self.active"]
    unl = [n for (n, c) in fl.nodes_with_call(name="chan._unlink")]
    ok = bool(unl) and fl.exit_dominated(guard_nodes=[n for n in fl.nodes(lambda n: n.kind == "for_iter" and "self._channels.values()" in unparse(n.ast.iter))])
    chk.ob("R2.teardown-unlinks-channels", "run", ok, run_f.loc, "every exit of the transport thread unlinks all channels")
    fa = Flow(prog, run_f, env={"self.active": True, "self.completion_event is not None": True, "self.auth_handler is not None": True}, implicit=False)
    for what, pred in (("active=False", lambda n: n.kind == "stmt" and isinstance(n.ast, ast.Assign) and unparse(n.ast) == "self.active = False"),
                       ("packetizer.close", lambda n: any(M.is_call(c, name="self.packetizer.close") for c in node_calls(n))),
                       ("completion_event.set", lambda n: any(M.is_call(c, name="self.completion_event.set") for c in node_calls(n))),
                       ("auth_handler.abort", lambda n: any(M.is_call(c, name="self.auth_handler.abort") for c in node_calls(n))),
                       ("channel_events.set", lambda n: n.kind == "for_iter" and "self.channel_events.values()" in unparse(n.ast.iter)
                        and any(M.is_call(c, attr="set") for c in walk_no_defs(n.ast) if isinstance(c, ast.Call))),
                       ("server_accept_cv.notify_all", lambda n: any(M.is_call(c, name="self.server_accept_cv.notify_all") for c in node_calls(n)))):
        ns = fa.nodes(pred)
        # every exit after the main loop (i.e. reaching the function exit) passes the signal when this thread deactivates
        after = [n for n in ns if not any(n.id in fa.cfg.reach([h.id]) and h.id in fa.cfg.reach([n.id]) for h in heads)]
        ok = bool(after) and fa.exit_dominated(guard_nodes=after)
        chk.ob("R2.teardown-signals", what, ok, run_f.loc, "done on every exit of run() when it deactivates the transport")
    sc = prog.func("Channel._set_closed")
    body = [unparse(s) for s in sc.node.body]
    for need in ("self.closed = True", "self.in_buffer.close()", "self.in_stderr_buffer.close()", "self.out_buffer_cv.notify_all()",
                 "self.event.set()", "self.status_event.set()"):
        chk.ob("R2.set-closed-signals", need, need in body, sc.loc, "Channel._set_closed does %s" % need)
    ul = prog.func("Channel._unlink")
    ok = any(M.is_call(c, name="self._set_closed") for c in walk_no_defs(ul.node))
    chk.ob("R2.unlink-closes", "_unlink", ok, ul.loc, "_unlink -> _set_closed")
    st = prog.func("Transport.stop_thread")
    w = [(t.attr, unparse(v)) for (s, t, v) in attr_writes(st.node)]
    ok = ("active", "False") in w and any(M.is_call(c, name="self.packetizer.close") for c in walk_no_defs(st.node))
    chk.ob("R2.local-close-deactivates", "stop_thread", ok, st.loc, "active = False and packetizer.close() (wakes the reader)")
    tc = prog.func("Transport.close")
    ok = any(M.is_call(c, name="self.stop_thread") for c in walk_no_defs(tc.node)) and any(M.is_call(c, name="chan._unlink") for c in walk_no_defs(tc.node))
    chk.ob("R2.local-close-deactivates", "close", ok, tc.loc, "close() stops the thread and unlinks every channel")
    pc = prog.func("Packetizer.close")
    w = [(t.attr, unparse(v)) for (s, t, v) in attr_writes(pc.node)]
    chk.ob("R2.local-close-deactivates", "Packetizer.close", ("__closed", "True") in w, pc.loc, "sets __closed (the reader's liveness flag)")
    ia = prog.func("Transport.is_active")
    rets = [unparse(r.value) for r in walk_no_defs(ia.node) if isinstance(r, ast.Return)]
    chk.ob("R2.is-active", "Transport.is_active", rets == ["self.active"], ia.loc, "returns %s" % rets)
    _handlers_before_teardown_total(prog, chk, run_f)
    _no_lock_left_held(prog, chk)
    _deadlines_are_loop_invariant(prog, chk)


def _handlers_before_teardown_total(prog, chk, run_f):
    """R3: the handlers of run() that record the exception execute *before* the teardown block; if one of them raises,
    the exception leaves run() through the interpreter-shutdown guard and the teardown is skipped altogether (active
    stays True, no event is set, every blocked caller stays blocked).  So their bodies must be total: a subscript
    <exc>.args[k] needs an established len(<exc>.args) > k - `if e.args:` only establishes one element - and a
    numeric format of an argument needs its type established."""
    from ..core.bounds import facts
    tries = [t for t in walk_no_defs(run_f.node) if isinstance(t, ast.Try) and any(
        any(isinstance(x, ast.Assign) and unparse(x.targets[0]) == "self.saved_exception" for x in walk_no_defs(h)) for h in t.handlers)]
    if len(tries) != 1:
        raise AnalysisError("Transport.run", "the try statement whose handlers record the exception was not found")
    fl = Flow(prog, run_f, implicit=False)
    nh = 0
    for h in tries[0].handlers:
        if not h.name:
            continue
        nh += 1
        hname = unparse(h.type) if h.type is not None else "bare"
        subs = [x for x in walk_no_defs(h) if isinstance(x, ast.Subscript) and isinstance(x.ctx, ast.Load) and unparse(x.value) == "%s.args" % h.name
                and isinstance(x.slice, ast.Constant) and isinstance(x.slice.value, int)]
        bad = []
        for x in subs:
            k = x.slice.value
            need = k + 1 if k >= 0 else -k
            nodes = [n for n in fl.cfg.node_containing(x) if n.id in fl.live]
            if not nodes:
                continue
            have = 0
            for c in fl.nodes(lambda q: q.kind == "cond"):
                t = c.ast
                est = None
                arm = None
                if unparse(t) == "%s.args" % h.name:
                    est, arm = 1, "T"
                else:
                    for a in ("T", "F"):
                        for fct in (facts(t, "len(%s.args)" % h.name)[a] if isinstance(t, ast.Compare) else []):
                            lo = fct.get("lo")
                            if lo is not None and lo[0] is None:
                                est, arm = lo[1], a
                if est is None:
                    continue
                if fl.dominated([nodes[0]], guard_edge=fl.edge_guard(lambda q, t=t: q is t, arm)):
                    have = max(have, est)
            if have < need:
                bad.append("%s needs len(%s.args) >= %d, only >= %d is established" % (unparse(x), h.name, need, have))
        chk.ob("R3.recording-handler-is-total", "run:except %s" % hname, not bad, "%s:%d" % (run_f.module.path, h.lineno),
               "handler body %s" % ("has no unguarded subscript of the exception's arguments" if not bad else
                                    "can raise before the teardown block runs: " + "; ".join(bad)))
    chk.floor("R3", "recording handlers of run()", nh, 4)


def _no_lock_left_held(prog, chk):
    """R4: a lock that is still held when a function returns or raises blocks the next caller for ever - the second
    blocking call after a connection loss never returns.  For every function of the package that acquires a lock
    with an explicit acquire() the held-lock dataflow must be empty at every explicit exit (return, fall-through,
    raise statement)."""
    from ..core.locks import LockFlow
    n = 0
    for f in sorted(prog.all_functions(), key=lambda f: f.qual):
        if not any(isinstance(c, ast.Call) and isinstance(c.func, ast.Attribute) and c.func.attr == "acquire" and not c.args
                   for c in walk_no_defs(f.node)):
            continue
        n += 1
        lf = LockFlow(prog, f, implicit=False)
        leaks = sorted(lf.held_at_exit())
        detail = "every explicit exit releases what it acquired"
        if leaks:
            # name the exit
            where = []
            for ex in (lf.cfg.exit.id, lf.cfg.raise_exit.id):
                for (pn, lab) in lf.cfg.pred[ex]:
                    for s in lf.outs.get(pn, ()):
                        if s:
                            where.append("L%d" % lf.cfg.nodes[pn].lineno)
            detail = "%s still held at the exit(s) reached from %s" % (leaks, sorted(set(where)))
        chk.ob("R4.no-exit-leaves-a-lock-held", f.qual, not leaks, f.loc, detail)
    chk.floor("R4", "functions with explicit acquire()", n, 40)


def _deadlines_are_loop_invariant(prog, chk):
    """R5: a polling loop that gives up after a timeout compares time.time() with <start> + <limit>; the reference point
    must be taken once, before the loop.  Re-taking it inside the loop makes the deadline recede for ever and the
    raising arm unreachable: the call blocks as long as the transport stays formally active."""
    from ..core.cfg import assigned_names
    n = 0
    for f in sorted(prog.all_functions(), key=lambda f: f.qual):
        if f.module.name not in ("transport", "channel", "packet", "client", "auth_handler", "buffered_pipe", "sftp_client", "sftp_file", "agent", "proxy"):
            continue
        for lp in [x for x in walk_no_defs(f.node) if isinstance(x, ast.While)]:
            for cmp_ in [x for x in walk_no_defs(lp) if isinstance(x, ast.Compare) and len(x.ops) == 1]:
                sides = [cmp_.left, cmp_.comparators[0]]
                tt = [s for s in sides if any(M.is_call(c, name="time.time") for c in ast.walk(s))]
                if len(tt) != 1:
                    continue
                other = sides[1] if sides[0] is tt[0] else sides[0]
                refs = [x.id for x in ast.walk(other) if isinstance(x, ast.Name)] + [x.id for x in ast.walk(tt[0]) if isinstance(x, ast.Name)]
                refs = [r for r in refs if r not in ("time",)]
                if not refs:
                    continue
                inside = set()
                for s in walk_no_defs(lp):
                    if isinstance(s, ast.Assign):
                        for t in s.targets:
                            for x in ast.walk(t):
                                if isinstance(x, ast.Name):
                                    inside.add((x.id, unparse(s.value)))
                moved = [(r, v) for (r, v) in inside if r in refs and "time.time()" in v]
                n += 1
                chk.ob("R5.deadline-reference-taken-before-the-loop", "%s:%s" % (f.qual, unparse(cmp_)[:50]), not moved, "%s:%d" % (f.module.path, cmp_.lineno),
                       "`%s`: reference %s %s" % (unparse(cmp_)[:70], refs, "is taken outside the loop" if not moved else
                                                  "is re-taken inside the loop (%s = %s): the deadline never arrives" % moved[0]))
    chk.floor("R5", "timeout comparisons in polling loops", n, 4)
