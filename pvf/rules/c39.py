"""C39 - SSH wire encoding round-trips; integers are canonical (partial)."""
import ast
import struct
from ..core.model import AnalysisError, unparse, dotted, walk_no_defs
from ..core.flow import Flow, clone
from ..core.consts import Folder
from ..core.bounds import facts
from ..core import match as M


def _writes(fl):
    """[(node, call)] self.packet.write(...) calls."""
    return fl.nodes_with_call(name="self.packet.write")


def _ret_texts(fl, depth=3):
    rets = fl.nodes(lambda n: n.kind == "return" and n.ast.value is not None)
    out = []
    for r in rets:
        out += fl.expand_text(r.ast.value, r, depth=depth)
    return sorted(set(out))


def _dual(node):
    """sign-dual of an expression / statement of deflate_long's or inflate_long's positive arm:
    0 <-> -1 (as the residual n), zero_byte <-> max_byte, `>= 0x80` <-> `< 0x80`, `!= 0` <-> `!= 0xFF`."""
    n = clone(node)
    for x in ast.walk(n):
        if isinstance(x, ast.Name) and x.id in ("zero_byte", "max_byte"):
            x.id = "max_byte" if x.id == "zero_byte" else "zero_byte"
        elif isinstance(x, ast.Compare) and len(x.ops) == 1:
            l, op, r = x.left, x.ops[0], x.comparators[0]
            if isinstance(r, ast.Constant) and r.value == 0x80 and isinstance(op, (ast.GtE, ast.Lt)):
                x.ops = [ast.Lt() if isinstance(op, ast.GtE) else ast.GtE()]
            elif isinstance(l, ast.Name) and l.id == "n" and isinstance(op, ast.Eq):
                if isinstance(r, ast.Constant) and r.value == 0:
                    x.comparators = [ast.UnaryOp(op=ast.USub(), operand=ast.Constant(value=1))]
                elif isinstance(r, ast.UnaryOp) and isinstance(r.operand, ast.Constant) and r.operand.value == 1:
                    x.comparators = [ast.Constant(value=0)]
            elif isinstance(op, ast.NotEq) and isinstance(r, ast.Constant) and r.value in (0, 0xFF):
                x.comparators = [ast.Constant(value=0xFF if r.value == 0 else 0)]
    return unparse(n)


def run(prog, chk):
    chk.explanation = (
        "Partial: the numeric correctness of the deflate_long / inflate_long loops for every integer (and the "
        "RFC 4251 empty-string form of zero) is a value property and is not decided. Decided: (R1) writer/reader "
        "agreement for each field type of Message - same struct format on both sides and the reader consumes exactly "
        "calcsize(format) bytes (uint32, uint64), boolean one byte compared with the zero byte, string = uint32 "
        "length then the bytes with the length read first, text / list / mpint built on string with inverse "
        "conversions (','.join / split(','), deflate_long / inflate_long), adaptive int: the long form is chosen "
        "for every n whose plain encoding would start with 0xff (bound normaliser: n >= K with K <= 0xff000000) "
        "and announced by exactly that byte, which is what the reader tests; (R2) cursor conservation: "
        "get_remainder restores the position it saved around read(), get_so_far reads exactly `position` bytes "
        "after rewinding, rewind seeks to 0; (R3) _add dispatches bool before int (bool is an int) and add() "
        "encodes its items in order; every add_* returns self; (R4) sign duality: in deflate_long and inflate_long "
        "the negative arm is the exact sign-dual of the positive arm (0/-1, zero_byte/max_byte, >=0x80/<0x80, "
        "!=0/!=0xFF), the residual test of the loop stops at both fixpoints, and inflate_long subtracts 2^(8 len) "
        "exactly when the top bit is set and always_positive is false.")
    chk.assumptions = ["struct.pack/unpack, BytesIO.read/seek/tell behave as documented", "util.asbytes is the identity on bytes and UTF-8 on str"]
    fold = Folder(prog)
    cenv = fold.module_env("common")
    for nm, want in (("zero_byte", b"\x00"), ("one_byte", b"\x01"), ("max_byte", b"\xff"), ("xffffffff", 0xFFFFFFFF)):
        chk.ob("R1.constants", nm, cenv.get(nm) == want, prog.module("common").path, "%s folds to %r" % (nm, cenv.get(nm)))
    big = fold.class_env("Message").get("big_int")

    def F(name):
        return Flow(prog, prog.method("Message", name), implicit=False)

    # ---- fixed-width integers ---------------------------------------------------------------------
    for add, get in (("add_int", "get_int"), ("add_int64", "get_int64")):
        fa, fg = F(add), F(get)
        w = _writes(fa)
        okw = len(w) == 1 and M.is_call(w[0][1].args[0], name="struct.pack") and len(w[0][1].args[0].args) == 2 \
            and isinstance(w[0][1].args[0].args[0], ast.Constant) and unparse(w[0][1].args[0].args[1]) == fa.f.params()[1]
        fmt_w = w[0][1].args[0].args[0].value if okw else None
        rt = _ret_texts(fg)
        fmt_r = width = None
        okr = False
        if len(rt) == 1:
            e = ast.parse(rt[0], mode="eval").body
            if isinstance(e, ast.Subscript) and unparse(e.slice) == "0" and M.is_call(e.value, name="struct.unpack") and len(e.value.args) == 2 \
                    and isinstance(e.value.args[0], ast.Constant) and M.is_call(e.value.args[1], name="self.get_bytes") \
                    and isinstance(e.value.args[1].args[0], ast.Constant):
                fmt_r = e.value.args[0].value
                width = e.value.args[1].args[0].value
                okr = True
        same = okw and okr and fmt_w == fmt_r
        chk.ob("R1.pair-agreement", "%s/%s:format" % (add, get), same, fa.f.loc, "writer packs %r, reader unpacks %r" % (fmt_w, fmt_r))
        try:
            size = struct.calcsize(fmt_r) if fmt_r else None
        except struct.error:
            size = None
        chk.ob("R1.pair-agreement", "%s/%s:width" % (add, get), okr and size == width, fg.f.loc, "reader consumes %r bytes, calcsize(%r) = %r" % (width, fmt_r, size))
        want_fmt = ">I" if add == "add_int" else ">Q"
        chk.ob("R1.wire-format", add, fmt_w == want_fmt, fa.f.loc, "format %r (RFC 4251 s5: %s, big-endian, unsigned)" % (fmt_w, "uint32" if add == "add_int" else "uint64"))

    # ---- boolean ------------------------------------------------------------------------------------------
    fa, fg = F("add_boolean"), F("get_boolean")
    bp = fa.f.params()[1]
    w = _writes(fa)
    arms = {}
    for (n, c) in w:
        t_ok = fa.dominated([n], guard_edge=fa.edge_guard(lambda t: unparse(t) == bp, "T"))
        f_ok = fa.dominated([n], guard_edge=fa.edge_guard(lambda t: unparse(t) == bp, "F"))
        arms[unparse(c.args[0])] = "T" if t_ok and not f_ok else ("F" if f_ok and not t_ok else "?")
    chk.ob("R1.pair-agreement", "add_boolean", arms == {"one_byte": "T", "zero_byte": "F"}, fa.f.loc, "writes %s" % arms)
    rt = _ret_texts(fg)
    chk.ob("R1.pair-agreement", "get_boolean", rt in (["self.get_bytes(1) != zero_byte"], ["zero_byte != self.get_bytes(1)"]), fg.f.loc, "returns %s" % rt)

    # ---- raw byte(s) -----------------------------------------------------------------------------------------
    for add in ("add_byte", "add_bytes"):
        fa = F(add)
        w = _writes(fa)
        chk.ob("R1.pair-agreement", add, len(w) == 1 and unparse(w[0][1].args[0]) == fa.f.params()[1], fa.f.loc, "writes its argument unchanged")
    chk.ob("R1.pair-agreement", "get_byte", _ret_texts(F("get_byte")) == ["self.get_bytes(1)"], F("get_byte").f.loc, "returns %s" % _ret_texts(F("get_byte")))
    fgb = F("get_bytes")
    np_ = fgb.f.params()[1]
    reads = [c for (n, c) in fgb.nodes_with_call(name="self.packet.read")]
    rt = _ret_texts(fgb, depth=2)
    okgb = len(reads) == 1 and unparse(reads[0].args[0]) == np_ and "self.packet.read(%s)" % np_ in rt and \
        all(t == "self.packet.read(%s)" % np_ or t.startswith("self.packet.read(%s) + zero_byte * " % np_) for t in rt)
    chk.ob("R1.pair-agreement", "get_bytes", okgb, fgb.f.loc, "returns %s" % rt)

    # ---- string / text / list / mpint ---------------------------------------------------------------------------
    fa = F("add_string")
    sp = fa.f.params()[1]
    from ..core.layout import eval_order
    seq = []
    for st in fa.f.node.body:
        eval_order(st, lambda x: seq.append(unparse(x)) if isinstance(x, ast.Call) else None)
    conv = [s for s in seq if s.endswith("asbytes(%s)" % sp)]
    i_len = seq.index("self.add_int(len(%s))" % sp) if "self.add_int(len(%s))" % sp in seq else -1
    i_w = seq.index("self.packet.write(%s)" % sp) if "self.packet.write(%s)" % sp in seq else -1
    i_c = seq.index(conv[0]) if conv else -1
    chk.ob("R1.pair-agreement", "add_string", 0 <= i_c < i_len < i_w, fa.f.loc,
           "call order %s (want: convert to bytes, then uint32 length of the bytes, then the bytes)" % seq)
    for g in ("get_string", "get_binary"):
        rt = _ret_texts(F(g))
        chk.ob("R1.pair-agreement", g, rt == ["self.get_bytes(self.get_int())"], F(g).f.loc, "returns %s (the length is an argument, so it is read first)" % rt)
    chk.ob("R1.pair-agreement", "get_text", _ret_texts(F("get_text")) in (["u(self.get_string())"], ["u(self.get_binary())"]), F("get_text").f.loc,
           "returns %s" % _ret_texts(F("get_text")))
    fa = F("add_list")
    calls = [unparse(c) for (n, c) in fa.nodes_with_call(name="self.add_string")]
    chk.ob("R1.pair-agreement", "add_list", calls == ["self.add_string(','.join(%s))" % fa.f.params()[1]], fa.f.loc, "%s" % calls)
    chk.ob("R1.pair-agreement", "get_list", _ret_texts(F("get_list")) == ["self.get_text().split(',')"], F("get_list").f.loc, "returns %s" % _ret_texts(F("get_list")))
    fa = F("add_mpint")
    calls = [unparse(c) for (n, c) in fa.nodes_with_call(name="self.add_string")]
    chk.ob("R1.pair-agreement", "add_mpint", calls == ["self.add_string(util.deflate_long(%s))" % fa.f.params()[1]], fa.f.loc, "%s (sign padding on)" % calls)
    chk.ob("R1.pair-agreement", "get_mpint", _ret_texts(F("get_mpint")) in (["util.inflate_long(self.get_binary())"], ["util.inflate_long(self.get_string())"]),
           F("get_mpint").f.loc, "returns %s (signed)" % _ret_texts(F("get_mpint")))

    # ---- adaptive int -----------------------------------------------------------------------------------------------
    fa, fg = F("add_adaptive_int"), F("get_adaptive_int")
    n_p = fa.f.params()[1]
    chk.ob("R1.adaptive-threshold", "Message.big_int", big == 0xFF000000, fa.f.loc, "big_int folds to %r" % (big,))
    conds = fa.nodes(lambda n: n.kind == "cond")
    okad = len(conds) == 1
    detail = "%d tests" % len(conds)
    if okad:
        t = clone(conds[0].ast)
        for x in ast.walk(t):
            pass
        # replace the symbolic threshold by its folded value, then normalise
        src = unparse(conds[0].ast).replace("Message.big_int", str(big)).replace("self.big_int", str(big))
        te = ast.parse(src, mode="eval").body
        fx = facts(te, n_p)
        longw = [n for (n, c) in _writes(fa) if unparse(c.args[0]) == "max_byte"]
        plainw = [n for (n, c) in _writes(fa) if M.is_call(c.args[0], name="struct.pack")]
        okad = len(longw) == 1 and len(plainw) == 1 and bool(fx["T"]) and bool(fx["F"])
        if okad:
            t_long = fa.dominated(longw, guard_edge=fa.edge_guard(lambda q: q is conds[0].ast, "T"))
            arm_long, arm_plain = ("T", "F") if t_long else ("F", "T")
            fp_ = fx[arm_plain][0]
            hi = fp_.get("hi")
            okad = hi is not None and hi[0] is None and hi[1] <= 0xFEFFFFFF
            detail = "plain 4-byte form used when %s (needs n <= 0xfeffffff: a larger value's first byte is the 0xff marker)" % (
                "n <= %#x" % hi[1] if hi and hi[0] is None else unparse(conds[0].ast) + " is " + arm_plain)
            seq = []
            for st in fa.f.node.body:
                eval_order(st, lambda x: seq.append(unparse(x)) if isinstance(x, ast.Call) else None)
            okl = "self.packet.write(max_byte)" in seq and "self.add_string(util.deflate_long(%s))" % n_p in seq and \
                seq.index("self.packet.write(max_byte)") < seq.index("self.add_string(util.deflate_long(%s))" % n_p)
            chk.ob("R1.pair-agreement", "add_adaptive_int:long-form", okl, fa.f.loc, "marker byte then string(deflate_long(n))")
            pk = [c for (n, c) in _writes(fa) if M.is_call(c.args[0], name="struct.pack")][0].args[0]
            chk.ob("R1.pair-agreement", "add_adaptive_int:plain-form", [unparse(a) for a in pk.args] == ["'>I'", n_p], fa.f.loc, unparse(pk))
    chk.ob("R1.adaptive-threshold", "add_adaptive_int", okad, fa.f.loc, detail)
    gconds = fg.nodes(lambda n: n.kind == "cond")
    okg = len(gconds) == 1
    if okg:
        first = [n for n in fg.nodes(lambda n: n.kind == "stmt" and isinstance(n.ast, ast.Assign) and unparse(n.ast.value) == "self.get_bytes(1)")]
        okg = len(first) == 1 and unparse(gconds[0].ast) in ("%s == max_byte" % unparse(first[0].ast.targets[0]), "max_byte == %s" % unparse(first[0].ast.targets[0]))
        if okg:
            bv = unparse(first[0].ast.targets[0])
            rets = fg.nodes(lambda n: n.kind == "return")
            longr = [r for r in rets if fg.dominated([r], guard_edge=fg.edge_guard(lambda q: q is gconds[0].ast, "T"))]
            plainr = [r for r in rets if r not in longr]
            okg = len(longr) == 1 and len(plainr) == 1 and unparse(longr[0].ast.value) in ("util.inflate_long(self.get_binary())", "util.inflate_long(self.get_string())")
            if okg:
                pt = fg.expand_text(plainr[0].ast.value, plainr[0], depth=1)
                aug = fg.nodes(lambda n: n.kind == "stmt" and isinstance(n.ast, ast.AugAssign) and unparse(n.ast.target) == bv and unparse(n.ast.value) == "self.get_bytes(3)")
                okg = unparse(plainr[0].ast.value) == "struct.unpack('>I', %s)[0]" % bv and len(aug) == 1
    chk.ob("R1.pair-agreement", "get_adaptive_int", okg, fg.f.loc,
           "first byte == 0xff marker -> inflate_long(string); otherwise that byte + 3 more unpacked as '>I'")

    # ---- R2 cursor conservation ------------------------------------------------------------------------------------------
    fr = F("get_remainder")
    seq = []
    for st in fr.f.node.body:
        eval_order(st, lambda x: seq.append(x) if isinstance(x, ast.Call) else None)
    names = [unparse(c) for c in seq]
    okr = False
    detail = "calls %s" % names
    tells = [c for c in seq if unparse(c) == "self.packet.tell()"]
    if len(tells) == 1 and isinstance(tells[0]._parent, ast.Assign):
        pos = unparse(tells[0]._parent.targets[0])
        okr = names == ["self.packet.tell()", "self.packet.read()", "self.packet.seek(%s)" % pos]
        rd = [c for c in seq if unparse(c) == "self.packet.read()"]
        if okr and isinstance(rd[0]._parent, ast.Assign):
            okr = _ret_texts(fr, depth=0) == [unparse(rd[0]._parent.targets[0])]
    chk.ob("R2.cursor-conservation", "get_remainder", okr, fr.f.loc, detail + " (save position, read the rest, restore, return what was read)")
    fs = F("get_so_far")
    seq = []
    for st in fs.f.node.body:
        eval_order(st, lambda x: seq.append(x) if isinstance(x, ast.Call) else None)
    names = [unparse(c) for c in seq]
    oks = False
    tells = [c for c in seq if unparse(c) == "self.packet.tell()"]
    if len(tells) == 1 and isinstance(tells[0]._parent, ast.Assign):
        pos = unparse(tells[0]._parent.targets[0])
        oks = names in (["self.packet.tell()", "self.rewind()", "self.packet.read(%s)" % pos], ["self.packet.tell()", "self.packet.seek(0)", "self.packet.read(%s)" % pos])
        oks = oks and _ret_texts(fs, depth=0) == ["self.packet.read(%s)" % pos]
    chk.ob("R2.cursor-conservation", "get_so_far", oks, fs.f.loc, "calls %s (reads exactly `position` bytes from the start, which leaves the cursor where it was)" % names)
    frw = F("rewind")
    chk.ob("R2.cursor-conservation", "rewind", [unparse(c) for (n, c) in frw.nodes_with_call(name="self.packet.seek")] == ["self.packet.seek(0)"], frw.f.loc, "seeks to 0")
    chk.ob("R2.cursor-conservation", "asbytes", _ret_texts(F("asbytes")) == ["self.packet.getvalue()"], F("asbytes").f.loc, "asbytes is the whole buffer regardless of the cursor")

    # ---- R3 dispatch ----------------------------------------------------------------------------------------------------------
    # evaluated over the value classes the dispatch distinguishes (bool is an int, so the order of the tests matters)
    from ..core.interp import Interp, Obj
    fd = prog.method("Message", "_add")
    ip = fd.params()[1]
    want = [(True, "add_boolean"), (False, "add_boolean"), (7, "add_adaptive_int"), (0, "add_adaptive_int"), (["a", "b"], "add_list"),
            ("text", "add_string"), (b"bytes", "add_string")]
    got = []
    okd = True
    for val, meth in want:
        called = []
        selfo = Obj(**dict((m_, (lambda v, m_=m_, called=called: called.append(m_) or "SELF")) for m_ in
                           ("add_boolean", "add_adaptive_int", "add_list", "add_string", "add_int", "add_mpint", "add_bytes", "add_int64")))
        it = Interp(intrinsics={"type": type, "isinstance": isinstance, "bool": bool, "int": int, "list": list, "str": str, "bytes": bytes}, arith=False)
        kind, res = it.call_function(fd.node, {fd.params()[0]: selfo, ip: val})
        got.append((type(val).__name__, called))
        if kind != "return" or called != [meth]:
            okd = False
    chk.ob("R3.dispatch-bool-before-int", "_add", okd, fd.loc, "value class -> encoder: %s (want bool -> add_boolean, int -> add_adaptive_int, list -> add_list, str/bytes -> add_string)" % got)
    fadd = prog.method("Message", "add")
    loops = [n for n in walk_no_defs(fadd.node) if isinstance(n, ast.For)]
    oka = len(loops) == 1 and unparse(loops[0].iter) == fadd.node.args.vararg.arg and [unparse(s) for s in loops[0].body] == ["self._add(%s)" % unparse(loops[0].target)]
    chk.ob("R3.add-encodes-items-in-order", "add", oka, fadd.loc, "for item in seq: self._add(item)")
    nret = 0
    for name, m in sorted(prog.cls("Message").methods.items()):
        if name.startswith("add_"):
            nret += 1
            rt = [unparse(r.value) for r in walk_no_defs(m.node) if isinstance(r, ast.Return)]
            fall = Flow(prog, m, implicit=False)
            okr_ = rt and all(t == "self" for t in rt) and fall.exit_dominated(guard_nodes=fall.nodes(lambda n: n.kind == "return"))
            chk.ob("R3.add-returns-self", name, bool(okr_), m.loc, "returns %s on every path" % (rt or "None"))
    chk.floor("R3", "add_* methods", nret, 9)

    # ---- R4 sign duality ---------------------------------------------------------------------------------------------------------
    df = prog.func("util.deflate_long")
    n_ = df.params()[0]
    if n_ != "n":
        raise AnalysisError("util.deflate_long", "first parameter renamed; the duality rule names it `n`")
    loops = [x for x in walk_no_defs(df.node) if isinstance(x, ast.While)]
    okw = len(loops) == 1 and unparse(loops[0].test) in ("n != 0 and n != -1", "n != -1 and n != 0", "n not in (0, -1)", "n not in (-1, 0)")
    chk.ob("R4.residual-loop-stops-at-both-fixpoints", "deflate_long", okw, df.loc, "while %s (0 for non-negative, -1 for negative input)" % (unparse(loops[0].test) if loops else "?"))
    if loops:
        body = [unparse(s) for s in loops[0].body]
        okb = body in (["s = struct.pack('>I', n & xffffffff) + s", "n >>= 32"], ["s = struct.pack('>I', n & 4294967295) + s", "n >>= 32"])
        if not okb and len(body) == 2 and "struct.pack" in body[0] and ">>=" in body[1]:
            # same skeleton, different constants / order: a recognised construct that is wrong
            chk.ob("R4.word-loop", "deflate_long", False, df.loc, "body %s (want: prepend the low 32 bits big-endian, arithmetic shift by 32)" % body)
        elif not okb:
            raise AnalysisError("util.deflate_long", "word loop rewritten (%s); the duality rule cannot follow it" % body)
        else:
            chk.ob("R4.word-loop", "deflate_long", True, df.loc, "body %s (prepend the low 32 bits big-endian, arithmetic shift)" % body)
    pairs = []
    ifs = [x for x in walk_no_defs(df.node) if isinstance(x, ast.If)]
    by_test = dict((unparse(x.test), x) for x in ifs)
    npairs = 0
    for t, x in sorted(by_test.items()):
        if "n == 0" in t and x.orelse == [] and "n == -1" not in t:
            d = _dual(x.test)
            partner = by_test.get(d)
            npairs += 1
            okp = partner is not None and [_dual(s) for s in x.body] == [unparse(s) for s in partner.body]
            chk.ob("R4.negative-arm-is-sign-dual", "deflate_long:%s" % t, okp, "%s:%d" % (df.module.path, x.lineno),
                   "positive arm `if %s: %s`; dual expected `if %s: %s`; found %s" % (
                       t, "; ".join(unparse(s) for s in x.body), d, "; ".join(_dual(s) for s in x.body),
                       "none" if partner is None else "; ".join(unparse(s) for s in partner.body)))
    chk.floor("R4", "dual arm pairs in deflate_long", npairs, 2)
    deg = [x for x in ifs if unparse(x.test) in ("n == 0", "not n == 0", "n != 0", "n == -1", "not n == -1", "n != -1") and x.orelse]
    okdeg = len(deg) == 1 and [_dual(s) for s in deg[0].body] == [unparse(s) for s in deg[0].orelse]
    if okdeg:
        zero_arm = deg[0].body if unparse(deg[0].test) in ("n == 0", "not n == -1", "n != -1") else deg[0].orelse
        okdeg = [unparse(s) for s in zero_arm] == ["s = zero_byte"]
    chk.ob("R4.negative-arm-is-sign-dual", "deflate_long:degenerate", okdeg, df.loc, "n == 0 -> s = zero_byte else (n == -1) -> s = max_byte")
    pad = [x for x in ifs if unparse(x.test) == df.params()[1]]
    okpad = len(pad) == 1 and sum(1 for x in walk_no_defs(pad[0]) if isinstance(x, ast.If)) == 3
    chk.ob("R4.sign-padding-only-on-request", "deflate_long", okpad, df.loc, "both padding arms sit under `if add_sign_padding`")
    inf = prog.func("util.inflate_long")
    fi = Flow(prog, inf, implicit=False)
    sp_, ap_ = inf.params()[0], inf.params()[1]
    negset = fi.nodes(lambda n: n.kind == "stmt" and isinstance(n.ast, ast.Assign) and unparse(n.ast.targets[0]) == "negative" and unparse(n.ast.value) in ("1", "True"))
    okn = len(negset) == 1
    if okn:
        p = negset[0].ast._parent
        okn = isinstance(p, ast.If) and isinstance(p.test, ast.BoolOp) and isinstance(p.test.op, ast.And)
        if not okn:
            raise AnalysisError("util.inflate_long", "sign test is not a conjunction; idiom not recognised")
        conj = [unparse(v) for v in p.test.values]
        topbit = [v for v in p.test.values if "%s[0]" % sp_ in unparse(v)]
        if len(topbit) != 1:
            raise AnalysisError("util.inflate_long", "sign test does not look at the first byte; idiom not recognised")
        tb = topbit[0]
        okbit = False
        for var in ("byte_ord(%s[0])" % sp_, "%s[0]" % sp_):
            fx = facts(tb, var)
            if fx["T"] and fx["T"][0].get("lo") == (None, 0x80) and "hi" not in fx["T"][0]:
                okbit = True
        if unparse(tb) in ("byte_ord(%s[0]) & 128" % sp_, "%s[0] & 128" % sp_):
            okbit = True
        okn = okbit and ("not %s" % ap_) in conj
        detail_n = "test `%s`" % unparse(p.test)
    else:
        detail_n = "%d assignments negative = 1" % len(negset)
    chk.ob("R4.inflate-sign-test", "inflate_long", okn, inf.loc, "negative iff not always_positive and the first byte has its top bit set (>= 0x80); " + detail_n)
    fills = [x for x in walk_no_defs(inf.node) if isinstance(x, ast.If) and unparse(x.test) == "negative" and len(x.body) == 1]
    okf = False
    for x in fills:
        if unparse(x.body[0]) == "filler = max_byte":
            prev = [s for s in x._parent.body if isinstance(s, ast.Assign) and unparse(s) == "filler = zero_byte"]
            okf = bool(prev)
    chk.ob("R4.negative-arm-is-sign-dual", "inflate_long:filler", okf, inf.loc, "pads with zero_byte, or max_byte when negative")
    sub = [x for x in fills if unparse(x.body[0]) in ("out -= 1 << 8 * len(%s)" % sp_, "out -= 1 << (8 * len(%s))" % sp_)]
    chk.ob("R4.inflate-two-complement", "inflate_long", len(sub) == 1, inf.loc, "subtracts 2^(8*len(s)) exactly when negative")
    acc = [x for x in walk_no_defs(inf.node) if isinstance(x, ast.For)]
    okacc = len(acc) == 1 and unparse(acc[0].iter) == "range(0, len(%s), 4)" % sp_ and \
        [unparse(s) for s in acc[0].body] == ["out = (out << 32) + struct.unpack('>I', %s[%s:%s + 4])[0]" % (sp_, unparse(acc[0].target), unparse(acc[0].target))]
    chk.ob("R4.word-loop", "inflate_long", okacc, inf.loc, "accumulates 32-bit big-endian words from the left")
