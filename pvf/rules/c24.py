"""C24 - the pollable descriptor is readable exactly when recv would not block.

An invariant relating two buffers and one OS pipe under all interleavings is,
statically, a *lockset* question: is every read-modify-write of the shared pipe
state done under one lock common to all threads that do it?
"""
import ast
from ..core.model import AnalysisError, unparse, dotted, walk_no_defs
from ..core.flow import Flow, node_calls, attr_writes
from ..core.locks import LockFlow
from ..core import match as M

STATE = ("_set", "_forever", "_closed")
PIPES = ("PosixPipe", "WindowsPipe")


def state_nodes(lf, prefix="self."):
    out = []
    for n in lf.fl.cfg.nodes:
        if n.id not in lf.fl.live or n.ast is None or n.kind in ("entry", "loop_head", "try", "def", "with_exit", "with_enter"):
            continue
        t = unparse(n.ast)
        if any((prefix + s) in t for s in STATE) or "self._partner._set" in t or "os.read(" in t or "os.write(" in t or \
                ".recv(1)" in t or ".send(b'*')" in t or "self._pipe.set()" in t or "self._pipe.clear()" in t or "self.set()" in t:
            out.append(n)
    return out


def run(prog, chk):
    chk.explanation = (
        "Decided by lockset: the state of the OS-level pipe (PosixPipe/WindowsPipe._set/_forever/_closed and the "
        "byte in the fd) and of the two OrPipe halves that share it is reached from the transport thread via "
        "BufferedPipe.feed/close (holding that buffer's lock) and Channel._handle_eof/_set_closed (holding "
        "Channel.lock), and from user threads via BufferedPipe.read/empty/set_event and Channel.close. Two "
        "different BufferedPipe locks and Channel.lock have no lock in common, so the invariant needs the pipe "
        "classes to serialise themselves: (R1) every method that reads-modifies-writes that state must do so "
        "under one pipe-wide lock, and each OrPipe half must read its partner's flag inside the same critical "
        "section in which it updates the shared pipe. (R2) set_event initialises the event from "
        "closed-or-nonempty under the buffer lock; (R3) feed and close set the event, read/empty clear it only "
        "when the buffer became empty and is not closed - all under the buffer lock. Not decided: select() "
        "semantics of the OS.")
    chk.assumptions = ["a non-empty common lockset is necessary for the invariant; an empty one is a real race"]
    # external contexts (for the evidence): which lock each caller holds when it touches the pipe
    ctx = []
    for cn, recv in (("BufferedPipe", "self._event"), ("Channel", "self._pipe")):
        for f in prog.classes[cn].methods.values():
            calls = [c for c in walk_no_defs(f.node) if isinstance(c, ast.Call) and isinstance(c.func, ast.Attribute)
                     and unparse(c.func.value) in (recv, "event") and c.func.attr in ("set", "clear", "set_forever", "close")]
            if not calls:
                continue
            lf = LockFlow(prog, f)
            for c in calls:
                nodes = lf.fl.cfg.node_containing(c)
                held = sorted(lf.held_at(nodes[0])) if nodes else []
                ctx.append("%s.%s() in %s holds %s" % (recv, c.func.attr, f.qual, ["%s(%s)" % (h, cn) for h in held]))
    chk.note("external contexts: " + "; ".join(ctx))
    chk.floor("R1", "external pipe call sites", len(ctx), 8)

    # R1: internal serialisation ------------------------------------------------------------
    n1 = 0
    for cn in PIPES:
        cls = prog.classes[cn]
        init = cls.methods.get("__init__")
        lock_attr = None
        for (st, t, v) in attr_writes(init.node):
            if M.is_call(v) and (dotted(v.func) or "").endswith(("Lock", "RLock")):
                lock_attr = "self." + t.attr
        for mn in ("set", "clear", "set_forever", "close"):
            f = cls.methods.get(mn)
            if f is None:
                continue
            n1 += 1
            ok = False
            detail = "no pipe-wide lock exists in %s" % cn
            if lock_attr:
                lf = LockFlow(prog, f)
                acc = state_nodes(lf)
                ok = bool(acc) and all(lf.holds(a, lock_attr) for a in acc) and not lf.held_at_exit()
                detail = "%d state accesses, under %s: %s" % (len(acc), lock_attr, ok)
            chk.ob("R1.pipe-state-serialised", "%s.%s" % (cn, mn), ok, f.loc, detail)
    orp = prog.classes["OrPipe"]
    for mn in ("set", "clear"):
        f = orp.methods[mn]
        n1 += 1
        lf = LockFlow(prog, f)
        acc = state_nodes(lf)
        held_all = None
        for a in acc:
            h = lf.held_at(a)
            held_all = h if held_all is None else (held_all & h)
        shared = [h for h in (held_all or ()) if h.startswith("self._pipe.")]
        ok = bool(acc) and bool(shared)
        chk.ob("R1.pipe-state-serialised", "OrPipe.%s" % mn, ok, f.loc,
               "partner flag read and shared pipe update in one critical section of the shared pipe's lock: %s (held: %s)" % (ok, sorted(held_all or ())))
    chk.floor("R1", "pipe state mutators", n1, 10)
    # both halves share one underlying pipe and know each other
    mo = prog.func("pipe.make_or_pipe")
    t = unparse(mo.node)
    ok = t.count("OrPipe(%s)" % mo.params()[0]) == 2 and "._partner = " in t
    chk.ob("R1.halves-share-one-pipe", "make_or_pipe", ok, mo.loc, "both OrPipe halves wrap the same pipe and are each other's partner")
    fn = prog.func("Channel.fileno")
    lf = LockFlow(prog, fn)
    se = [(n, c) for (n, c) in lf.fl.nodes_with_call(attr="set_event")]
    ok = len(se) == 2 and sorted(unparse(c.func.value) for (n, c) in se) == ["self.in_buffer", "self.in_stderr_buffer"] and \
        all(lf.holds(n, "self.lock") for (n, c) in se)
    mk = [n for (n, c) in lf.fl.nodes_with_call(name="pipe.make_or_pipe")]
    ok = ok and len(mk) == 1
    # both halves on every path that creates the pipe: a half that is attached only under some condition (combined
    # stderr, say) leaves its buffer without an event when the condition changes later
    if ok:
        after = [d for (d, lab) in lf.fl.cfg.succ[mk[0].id] if lab not in ("exc", "raise")]
        for (n, c) in se:
            ok = ok and lf.fl.cfg.dominated([lf.fl.cfg.exit.id], guard_nodes=[n.id], start=after)
    chk.ob("R1.halves-installed", "Channel.fileno", ok, fn.loc, "p1 -> in_buffer, p2 -> in_stderr_buffer, created once under Channel.lock")
    # created once: the test "is there a pipe already?" and the creation are one critical section - the creating write is
    # dominated by a test of self._pipe itself (not of a copy read earlier) made while Channel.lock is held
    wr = lf.fl.nodes(lambda n: n.kind == "stmt" and isinstance(n.ast, ast.Assign) and any(unparse(t_) == "self._pipe" for t_ in n.ast.targets))

    def _tests_pipe(t_, op):
        return isinstance(t_, ast.Compare) and len(t_.ops) == 1 and isinstance(t_.ops[0], op) and unparse(t_.left) == "self._pipe" and \
            isinstance(t_.comparators[0], ast.Constant) and t_.comparators[0].value is None
    locked = set(n.id for n in lf.fl.nodes(lambda n: n.kind == "cond" and (_tests_pipe(n.ast, ast.Is) or _tests_pipe(n.ast, ast.IsNot))) if lf.holds(n, "self.lock"))
    ge = lambda s_, lab, d_: s_ in locked and ((lab == "T" and _tests_pipe(lf.fl.cfg.nodes[s_].ast, ast.Is)) or (lab == "F" and _tests_pipe(lf.fl.cfg.nodes[s_].ast, ast.IsNot)))
    okc = len(wr) == 1 and lf.holds(wr[0], "self.lock") and bool(locked) and lf.fl.dominated(wr, guard_edge=ge)
    chk.ob("R1.pipe-created-once", "Channel.fileno", okc, fn.loc,
           "self._pipe is assigned under Channel.lock and only after testing, under that same lock, that it is still None (%d locked test(s))" % len(locked))

    # R2 / R3 buffer-side event discipline --------------------------------------------------------
    se = prog.func("BufferedPipe.set_event")
    lf = LockFlow(prog, se)
    ev = se.params()[1]
    sets = [n for (n, c) in lf.fl.nodes_with_call(name=ev + ".set")]
    clrs = [n for (n, c) in lf.fl.nodes_with_call(name=ev + ".clear")]
    g_c = lf.fl.edge_guard(lambda t_: unparse(t_) == "self._closed", "T")
    g_n = lf.fl.edge_guard(lambda t_: unparse(t_) in ("len(self._buffer) > 0", "self._buffer"), "T")
    ok = len(sets) == 1 and len(clrs) == 1 and all(lf.holds(x, "self._lock") for x in sets + clrs)
    ok = ok and lf.fl.dominated(sets, guard_edge=lambda s, lab, d: g_c(s, lab, d) or g_n(s, lab, d))
    ok = ok and lf.fl.dominated(clrs, guard_edge=lf.fl.edge_guard(lambda t_: unparse(t_) == "self._closed", "F")) and \
        lf.fl.dominated(clrs, guard_edge=lf.fl.edge_guard(lambda t_: unparse(t_) in ("len(self._buffer) > 0", "self._buffer"), "F"))
    chk.ob("R2.set-event-initial-state", "set_event", ok, se.loc, "event set iff closed or data buffered, decided under the buffer lock")
    for mn in ("feed", "close"):
        f = prog.func("BufferedPipe." + mn)
        lf = LockFlow(prog, f)
        sets = [n for (n, c) in lf.fl.nodes_with_call(name="self._event.set")]
        g = lf.fl.edge_guard(lambda t_: unparse(t_) == "self._event is not None", "T")
        ok = len(sets) == 1 and lf.holds(sets[0], "self._lock") and lf.fl.dominated(sets, guard_edge=g)
        f2 = Flow(prog, f, env={"self._event is not None": True}, implicit=False)
        s2 = [n for (n, c) in f2.nodes_with_call(name="self._event.set")]
        ok = ok and bool(s2) and f2.exit_dominated(guard_nodes=s2)
        chk.ob("R3.event-set-when-readable", mn, ok, f.loc, "%s sets the event on every path (under the buffer lock)" % mn)
    for mn in ("read", "empty"):
        f = prog.func("BufferedPipe." + mn)
        lf = LockFlow(prog, f)
        clrs = [n for (n, c) in lf.fl.nodes_with_call(name="self._event.clear")]
        ok = len(clrs) == 1 and lf.holds(clrs[0], "self._lock")
        if ok:
            ok = lf.fl.dominated(clrs, guard_edge=lf.fl.edge_guard(lambda t_: unparse(t_) == "self._closed", "F"))
            # the buffer was just emptied: a `del self._buffer[:]` dominates the clear
            dels = lf.fl.nodes(lambda n: n.kind == "stmt" and isinstance(n.ast, ast.Delete) and unparse(n.ast.targets[0]) == "self._buffer[:]")
            ok = ok and bool(dels) and lf.fl.dominated(clrs, guard_nodes=dels)
        chk.ob("R3.event-cleared-only-when-drained", mn, ok, f.loc, "%s clears the event only after emptying the buffer and when not closed" % mn)
    for fq, call in (("Channel._handle_eof", "self._pipe.set_forever"), ("Channel._set_closed", "self._pipe.set_forever")):
        f = prog.func(fq)
        ok = any(M.is_call(c, name=call) for c in walk_no_defs(f.node))
        chk.ob("R3.eof-and-close-latch-readable", fq, ok, f.loc, "%s latches the descriptor readable" % fq)
