"""C42 - buffered file wrappers preserve stream content and line structure (partial)."""
import ast
import itertools
from ..core.model import AnalysisError, unparse, dotted, walk_no_defs
from ..core.flow import Flow, node_calls
from ..core.cfg import assigned_names
from ..core.consts import Folder
from ..core.interp import Interp, Obj
from ..core import match as M

RB = "self._rbuffer"


def _stmt_node(fl, st):
    ns = [n for n in fl.cfg.nodes_for(st) if n.id in fl.live]
    if not ns:
        raise AnalysisError(fl.f.qual, "no live CFG node for %s" % unparse(st)[:60])
    return ns[0]


def _block_of(st):
    p = st._parent
    for fld in ("body", "orelse", "finalbody"):
        b = getattr(p, fld, None)
        if isinstance(b, list) and st in b:
            return b
    return []


def _is_empty_bytes(v):
    return (M.is_call(v, name="bytes") and not v.args) or (isinstance(v, ast.Constant) and v.value == b"")


def run(prog, chk):
    chk.explanation = (
        "Partial: the CR/LF splitting logic of readline and content equality over arbitrary read/readline mixes are "
        "value properties and are not decided. Decided - necessary conditions of 'complete and in order': (R1) "
        "close() flushes before it marks the file closed; flush hands the whole write buffer to _write_all and only "
        "then resets it. (R2) _write_all advances by exactly the count _write returned and loops until nothing is "
        "left; every _write override returns a count that matches what it sent (len(data) after a sendall of data, "
        "or k after sending data[:k]). (R3) buffer-conservation rules for every assignment to self._rbuffer in read "
        "and readline: a clear is dominated by a take-all whose holder is what gets returned; a split keeps both "
        "halves with the same bound (X[:k] returned / X[k:] kept); the unread remainder goes back IN FRONT of a "
        "stashed tail; bytes newly read from the stream are appended on the right of the accumulator, once. (R4) "
        "ChannelFile/ChannelStderrFile read with recv / recv_stderr and write with sendall / sendall_stderr; "
        "ChannelStdinFile.close flushes (super().close()) before shutdown_write(). (R5) write(): unbuffered data goes "
        "straight to _write_all; line-buffered mode searches the LAST newline of the new data, sends the buffer through "
        "it and keeps exactly the rest; otherwise the buffer is flushed when it reaches bufsize. (R6) _set_mode is "
        "evaluated from its AST over the complete quotient of its inputs (bufsize < 0, 0, 1, > 1; every subset of the "
        "mode letters r w a + b U): the buffering and access flags are exactly the documented ones. (R7) the pending-CR latch of readline is cleared "
        "on every path through the block that tests it against the next byte.")
    chk.assumptions = ["BytesIO and bytes slicing behave as documented", "Channel.sendall delivers everything or raises (C25)"]
    bf = prog.cls("BufferedFile")

    # ---- R1 -------------------------------------------------------------------------------------------------
    cl = prog.method("BufferedFile", "close")
    fc = Flow(prog, cl, implicit=False)
    fl_calls = [n for (n, c) in fc.nodes_with_call(name="self.flush")]
    closed = fc.nodes(lambda n: n.kind == "stmt" and isinstance(n.ast, ast.Assign) and unparse(n.ast.targets[0]) == "self._closed")
    ok = len(fl_calls) >= 1 and len(closed) == 1 and fc.dominated(closed, guard_nodes=fl_calls, complete=True) and fc.exit_dominated(guard_nodes=fl_calls)
    chk.ob("R1.close-flushes-first", "BufferedFile.close", ok, cl.loc, "flush() dominates `self._closed = True` and every normal exit")
    fs = prog.method("BufferedFile", "flush")
    ff = Flow(prog, fs, implicit=False)
    wa = [(n, c) for (n, c) in ff.nodes_with_call(name="self._write_all")]
    rs = ff.nodes(lambda n: n.kind == "stmt" and isinstance(n.ast, ast.Assign) and unparse(n.ast.targets[0]) == "self._wbuffer")
    ok = len(wa) == 1 and unparse(wa[0][1].args[0]) == "self._wbuffer.getvalue()" and len(rs) == 1 and unparse(rs[0].ast.value) == "BytesIO()" \
        and ff.dominated(rs, guard_nodes=[wa[0][0]]) and ff.exit_dominated(guard_nodes=[wa[0][0]])
    chk.ob("R1.flush-writes-whole-buffer-then-resets", "BufferedFile.flush", ok, fs.loc,
           "_write_all(self._wbuffer.getvalue()) on every path, and only afterwards self._wbuffer = BytesIO()")

    # ---- R2 -------------------------------------------------------------------------------------------------
    wall = prog.method("BufferedFile", "_write_all")
    loops = [n for n in walk_no_defs(wall.node) if isinstance(n, ast.While)]
    ok = len(loops) == 1
    detail = "%d loops" % len(loops)
    if ok:
        lp = loops[0]
        cp = M.compare_parts(lp.test)
        dv = None
        if cp and M.is_call(cp[0], name="len") and cp[1] is ast.Gt and unparse(cp[2]) == "0":
            dv = unparse(cp[0].args[0])
        elif isinstance(lp.test, ast.Name):
            dv = lp.test.id
        ok = dv is not None
        if ok:
            wr = [s for s in lp.body if isinstance(s, ast.Assign) and M.is_call(s.value, name="self._write")]
            ok = len(wr) == 1 and unparse(wr[0].value.args[0]) == dv
            if ok:
                cnt = unparse(wr[0].targets[0])
                adv = [s for s in lp.body if isinstance(s, ast.Assign) and unparse(s.targets[0]) == dv]
                ok = len(adv) == 1 and unparse(adv[0].value) == "%s[%s:]" % (dv, cnt) and lp.body.index(wr[0]) < lp.body.index(adv[0])
                detail = "count = self._write(%s); %s" % (dv, unparse(adv[0]) if adv else "no advance")
                ok = ok and not any(isinstance(x, (ast.Break, ast.Return)) for x in walk_no_defs(lp))
            # the data is the argument (a view of it)
            init = [s for s in wall.node.body if isinstance(s, ast.Assign) and unparse(s.targets[0]) == dv]
            ok = ok and (dv == wall.params()[1] or (len(init) == 1 and unparse(init[0].value) in ("memoryview(%s)" % wall.params()[1], wall.params()[1], "bytes(%s)" % wall.params()[1])))
    chk.ob("R2.write-all-advances-by-count-until-empty", "BufferedFile._write_all", ok, wall.loc, detail)
    nover = 0
    for c in [bf] + prog.subclasses("BufferedFile"):
        if "_write" not in c.methods or c.name == "BufferedFile":
            continue
        nover += 1
        m = c.methods["_write"]
        dp = m.params()[1]
        fm = Flow(prog, m, implicit=False)
        rets = fm.nodes(lambda n: n.kind == "return")
        okw = bool(rets)
        detail = ""
        for r in rets:
            rt = fm.expand_text(r.ast.value, r, depth=2) if r.ast.value is not None else ["None"]
            if rt == ["len(%s)" % dp]:
                sends = [c2 for (n, c2) in fm.nodes_with_call() if isinstance(c2.func, ast.Attribute) and c2.func.attr.startswith("sendall")
                         and [unparse(a) for a in c2.args] == [dp]]
                okw = okw and len(sends) == 1 and fm.dominated([r], guard_nodes=[n for (n, c2) in fm.nodes_with_call() if c2 is sends[0]])
                detail = "returns len(%s) after %s" % (dp, unparse(sends[0]) if sends else "no sendall of the data")
            else:
                kv = unparse(r.ast.value)
                sent = [a for x in walk_no_defs(m.node) if isinstance(x, ast.Call) for a in x.args if unparse(a) == "%s[:%s]" % (dp, kv)]
                defs = fm.expand_text(r.ast.value, r, depth=1)
                okw = okw and len(sent) == 1 and all(d.startswith("min(len(%s)," % dp) for d in defs)
                detail = "returns %s = %s and sends %s[:%s]" % (kv, defs, dp, kv)
        chk.ob("R2.write-override-count-matches-what-was-sent", "%s._write" % c.name, okw, m.loc, detail)
    chk.floor("R2", "_write overrides", nover, 3)

    # ---- R3 -------------------------------------------------------------------------------------------------
    nrb = 0
    for fname in ("read", "readline"):
        m = prog.method("BufferedFile", fname)
        fm = Flow(prog, m, implicit=False)
        rets = fm.nodes(lambda n: n.kind == "return")
        for st in walk_no_defs(m.node):
            tgt = None
            if isinstance(st, ast.Assign) and len(st.targets) == 1 and unparse(st.targets[0]) == RB:
                tgt, val, aug = st.targets[0], st.value, False
            elif isinstance(st, ast.AugAssign) and unparse(st.target) == RB:
                tgt, val, aug = st.target, st.value, True
            if tgt is None:
                continue
            nrb += 1
            n = _stmt_node(fm, st)
            key = "%s:%s" % (fname, _ordinal(m.node, st))
            where = fm.where(st)
            if aug:
                okk = isinstance(st.op, ast.Add) and isinstance(val, ast.Name) and _from_stream(fm, val.id, n)
                chk.ob("R3.rbuffer-assignment", key, okk, where, "%s (append of freshly read stream data at the tail)" % unparse(st))
                continue
            if _is_empty_bytes(val):
                # a clear: the content must have been taken in full by a holder that is then returned
                takes = fm.nodes(lambda x: x.kind == "stmt" and isinstance(x.ast, ast.Assign) and len(x.ast.targets) == 1 and
                                 isinstance(x.ast.targets[0], ast.Name) and unparse(x.ast.value) in (RB, "bytearray(%s)" % RB, "bytes(%s)" % RB))
                okk = bool(takes) and fm.dominated([n], guard_nodes=takes)
                holders = set(unparse(t.ast.targets[0]) for t in takes)
                # between take and clear nothing else writes the buffer; afterwards the holder reaches every return reachable from here
                after = fm.cfg.reach([n.id], avoid_edge=fm.avoid)
                rr = [r for r in rets if r.id in after]
                okr = bool(rr) and all(r.ast.value is not None and (holders & set(x.id for x in ast.walk(r.ast.value) if isinstance(x, ast.Name))) for r in rr)
                chk.ob("R3.rbuffer-assignment", key, okk and okr, where,
                       "%s: cleared only after its whole content was taken by %s, which every later return hands out%s" % (
                           unparse(st), sorted(holders) or "?", "" if okk else " - but a path reaches the clear without the take: " + fm.witness([n], guard_nodes=takes)))
                continue
            sl = M.slice_of(val)
            if sl is not None and sl[2] is None and sl[1] is not None:
                base, k = unparse(sl[0]), sl[1]
                blk = _block_of(st)
                partner = [s for s in blk if isinstance(s, ast.Assign) and M.slice_of(s.value) is not None and unparse(M.slice_of(s.value)[0]) == base
                           and M.slice_of(s.value)[1] is None and M.slice_of(s.value)[2] == k]
                okk = len(partner) == 1
                detail = "%s pairs with %s" % (unparse(st), unparse(partner[0]) if partner else "nothing: the head %s[:%s] is not kept in the same block" % (base, k))
                if not okk:
                    # three-way partition X[:a] | X[a:k] | X[k:] completed by the statements that follow the enclosing branch
                    outer = st._parent
                    oblk = _block_of(outer) if isinstance(outer, ast.If) else []
                    later = oblk[oblk.index(outer) + 1:] if outer in oblk else []
                    sls = [M.slice_of(x) for s_ in later for x in ast.walk(s_) if isinstance(x, ast.Subscript) and M.slice_of(x) is not None
                           and unparse(M.slice_of(x)[0]) == base]
                    mids = [q for q in sls if q[2] == k and q[1] is not None]
                    okk = any((None, m_[1]) in [(q[1], q[2]) for q in sls] for m_ in mids)
                    if okk:
                        detail = "%s completes the partition %s[:a] | %s[a:%s] | %s[%s:] made by the following statements" % (unparse(st), base, base, k, base, k)
                    chk.ob("R3.rbuffer-assignment", key, okk, where, detail)
                    continue
                if okk:
                    # no write to base or k between the two statements
                    i, j = sorted((blk.index(st), blk.index(partner[0])))
                    mid = blk[i + 1:j]
                    okk = not any(isinstance(s, (ast.Assign, ast.AugAssign)) and (unparse(getattr(s, "target", None) or s.targets[0]) in (k,)) for s in mid)
                    # when the base is rebound by the partner (line = line[:size]) the tail must be taken first
                    if unparse(partner[0].targets[0]) == base:
                        okk = okk and blk.index(st) < blk.index(partner[0])
                        if not okk:
                            detail += " (the head overwrites %s before the tail is saved)" % base
                chk.ob("R3.rbuffer-assignment", key, okk, where, detail)
                continue
            parts = M.flatten_add(val)
            if len(parts) == 2:
                texts = [unparse(p) for p in parts]
                s0, s1 = M.slice_of(parts[0]), M.slice_of(parts[1])
                if RB in texts and (s0 is not None or s1 is not None):
                    okk = texts[1] == RB and s0 is not None and s0[2] is None
                    chk.ob("R3.rbuffer-assignment", key, okk, where,
                           "%s: the unread remainder must go in FRONT of the stashed tail (remainder + %s)" % (unparse(st), RB))
                    continue
            raise AnalysisError("BufferedFile.%s" % fname, "assignment form not recognised: %s" % unparse(st)[:80])
        # content taken out of the buffer in full must not also be left in it: every return after a take-all
        # passes a (re)assignment of the buffer.  One exception, with its reason: readline's `pos == -1` return is
        # reachable only through the truncating break (which has just reassigned the buffer) - the other break needs
        # a newline in `line`, so find() cannot be -1 there; a path-insensitive walk cannot see that correlation.
        takes = fm.nodes(lambda x: x.kind == "stmt" and isinstance(x.ast, ast.Assign) and len(x.ast.targets) == 1 and
                         isinstance(x.ast.targets[0], ast.Name) and unparse(x.ast.value) in (RB, "bytearray(%s)" % RB, "bytes(%s)" % RB))
        rbw = fm.nodes(lambda x: x.kind == "stmt" and RB in assigned_names(x))
        for tk in takes:
            start = [d for (d, l) in fm.cfg.succ[tk.id]]
            for r in rets:
                if r.id not in fm.cfg.reach(start, avoid_edge=fm.avoid):
                    continue
                okk = fm.cfg.dominated([r.id], [x.id for x in rbw], None, fm.avoid, start)
                exc = False
                if not okk and fname == "readline":
                    par = r.ast._parent
                    exc = isinstance(par, ast.If) and unparse(par.test) == "pos == -1" and not any(isinstance(q, (ast.While, ast.For)) for q in _ancestors(r.ast, m.node))
                chk.ob("R3.taken-content-not-left-in-buffer", "%s:return-%s" % (fname, _ordinal(m.node, r.ast)), okk or exc, fm.where(r),
                       "after `%s` this return is %s" % (unparse(tk.ast), "preceded by a reassignment of the buffer on every path" if okk else
                                                         ("the no-newline return after the truncating break (listed exception)" if exc else
                                                          "reachable with the taken bytes still in the buffer (they would be delivered twice): " + fm.witness([r], guard_nodes=rbw, start=start))))
        # stream data is appended on the right of an accumulator, exactly once
        for (n, c) in fm.nodes_with_call(name="self._read"):
            if not (isinstance(n.ast, ast.Assign) and isinstance(n.ast.targets[0], ast.Name)):
                raise AnalysisError("BufferedFile.%s" % fname, "self._read result not bound to a name")
            v = n.ast.targets[0].id
            uses = []
            for x in walk_no_defs(m.node):
                if isinstance(x, ast.AugAssign) and isinstance(x.op, ast.Add) and unparse(x.value) == v and not M.is_call(x.value, name="len"):
                    uses.append(("append-right", unparse(x)))
                elif isinstance(x, ast.Call) and isinstance(x.func, ast.Attribute) and x.func.attr == "extend" and [unparse(a) for a in x.args] == [v]:
                    uses.append(("append-right", unparse(x)))
                elif isinstance(x, ast.Assign) and v in [y.id for y in ast.walk(x.value) if isinstance(y, ast.Name)] and not M.is_call(x.value, name="len") \
                        and not (isinstance(x.value, ast.Constant)):
                    if x is n.ast:
                        continue
                    uses.append(("other", unparse(x)))
                elif isinstance(x, ast.Call) and isinstance(x.func, ast.Attribute) and x.func.attr in ("insert", "appendleft") and v in unparse(x):
                    uses.append(("other", unparse(x)))
            # only uses reachable from this read before the next read
            stop = set(x.id for (x, c2) in fm.nodes_with_call(name="self._read"))
            reach = fm.cfg.reach([d for (d, l) in fm.cfg.succ[n.id]], avoid_nodes=stop)
            live_uses = []
            for kind, text in uses:
                for x in fm.cfg.nodes:
                    if x.id in reach and x.ast is not None and x.kind == "stmt" and unparse(x.ast) == text:
                        live_uses.append((kind, text))
                        break
            okk = len(live_uses) == 1 and live_uses[0][0] == "append-right"
            chk.ob("R3.stream-data-appended-on-the-right-once", "%s:%s" % (fname, _ordinal(m.node, n.ast)), okk, fm.where(n),
                   "data from %s goes to: %s" % (unparse(c), [t for (k, t) in live_uses] or "nowhere"))
    chk.floor("R3", "assignments to self._rbuffer in read/readline", nrb, 7)

    # ---- R4 -------------------------------------------------------------------------------------------------
    for cname, rd, wr in (("ChannelFile", "recv", "sendall"), ("ChannelStderrFile", "recv_stderr", "sendall_stderr")):
        r = prog.cls(cname).methods.get("_read")
        w = prog.cls(cname).methods.get("_write")
        okr = r is not None and [unparse(s) for s in r.node.body if not isinstance(s, ast.Expr)] == ["return self.channel.%s(%s)" % (rd, r.params()[1])]
        chk.ob("R4.channel-file-wiring", "%s._read" % cname, okr, r.loc if r else prog.cls(cname).module.path, "reads with channel.%s(size)" % rd)
        okw = w is not None and any(unparse(c) == "self.channel.%s(%s)" % (wr, w.params()[1]) for c in walk_no_defs(w.node) if isinstance(c, ast.Call))
        chk.ob("R4.channel-file-wiring", "%s._write" % cname, okw, w.loc if w else prog.cls(cname).module.path, "writes with channel.%s(data)" % wr)
    sc = prog.cls("ChannelStdinFile").methods.get("close")
    oks = False
    if sc is not None:
        calls = [unparse(c) for c in walk_no_defs(sc.node) if isinstance(c, ast.Call) and not (isinstance(c.func, ast.Name) and c.func.id == "super")
                 and not (isinstance(c.func, ast.Attribute) and c.func.attr in ("_log", "log"))]
        oks = calls == ["super().close()", "self.channel.shutdown_write()"]
    chk.ob("R4.stdin-close-flushes-before-eof", "ChannelStdinFile.close", oks, sc.loc if sc else "", "super().close() (flush) then channel.shutdown_write()")
    mk = prog.method("Channel", "makefile")
    mks = prog.method("Channel", "makefile_stderr")
    mki = prog.method("Channel", "makefile_stdin")
    for m_, cn in ((mk, "ChannelFile"), (mks, "ChannelStderrFile"), (mki, "ChannelStdinFile")):
        rt = [unparse(r.value) for r in walk_no_defs(m_.node) if isinstance(r, ast.Return)]
        chk.ob("R4.channel-file-wiring", "Channel.%s" % m_.name, rt == ["%s(*[self] + list(params))" % cn], m_.loc, "returns %s" % rt)

    # ---- R5 -------------------------------------------------------------------------------------------------
    wm = prog.method("BufferedFile", "write")
    fw = Flow(prog, wm, implicit=False)
    dp = wm.params()[1]
    unbuf = [(n, c) for (n, c) in fw.nodes_with_call(name="self._write_all") if [unparse(a) for a in c.args] == [dp]]
    g_unbuf = fw.edge_guard(lambda t: unparse(t) == "self._flags & self.FLAG_BUFFERED", "F")
    ok = len(unbuf) == 1 and fw.dominated([unbuf[0][0]], guard_edge=g_unbuf)
    if ok:
        # ... and that path returns without touching the write buffer
        after = fw.cfg.reach([unbuf[0][0].id])
        ok = not any(x.id in after for (x, c) in fw.nodes_with_call(name="self._wbuffer.write"))
    chk.ob("R5.unbuffered-writes-go-straight-out", "write", ok, wm.loc, "not FLAG_BUFFERED: _write_all(data) and return")
    bw = [(n, c) for (n, c) in fw.nodes_with_call(name="self._wbuffer.write") if [unparse(a) for a in c.args] == [dp]]
    chk.ob("R5.buffered-data-appended-to-the-write-buffer", "write", len(bw) == 1 and fw.dominated([bw[0][0]], guard_edge=fw.edge_guard(
        lambda t: unparse(t) == "self._flags & self.FLAG_BUFFERED", "T")), wm.loc, "self._wbuffer.write(data) exactly once, under FLAG_BUFFERED")
    finds = [c for c in walk_no_defs(wm.node) if isinstance(c, ast.Call) and isinstance(c.func, ast.Attribute) and c.func.attr in ("find", "rfind", "index", "rindex")
             and [unparse(a) for a in c.args] == ["linefeed_byte"]]
    okl = len(finds) == 1 and finds[0].func.attr in ("rfind", "rindex") and unparse(finds[0].func.value) == dp
    chk.ob("R5.line-buffered-flushes-through-the-last-newline", "write:search", okl, fw.where(finds[0]) if finds else wm.loc,
           "%s (the LAST newline of the new data: everything up to it is a complete line and must go out now)" % (unparse(finds[0]) if finds else "no search"))
    if okl and isinstance(finds[0]._parent, ast.Assign):
        pv = unparse(finds[0]._parent.targets[0])
        lb_if = [x for x in walk_no_defs(wm.node) if isinstance(x, ast.If) and unparse(x.test) == "%s >= 0" % pv]
        okp = len(lb_if) == 1
        detail = ""
        if okp:
            body = lb_if[0].body
            texts = [unparse(s) for s in body]
            wbv = [unparse(s.targets[0]) for s in body if isinstance(s, ast.Assign) and unparse(s.value) == "self._wbuffer.getvalue()"]
            okp = len(wbv) == 1
            if okp:
                wb = wbv[0]
                want = ["%s = self._wbuffer.getvalue()" % wb, "%s += len(%s) - len(%s)" % (pv, wb, dp), "self._write_all(%s[:%s + 1])" % (wb, pv),
                        "self._wbuffer = BytesIO()", "self._wbuffer.write(%s[%s + 1:])" % (wb, pv)]
                okp = texts == want
                detail = "; ".join(texts)
        chk.ob("R5.line-buffered-sends-through-newline-keeps-rest", "write:split", okp, fw.where(lb_if[0]) if lb_if else wm.loc,
               detail or "split block not recognised")
        g_lb = fw.edge_guard(lambda t: unparse(t) == "self._flags & self.FLAG_LINE_BUFFERED", "T")
        okg = okp and fw.dominated([_stmt_node(fw, lb_if[0].body[0])], guard_edge=g_lb)
        chk.ob("R5.line-buffered-sends-through-newline-keeps-rest", "write:under-flag", okg, wm.loc, "the split runs under FLAG_LINE_BUFFERED")
    flc = [(n, c) for (n, c) in fw.nodes_with_call(name="self.flush")]
    okf = len(flc) == 1 and fw.dominated([flc[0][0]], guard_edge=fw.edge_guard(lambda t: unparse(t) in ("self._wbuffer.tell() >= self._bufsize", "self._bufsize <= self._wbuffer.tell()"), "T"))
    chk.ob("R5.block-buffered-flushes-at-bufsize", "write", okf, wm.loc, "flush() when the buffered amount reaches _bufsize")

    # ---- R6 -------------------------------------------------------------------------------------------------
    sm = prog.method("BufferedFile", "_set_mode")
    fold = Folder(prog)
    cenv = fold.class_env("BufferedFile")
    flags = dict((k, v) for k, v in cenv.items() if k.startswith("FLAG_") and isinstance(v, int))
    chk.floor("R6", "FLAG_ constants", len(flags), 7)
    vals = sorted(flags.values())
    chk.ob("R6.flags-are-distinct-bits", "BufferedFile.FLAG_*", len(set(vals)) == len(vals) and all(v & (v - 1) == 0 and v > 0 for v in vals), sm.loc, "%s" % flags)
    bad = None
    ncase = 0
    letters = "rwa+bU"
    for bufsize in (-7, -1, 0, 1, 2, 8192):
        for r in range(0, len(letters) + 1):
            for sub in itertools.combinations(letters, r):
                ncase += 1
                mode = "".join(sub)
                o = Obj(_flags=0, _bufsize=None, _DEFAULT_BUFSIZE=8192, _size=0, _pos=0, _realpos=0, newlines="x", **flags)
                it = Interp(intrinsics={"self._get_size": lambda: 55}, arith=True)
                sp = sm.params()
                kind, val = it.call_function(sm.node, {sp[0]: o, sp[1]: mode, sp[2]: bufsize})
                want = 0
                if bufsize == 1:
                    want |= flags["FLAG_BUFFERED"] | flags["FLAG_LINE_BUFFERED"]
                elif bufsize > 1:
                    want |= flags["FLAG_BUFFERED"]
                if "r" in mode or "+" in mode:
                    want |= flags["FLAG_READ"]
                if "w" in mode or "+" in mode or "a" in mode:
                    want |= flags["FLAG_WRITE"]
                if "a" in mode:
                    want |= flags["FLAG_APPEND"]
                if "b" in mode:
                    want |= flags["FLAG_BINARY"]
                if "U" in mode:
                    want |= flags["FLAG_UNIVERSAL_NEWLINE"]
                wantbs = bufsize if bufsize > 1 else 8192
                if (kind != "return" or o._flags != want or o._bufsize != wantbs) and bad is None:
                    bad = "mode %r bufsize %d -> flags %#x bufsize %r, want %#x / %d" % (mode, bufsize, o._flags, o._bufsize, want, wantbs)
    chk.count("R6 (mode, bufsize) classes evaluated", ncase)
    chk.ob("R6.set-mode-flags", "_set_mode", bad is None, sm.loc, "%d cases%s" % (ncase, "" if bad is None else "; first failing: " + bad))

    # ---- R3b ------------------------------------------------------------------------------------------------
    # outside read / readline (which hand the bytes to the caller) the read buffer is only ever thrown away on a file that
    # has positions - seek() of a subclass, or write() behind a seekable() test; a stream that drops what it has buffered
    # loses those bytes for good
    for mname, m_ in sorted(bf.methods.items()):
        if mname in ("read", "readline", "__init__", "readlines", "__next__"):
            continue
        fm_ = Flow(prog, m_, implicit=False)
        clears = fm_.nodes(lambda n: n.kind == "stmt" and isinstance(n.ast, ast.Assign) and any(unparse(t_) == RB for t_ in n.ast.targets))
        for i_, n_ in enumerate(clears):
            gs = fm_.edge_guard(lambda t_: unparse(t_) == "self.seekable()", "T")
            chk.ob("R3.read-buffer-dropped-only-on-seekable-files", "%s#%d" % (mname, i_), fm_.dominated([n_], guard_edge=gs), fm_.where(n_),
                   "%s in BufferedFile.%s %s" % (unparse(n_.ast), mname, "behind self.seekable()" if fm_.dominated([n_], guard_edge=gs) else "on every kind of file"))

    # ---- R7 -------------------------------------------------------------------------------------------------
    # The pending-CR latch: whoever tests it against the next byte consumes it.  In every function, a block entered
    # under a test of a boolean latch attribute that is set True elsewhere in the class must clear the latch on every
    # path out of the block - otherwise the same pending CR swallows a second, later LF (an empty line disappears).
    latches = set()
    rl = prog.method("BufferedFile", "readline")
    sets_true = [st for st in walk_no_defs(rl.node) if isinstance(st, ast.Assign) and isinstance(st.value, ast.Constant) and st.value.value is True
                 and len(st.targets) == 1 and isinstance(st.targets[0], ast.Attribute) and unparse(st.targets[0]).startswith("self.")]
    for st in sets_true:
        latches.add(unparse(st.targets[0]))
    chk.floor("R7", "latch attributes set in readline", len(latches), 1)
    fl7 = Flow(prog, rl, implicit=False)
    for latch in sorted(latches):
        guarded = [n for n in walk_no_defs(rl.node) if isinstance(n, ast.If) and any(unparse(x) == latch for x in ast.walk(n.test))]
        if not guarded:
            raise AnalysisError("BufferedFile.readline", "no block is entered under a test of %s" % latch)
        for gi, g in enumerate(guarded):
            # the latch must be required true by the test (a conjunct), else the block is not "the latch fired"
            conj = g.test.values if isinstance(g.test, ast.BoolOp) and isinstance(g.test.op, ast.And) else [g.test]
            if not any(unparse(c) == latch for c in conj):
                raise AnalysisError("BufferedFile.readline", "test of %s is not a plain conjunct: %s" % (latch, unparse(g.test)[:80]))
            inside_ast = set()
            for b in g.body:
                for x in ast.walk(b):
                    inside_ast.add(id(x))
            inside = set(n.id for n in fl7.cfg.nodes if n.id in fl7.live and n.ast is not None and id(n.ast) in inside_ast)
            if not inside:
                raise AnalysisError("BufferedFile.readline", "no CFG nodes for the block guarded by %s" % latch)
            clears = set(n.id for n in fl7.cfg.nodes if n.id in inside and isinstance(n.ast, ast.Assign) and len(n.ast.targets) == 1 and
                         unparse(n.ast.targets[0]) == latch and isinstance(n.ast.value, ast.Constant) and n.ast.value.value is False)
            entries = [i for i in inside if any(p not in inside for (p, _l) in fl7.cfg.pred[i])]
            seen = fl7.cfg.reach(entries, avoid_nodes=clears)
            leaks = sorted(i for i in seen if i not in inside)
            okl = bool(clears) and not leaks
            chk.ob("R7.pending-cr-latch-consumed-on-every-path", "readline:%s#%d" % (latch, gi), okl, fl7.where(g),
                   "block under `%s`: %d clearing assignment(s); %s" % (unparse(g.test)[:70], len(clears),
                                                                        "every path out of the block passes one" if okl else "a path leaves the block with the latch still set"))


def _ancestors(node, stop):
    out = []
    p = getattr(node, "_parent", None)
    while p is not None and p is not stop:
        out.append(p)
        p = getattr(p, "_parent", None)
    return out


def _ordinal(fnode, st):
    """stable construct key: normalised statement text plus its ordinal among equal texts."""
    t = unparse(st).split("\n")[0][:50]
    same = [x for x in walk_no_defs(fnode) if isinstance(x, ast.stmt) and unparse(x).split("\n")[0][:50] == t]
    same.sort(key=lambda x: (x.lineno, x.col_offset))
    return "%s#%d" % (t, same.index(st) if st in same else 0)


def _from_stream(fl, name, at):
    ds = fl.defs(name, at)
    return bool(ds) and all(rhs is not None and M.is_call(rhs, name="self._read") for (dn, rhs) in ds)
