"""C14 - a server grants authentication only with its approval and valid proof."""
import ast
from ..core.model import AnalysisError, unparse, dotted, walk_no_defs
from ..core.consts import Folder
from ..core.flow import Flow, node_calls, attr_writes
from ..core.layout import Extractor, split_messages
from ..core import match as M

AUTH_CLASSES = ("AuthHandler", "GssapiWithMicAuthHandler", "AuthOnlyHandler")


def auth_methods(prog):
    seen = set()
    for cn in AUTH_CLASSES:
        if cn not in prog.classes:
            continue
        for f in prog.classes[cn].methods.values():
            if id(f.node) not in seen:
                seen.add(id(f.node))
                yield f


def is_app_check(expr):
    return M.is_call(expr) and (dotted(expr.func) or "").startswith("self.transport.server_object.check_auth_")


def run(prog, chk):
    fold = Folder(prog)
    chk.explanation = (
        "Decided structurally: (R1) single grant point - USERAUTH_SUCCESS is built and authenticated=True "
        "is set (server side) only in _send_auth_result under result == AUTH_SUCCESSFUL, and the client-side "
        "success handler is in no server table; (R2) at every _send_auth_result call the result originates "
        "from a server_object.check_auth_* return value or the constant AUTH_FAILED - never a constant "
        "success; (R3) in the publickey branch a possibly-successful result reaches the reply only through "
        "the true arm of key.verify_ssh_sig over the session blob, and the no-signature probe ends in PK_OK "
        "without a result; (R4) the signed blob is RFC 4252 s7 (session id, 50, user, service, 'publickey', "
        "TRUE, algorithm, key) built from this request's own fields and this session's id; (R5) the "
        "keyboard-interactive and GSS continuation handlers obey R2.")
    chk.assumptions = ["server_object callbacks are opaque application code",
                       "Transport.session_id is latched by the first exchange (C06-R5)"]
    # R1 ---------------------------------------------------------------------------------------
    builders = []
    auth_true = []
    for f in auth_methods(prog):
        for c in walk_no_defs(f.node):
            if M.is_call(c, attr="add_byte") and c.args and unparse(c.args[0]) == "cMSG_USERAUTH_SUCCESS":
                builders.append(f.qual)
        for (st, t, v) in attr_writes(f.node):
            if t.attr == "authenticated" and isinstance(v, ast.Constant) and v.value is True:
                auth_true.append(f.qual)
    for f in prog.all_functions():
        if f.cls is not None and f.cls.name in AUTH_CLASSES:
            continue
        for c in walk_no_defs(f.node):
            if M.is_call(c, attr="add_byte") and c.args and unparse(c.args[0]) == "cMSG_USERAUTH_SUCCESS":
                builders.append(f.qual)
    chk.ob("R1.single-grant-point", "USERAUTH_SUCCESS builders", sorted(builders) == ["AuthHandler._send_auth_result"],
           prog.func("AuthHandler._send_auth_result").loc, "built in %s" % sorted(builders))
    chk.ob("R1.single-grant-point", "authenticated=True writers",
           sorted(auth_true) == ["AuthHandler._parse_userauth_success", "AuthHandler._send_auth_result"],
           prog.func("AuthHandler._send_auth_result").loc, "set in %s" % sorted(auth_true))
    sar = prog.func("AuthHandler._send_auth_result")
    fl = Flow(prog, sar)
    rp = sar.params()[3]
    grant = fl.nodes(lambda n: n.kind == "stmt" and ((isinstance(n.ast, ast.Assign) and unparse(n.ast.targets[0]) == "self.authenticated") or
                                                   any(M.is_call(c, attr="add_byte") and unparse(c.args[0]) == "cMSG_USERAUTH_SUCCESS" for c in node_calls(n)) or
                                                   any(M.is_call(c, attr="_auth_trigger") for c in node_calls(n))))
    g = fl.edge_guard(lambda t: unparse(t) == "%s == AUTH_SUCCESSFUL" % rp, "T")
    chk.ob("R1.grant-under-success", "_send_auth_result", len(grant) == 3 and fl.dominated(grant, guard_edge=g), sar.loc,
           "SUCCESS byte, authenticated=True and _auth_trigger only under result == AUTH_SUCCESSFUL (%d sites)" % len(grant))
    # the result parameter is not overwritten
    rew = fl.nodes(lambda n: n.kind == "stmt" and isinstance(n.ast, (ast.Assign, ast.AugAssign)) and
                   any(unparse(t) == rp for t in (n.ast.targets if isinstance(n.ast, ast.Assign) else [n.ast.target])))
    chk.ob("R1.result-not-rewritten", "_send_auth_result", not rew, sar.loc, "parameter %s is never reassigned" % rp)
    cenv = fold.module_env("common")
    vals = [cenv.get(k) for k in ("AUTH_SUCCESSFUL", "AUTH_PARTIALLY_SUCCESSFUL", "AUTH_FAILED")]
    chk.ob("R1.result-codes-distinct", "common", len(set(vals)) == 3 and all(isinstance(v, int) for v in vals), "paramiko/common.py", "codes %s" % vals)
    st = prog.func("AuthHandler._server_handler_table")
    rets = [n for n in walk_no_defs(st.node) if isinstance(n, ast.Return)]
    vals = [unparse(v) for v in rets[0].value.values] if rets and isinstance(rets[0].value, ast.Dict) else None
    chk.ob("R1.client-handler-not-in-server-table", "_server_handler_table",
           vals is not None and not any("userauth_success" in v for v in vals), st.loc, "server handlers: %s" % vals)
    g2 = prog.cls("GssapiWithMicAuthHandler")
    from ._shared import gss_handler_table
    tab = [txt for (q, kind, txt) in gss_handler_table(prog)]
    chk.ob("R1.client-handler-not-in-server-table", "GssapiWithMicAuthHandler", tab is not None and not any("userauth_success" in v for v in tab),
           g2.module.path, "gss handlers: %s" % tab)

    # R2 / R5 ----------------------------------------------------------------------------------
    nsites = 0
    for f in auth_methods(prog):
        calls = [c for c in walk_no_defs(f.node) if M.is_call(c, name="self._send_auth_result")]
        if not calls:
            continue
        ff = Flow(prog, f)
        for (n, c) in ff.nodes_with_call(name="self._send_auth_result"):
            nsites += 1
            a = c.args[2] if len(c.args) == 3 else None
            origins = []
            ok = a is not None
            if ok:
                if isinstance(a, ast.Name) and a.id not in ("AUTH_FAILED", "AUTH_SUCCESSFUL", "AUTH_PARTIALLY_SUCCESSFUL"):
                    for (dn, rhs) in ff.defs(a.id, n):
                        origins.append((dn, rhs))
                else:
                    origins.append((n, a))
                for (dn, rhs) in origins:
                    if rhs is None:
                        ok = False
                    elif is_app_check(rhs):
                        pass
                    elif isinstance(rhs, ast.Name) and rhs.id == "AUTH_FAILED":
                        pass
                    else:
                        ok = False
            key = "%s:%s" % (f.qual, unparse(c.args[1])[:30] if len(c.args) > 1 else "?")
            chk.ob("R2.result-is-applications", key, ok, ff.where(n),
                   "result <- %s" % sorted(set(unparse(r) if r is not None else "?" for (d, r) in origins)))
    chk.floor("R2", "_send_auth_result call sites", nsites, 5)
    # R2b: telling the application "GSS-API succeeded" requires a MIC check that returned normally
    ngss = 0
    for f in auth_methods(prog):
        if not any(M.is_call(c) and (dotted(c.func) or "").startswith("self.transport.server_object.check_auth_gssapi_")
                   for c in walk_no_defs(f.node)):
            continue
        ff = Flow(prog, f)
        mic = [n for (n, c) in ff.nodes_with_call(attr="ssh_check_mic")]
        for (n, c) in ff.nodes_with_call():
            if not (dotted(c.func) or "").startswith("self.transport.server_object.check_auth_gssapi_"):
                continue
            ngss += 1
            claim = [unparse(a) for a in c.args[1:2]]
            alts = ff.expand_text(c.args[1], n, depth=2) if len(c.args) > 1 else []
            micids = set(x.id for x in mic)
            # "returned normally": the check's exception edge (a handler that swallows the failure) does not count
            ok = bool(mic) and ff.dominated([n], guard_edge=lambda s_, lab, d_: s_ in micids and lab not in ("exc", "raise"))
            # receiver of ssh_check_mic must be usable: a None context must not skip the check
            chk.ob("R2.gss-claim-needs-mic-check", "%s:%s" % (f.qual, dotted(c.func).rsplit(".", 1)[1]), ok, ff.where(n),
                   "gss_authenticated=%s passed to the application only after ssh_check_mic returned normally" % (alts or claim))
    chk.floor("R2", "GSS application callbacks", ngss, 2)

    # R3 publickey -------------------------------------------------------------------------------
    ar = prog.func("AuthHandler._parse_userauth_request")
    methods = ["none", "password", "publickey", "keyboard-interactive", "gssapi-with-mic", "gssapi-keyex"]
    env = {"self.transport.server_mode": True, "self.authenticated": False}
    for m_ in methods:
        env["method == %r" % m_] = (m_ == "publickey")
    fp = Flow(prog, ar, env=env)
    send = [n for (n, c) in fp.nodes_with_call(name="self._send_auth_result")]
    ver = fp.nodes(lambda n: n.kind == "cond" and M.is_call(n.ast, attr="verify_ssh_sig"))
    appdef = fp.nodes(lambda n: n.kind == "stmt" and isinstance(n.ast, ast.Assign) and is_app_check(n.ast.value)
                      and "check_auth_publickey" in unparse(n.ast.value))
    ok = len(send) == 1 and len(ver) == 1 and len(appdef) == 1
    detail = "send sites %d, verify sites %d, check_auth_publickey sites %d" % (len(send), len(ver), len(appdef))
    if ok:
        rv = unparse(appdef[0].ast.targets[0])
        others = fp.nodes(lambda n: n.kind == "stmt" and isinstance(n.ast, ast.Assign) and unparse(n.ast.targets[0]) == rv and n is not appdef[0])
        failed_only = all(isinstance(o.ast.value, ast.Name) and o.ast.value.id == "AUTH_FAILED" for o in others)
        vid = ver[0].id
        fid = [n.id for n in fp.nodes(lambda n: n.kind == "cond" and unparse(n.ast) in ("%s != AUTH_FAILED" % rv, "%s == AUTH_FAILED" % rv))]

        def ge(s, lab, d):
            if s == vid and lab == "T":
                return True
            if s in fid:
                t = unparse(fp.cfg.nodes[s].ast)
                return (t.endswith("!= AUTH_FAILED") and lab == "F") or (t.endswith("== AUTH_FAILED") and lab == "T")
            return False

        start = [d for (d, lab) in fp.cfg.succ[appdef[0].id] if lab != "exc"]
        ok = failed_only and fp.cfg.dominated([send[0].id], guard_nodes=[o.id for o in others], guard_edge=ge,
                                               avoid_edge=fp.avoid, start=start)
        # verify call arguments: (session blob, signature from this request)
        vc = ver[0].ast
        blob = fp.expand_text(vc.args[0], ver[0], depth=1)
        ok = ok and len(blob) == 1 and blob[0].startswith("self._get_session_blob(")
        detail = "application result reaches the reply only via verify_ssh_sig(%s, ...) true / AUTH_FAILED" % blob
    chk.ob("R3.signature-required", "publickey", ok, ar.loc, detail)
    env2 = dict(env)
    env2.update({"sig_attached": False, "result != AUTH_FAILED": True})
    fq = Flow(prog, ar, env=env2)
    pk = [n for n in fq.nodes(lambda n: any(M.is_call(c, attr="add_byte") and unparse(c.args[0]) == "cMSG_USERAUTH_PK_OK" for c in node_calls(n)))]
    ok = len(pk) == 1 and not fq.nodes_with_call(name="self._send_auth_result") and not fq.nodes(
        lambda n: n.kind == "cond" and M.is_call(n.ast, attr="verify_ssh_sig"))
    chk.ob("R3.probe-never-authenticates", "publickey", ok, ar.loc, "no signature: PK_OK and return, _send_auth_result unreachable")

    # R4 session blob ------------------------------------------------------------------------------
    sb = prog.func("AuthHandler._get_session_blob")
    ps = sb.params()
    ex = Extractor()
    lays = set()
    for (ev, kind) in ex.function(sb.node):
        for m in split_messages(ev):
            lays.add(tuple(m["fields"]))
    fb = Flow(prog, sb)
    want_prefix = (("string", "self.transport.session_id"), ("byte", "cMSG_USERAUTH_REQUEST"), ("string", ps[3]), ("string", ps[2]),
                   ("string", "'publickey'"), ("boolean", "True"), ("string", ps[4]))
    ok = len(lays) == 1 and len(list(lays)[0]) == 8 and tuple(list(lays)[0][:7]) == want_prefix and list(lays)[0][7][0] == "string"
    if ok:
        kb = list(lays)[0][7][1]
        rets = fb.nodes(lambda n: n.kind == "return")
        kd = fb.defs(kb, rets[0]) if rets else []
        ok = len(kd) == 1 and kd[0][1] is not None and "self._get_key_type_and_bits(%s)" % ps[1] in unparse(kd[0][1])
        ok = ok and fold.module_env("common").get("cMSG_USERAUTH_REQUEST") == b"\x32"
    chk.ob("R4.session-blob-layout", "_get_session_blob", ok, sb.loc, "fields %s" % sorted(lays))
    kt = prog.func("AuthHandler._get_key_type_and_bits")
    rets = [unparse(r.value) for r in walk_no_defs(kt.node) if isinstance(r, ast.Return)]
    kp = kt.params()[1]
    chk.ob("R4.key-bytes", "_get_key_type_and_bits",
           bool(rets) and all(r in ("(%s.get_name(), %s)" % (kp, kp), "(%s.get_name(), %s.asbytes())" % (kp, kp),
                                    "(%s.public_blob.key_type, %s.public_blob.key_blob)" % (kp, kp)) for r in rets),
           kt.loc, "returns %s" % rets)
    if len(ver) == 1:
        bc = [c for c in ast.walk(fp.cfg.nodes_for(ver[0].ast)[0].ast) if False]
    bcalls = fp.nodes_with_call(name="self._get_session_blob")
    ok = len(bcalls) == 1
    if ok:
        bn, bcall = bcalls[0]
        args = [unparse(a) for a in bcall.args]
        # request's own fields: username, service read from m in order; algorithm; key from the request blob
        d_user = fp.defs("username", bn)
        d_srv = fp.defs("service", bn)
        ok = args == ["key", "service", "username", "algorithm"]
        ok = ok and all(r is not None and unparse(r) == "m.get_text()" for (d, r) in d_user + d_srv)
        kd = fp.defs("key", bn)
        ok = ok and any(r is not None and unparse(r) == "self._generate_key_from_request(algorithm, keyblob)" for (d, r) in kd)
        ok = ok and all(r is not None and (unparse(r) in ("self._generate_key_from_request(algorithm, keyblob)", "None")) for (d, r) in kd)
    chk.ob("R4.blob-from-this-request", "_parse_userauth_request", ok, ar.loc, "_get_session_blob(key, service, username, algorithm) with the request's own fields")
    # client signs the same function
    users = [f.qual for f in auth_methods(prog) for c in walk_no_defs(f.node) if M.is_call(c, name="self._get_session_blob")]
    chk.ob("R4.same-blob-both-sides", "callers", len(users) >= 2 and "AuthHandler._parse_userauth_request" in users, sb.loc, "callers: %s" % sorted(set(users)))
    # R6: the result is for *that username*: the request is tied to the one pinned name (rules shared with C16)
    from .c16 import pin_rules
    pin_rules(prog, chk, prefix="R6.")
