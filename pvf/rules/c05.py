"""C05 - negotiation picks the client's first mutually supported algorithm."""
import ast
from ..core.model import AnalysisError, unparse, dotted, walk_no_defs
from ..core.consts import Folder, is_sym
from ..core.flow import Flow, node_calls, attr_writes
from ..core.layout import Extractor, split_messages, reads
from ..core import match as M

# field assigned by the negotiation -> (own list, peer key as server, peer key as client)
MATRIX = {
    "kex_engine": ("self.preferred_kex", "kex_algo_list", "kex_algo_list"),
    "host_key_type": ("self.preferred_keys", "server_key_algo_list", "server_key_algo_list"),
    "local_cipher": ("self.preferred_ciphers", "server_encrypt_algo_list", "client_encrypt_algo_list"),
    "remote_cipher": ("self.preferred_ciphers", "client_encrypt_algo_list", "server_encrypt_algo_list"),
    "local_mac": ("self.preferred_macs", "server_mac_algo_list", "client_mac_algo_list"),
    "remote_mac": ("self.preferred_macs", "client_mac_algo_list", "server_mac_algo_list"),
    "local_compression": ("self.preferred_compression", "server_compress_algo_list", "client_compress_algo_list"),
    "remote_compression": ("self.preferred_compression", "client_compress_algo_list", "server_compress_algo_list"),
}
RFC_ORDER = ["kex_algo_list", "server_key_algo_list", "client_encrypt_algo_list", "server_encrypt_algo_list",
             "client_mac_algo_list", "server_mac_algo_list", "client_compress_algo_list",
             "server_compress_algo_list", "client_lang_list", "server_lang_list"]


def selection(expr):
    """(iterated expr, membership expr) for the recognised 'first common'
    idioms, else None."""
    # list(filter(A.__contains__, B))
    if M.is_call(expr, name="list") and len(expr.args) == 1:
        return selection(expr.args[0])
    if M.is_call(expr, name="filter") and len(expr.args) == 2:
        f = expr.args[0]
        if isinstance(f, ast.Attribute) and f.attr == "__contains__":
            return expr.args[1], f.value
        if isinstance(f, ast.Lambda) and len(f.args.args) == 1:
            cp = M.compare_parts(f.body)
            if cp and cp[1] is ast.In and unparse(cp[0]) == f.args.args[0].arg:
                return expr.args[1], cp[2]
        return None
    # [x for x in B if x in A]
    if isinstance(expr, (ast.ListComp, ast.GeneratorExp)) and len(expr.generators) == 1:
        g = expr.generators[0]
        if isinstance(g.target, ast.Name) and isinstance(expr.elt, ast.Name) and expr.elt.id == g.target.id \
                and len(g.ifs) == 1:
            cp = M.compare_parts(g.ifs[0])
            if cp and cp[1] is ast.In and unparse(cp[0]) == g.target.id:
                return g.iter, cp[2]
        return None
    if M.is_call(expr, name="tuple") and len(expr.args) == 1:
        return selection(expr.args[0])
    return None


def classify(fl, expr, at):
    """Describe a list operand: ('peer', key) | ('own', 'self.preferred_x') |
    ('own+serverkeys', ..) | ('other', text)."""
    alts = fl.expand(expr, at, depth=4)
    out = set()
    for a in alts:
        t = unparse(a)
        idx = M.index_of(a)
        if idx and M.is_call(idx[0], name="self._really_parse_kex_init") and isinstance(idx[1], ast.Constant):
            out.add(("peer", idx[1].value))
            continue
        if t.startswith("self.preferred_") and isinstance(a, ast.Attribute):
            out.add(("own", t))
            continue
        sel = selection(a)
        if sel is not None:
            it, mem = unparse(sel[0]), unparse(sel[1])
            if it == "self.preferred_keys" and mem in ("list(self.server_key_dict.keys())", "self.server_key_dict",
                                                        "self.server_key_dict.keys()"):
                out.add(("own+serverkeys", "self.preferred_keys"))
                continue
        out.add(("other", t[:80]))
    return out


def run(prog, chk):
    fold = Folder(prog)
    chk.explanation = (
        "Decided structurally for every category x role: the list iterated by the 'first common "
        "element' selection is the client's and the membership list the server's; the right "
        "direction field of the peer's KEXINIT is used; the local operand is a preferred_* property "
        "(which filters disabled_algorithms; the server's host-key list is also intersected with "
        "the keys it holds); IncompatiblePeer exactly on an empty agreement; pseudo-algorithms are "
        "stripped before selection and never stored in the tables; KEXINIT writer/reader field order "
        "is RFC 4253 section 7.1. Covers all list contents because the rule is about which list is iterated.")
    chk.assumptions = ["list(filter(A.__contains__, B)) / [x for x in B if x in A] keep B's order"]
    pk = prog.func("Transport._parse_kex_init")
    found = 0
    for role, sm in (("server", True), ("client", False)):
        fl = Flow(prog, pk, env={"self.server_mode": sm})
        for field, (own, key_s, key_c) in sorted(MATRIX.items()):
            peer_key = key_s if sm else key_c
            ws = fl.nodes(lambda n: n.kind == "stmt" and isinstance(n.ast, ast.Assign)
                          and unparse(n.ast.targets[0]) == "self." + field)
            if len(ws) != 1:
                raise AnalysisError("Transport._parse_kex_init", "expected one assignment to self.%s, found %d" % (field, len(ws)))
            w = ws[0]
            # the agreed list variable: X in X[0]
            subs = [x for x in ast.walk(w.ast.value) if isinstance(x, ast.Subscript)
                    and isinstance(x.slice, ast.Constant) and x.slice.value == 0 and isinstance(x.value, ast.Name)]
            if len(subs) != 1:
                raise AnalysisError("Transport._parse_kex_init", "self.%s is not taken from <list>[0]" % field)
            lst = subs[0].value.id
            ds = fl.defs(lst, w)
            ok = len(ds) == 1 and ds[0][1] is not None
            detail = ""
            if ok:
                sel = selection(ds[0][1])
                if sel is None:
                    raise AnalysisError("C05:selection idiom", "%s = %s" % (lst, unparse(ds[0][1])[:100]))
                it = classify(fl, sel[0], ds[0][0])
                mem = classify(fl, sel[1], ds[0][0])
                own_kind = ("own+serverkeys", own) if (sm and field == "host_key_type") else ("own", own)
                if sm:
                    want_it, want_mem = set([("peer", peer_key)]), set([own_kind])
                else:
                    want_it, want_mem = set([own_kind]), set([("peer", peer_key)])
                ok = it == want_it and mem == want_mem
                detail = "iterates %s, membership in %s (want %s / %s)" % (sorted(it), sorted(mem), sorted(want_it), sorted(want_mem))
                found += 1
            chk.ob("R1.selection", "%s:%s" % (role, field), ok, fl.where(w), detail)
            # R4: X[0] is dominated by the non-empty arm of len(X) == 0
            def is_empty_test(t, lst=lst):
                return unparse(t) in ("len(%s) == 0" % lst, "not %s" % lst, "len(%s) < 1" % lst, "%s == []" % lst)
            g = fl.edge_guard(is_empty_test, "F")
            ok = fl.dominated([w], guard_edge=g)
            conds = fl.nodes(lambda n: n.kind == "cond" and is_empty_test(n.ast))
            for c in conds:
                tsucc = [d for (d, lab) in fl.cfg.succ[c.id] if lab == "T"]
                r = fl.cfg.reach(tsucc, avoid_edge=fl.avoid)
                raises = [n for n in fl.cfg.nodes if n.id in r and n.kind == "raise" and
                          isinstance(n.ast, ast.Raise) and n.ast.exc is not None and "IncompatiblePeer" in unparse(n.ast.exc)]
                ok = ok and fl.cfg.exit.id not in r and bool(raises) and w.id not in r
            chk.ob("R4.empty-guard", "%s:%s" % (role, field), ok and bool(conds), fl.where(w),
                   "%s[0] only after len(%s) == 0 -> raise IncompatiblePeer" % (lst, lst))
    chk.floor("R1", "selections", found, 16)

    # R4b: every raise IncompatiblePeer is guarded by an emptiness test (one reasoned exception)
    fl = Flow(prog, pk)
    for n in fl.nodes(lambda n: n.kind == "raise" and isinstance(n.ast, ast.Raise) and n.ast.exc is not None
                      and "IncompatiblePeer" in unparse(n.ast.exc)):
        def emp(t):
            u = unparse(t)
            return u.startswith("len(agreed_") and u.endswith(") == 0")
        ok = fl.dominated([n], guard_edge=fl.edge_guard(emp, "T"))
        if not ok:
            # defensive: server_mode and get_server_key() is None (unreachable: the type is a key of server_key_dict)
            ok = fl.dominated([n], guard_edge=fl.edge_guard(lambda t: unparse(t) == "self.get_server_key() is None", "T"))
        chk.ob("R4.raise-only-on-empty", "raise@%s" % unparse(n.ast.exc)[:70], ok, fl.where(n),
               "raised only when an agreement list is empty")

    # R2: KEXINIT reader / writer order -----------------------------------------------------
    rp = prog.func("Transport._really_parse_kex_init")
    keys = []
    for st in rp.node.body:
        if isinstance(st, ast.Assign) and isinstance(st.targets[0], ast.Subscript) and \
                M.is_call(st.value, attr="get_list") and isinstance(st.targets[0].slice, ast.Constant):
            keys.append(st.targets[0].slice.value)
    chk.ob("R2.reader-order", "_really_parse_kex_init", keys == RFC_ORDER, rp.loc, "name-lists stored as %s" % keys)
    ex = Extractor()
    par = rp.params()[1]
    seqs = set(tuple(k for (k, _) in reads(ev, par)) for (ev, kind) in ex.function(rp.node))
    want1 = ("bytes",) + ("list",) * 10 + ("boolean", "uint32")
    chk.ob("R2.reader-layout", "_really_parse_kex_init", seqs == set([want1, ("byte",) + want1]), rp.loc,
           "reads %s" % sorted(seqs))
    sk = prog.func("Transport._send_kex_init")
    lay = set()
    for (ev, kind) in ex.function(sk.node):
        for m in split_messages(ev):
            lay.add(tuple(m["fields"]))
    wantw = [("byte", "cMSG_KEXINIT"), ("bytes", "os.urandom(16)"), ("list", "kex_algos"), ("list", "available_server_keys"),
             ("list", "self.preferred_ciphers"), ("list", "self.preferred_ciphers"), ("list", "self.preferred_macs"),
             ("list", "self.preferred_macs"), ("list", "self.preferred_compression"), ("list", "self.preferred_compression"),
             ("string", "bytes()"), ("string", "bytes()"), ("boolean", "False"), ("uint32", "0")]
    chk.ob("R2.writer-layout", "_send_kex_init", lay == set([tuple(wantw)]), sk.loc, "writes %s" % sorted(lay)[:1])
    # what the writer advertises is the same lists the selection uses
    for role, sm in (("server", True), ("client", False)):
        fl = Flow(prog, sk, env={"self.server_mode": sm})
        adds = [(n, c) for (n, c) in fl.nodes_with_call(attr="add_list")]
        if len(adds) != 8:
            raise AnalysisError("Transport._send_kex_init", "expected 8 add_list calls")
        k = classify(fl, adds[1][1].args[0], adds[1][0])
        want = set([("own+serverkeys", "self.preferred_keys")]) if sm else set([("own", "self.preferred_keys")])
        chk.ob("R3.advertised-hostkeys", role, k == want, fl.where(adds[1][0]), "advertises %s" % sorted(k))
        # kex list: a *copy* of preferred_kex plus markers
        kd = fl.defs("kex_algos", adds[0][0])
        roots = [unparse(r) for (d, r) in kd if r is not None]
        chk.ob("R5.kex-copy", role, roots == ["list(self.preferred_kex)"], fl.where(adds[0][0]),
               "kex_algos <- %s (a copy; markers are appended to the copy only)" % roots)

    # R3: preferred_* properties filter the disabled algorithms ---------------------------------
    T = prog.cls("Transport")
    for prop, typ in (("preferred_ciphers", "ciphers"), ("preferred_macs", "macs"), ("preferred_kex", "kex"),
                      ("preferred_compression", "compression"), ("preferred_pubkeys", "pubkeys")):
        f = prog.func("Transport." + prop)
        body = [s for s in f.node.body if not (isinstance(s, ast.Expr) and isinstance(s.value, ast.Constant))]
        ok = len(body) == 1 and isinstance(body[0], ast.Return) and unparse(body[0].value) == "self._filter_algorithm('%s')" % typ
        isprop = any(unparse(d) == "property" for d in f.node.decorator_list)
        chk.ob("R3.preferred-filters", prop, ok and isprop, f.loc, "returns _filter_algorithm(%r)" % typ)
    f = prog.func("Transport.preferred_keys")
    fl = Flow(prog, f)
    rets = fl.nodes(lambda n: n.kind == "return")
    ok = len(rets) == 1
    if ok:
        alts = fl.expand_text(rets[0].ast.value, rets[0])
        ok = alts == ["tuple(self._filter_algorithm('keys') + tuple(('{}-cert-v01@openssh.com'.format(x) for x in self._filter_algorithm('keys'))))"]
        chk.note("preferred_keys returns %s" % alts)
    chk.ob("R3.preferred-filters", "preferred_keys", ok, f.loc, "built only from _filter_algorithm('keys')")
    f = prog.func("Transport._filter_algorithm")
    fl = Flow(prog, f)
    rets = fl.nodes(lambda n: n.kind == "return")
    ok = len(rets) == 1
    if ok:
        par = f.params()[1]
        alts = fl.expand(rets[0].ast.value, rets[0])
        ok = False
        for a in alts:
            sel = None
            inner = a.args[0] if M.is_call(a, name="tuple") and a.args else a
            if isinstance(inner, (ast.GeneratorExp, ast.ListComp)) and len(inner.generators) == 1:
                g = inner.generators[0]
                if len(g.ifs) == 1 and isinstance(inner.elt, ast.Name) and inner.elt.id == unparse(g.target):
                    cp = M.compare_parts(g.ifs[0])
                    if cp and cp[1] is ast.NotIn and unparse(cp[0]) == inner.elt.id and \
                            unparse(cp[2]) in ("self.disabled_algorithms.get(%s, [])" % par, "self.disabled_algorithms.get(%s, ())" % par) and \
                            unparse(g.iter) in ("getattr(self, '_preferred_{}'.format(%s))" % par, "getattr(self, '_preferred_' + %s)" % par):
                        ok = True
    chk.ob("R3.filter-removes-disabled", "_filter_algorithm", ok, f.loc, "keeps default order, drops disabled_algorithms[type]")

    # R5: pseudo-algorithms -----------------------------------------------------------------------
    tenv = fold.class_env("Transport")
    tpath = T.module.path
    bad = [k for k in tenv.get("_kex_info", {}) if k.startswith("ext-info-") or k.startswith("kex-strict-")]
    for nm in ("_preferred_kex", "_preferred_gsskex"):
        bad += [k for k in tenv.get(nm, ()) if k.startswith("ext-info-") or k.startswith("kex-strict-")]
    chk.ob("R5.no-pseudo-in-tables", "_kex_info/_preferred_kex", not bad, tpath, "pseudo-algorithms in tables: %s" % bad)
    fl = Flow(prog, pk)
    # the strip loop: every algo starting with ext-info- / kex-strict- is queued for pop, and popped before selection
    pops = [n for (n, c) in fl.nodes_with_call(name="kex_algo_list.pop")]
    kexsel = fl.nodes(lambda n: n.kind == "stmt" and isinstance(n.ast, ast.Assign) and unparse(n.ast.targets[0]) == "agreed_kex")
    ok = len(pops) == 1 and bool(kexsel)
    if ok:
        # selection happens after the pop loop has finished: the pop loop head's exhausted edge dominates it
        loop = [n for n in fl.nodes(lambda n: n.kind == "for_iter" and unparse(n.ast.iter) == "to_pop")]
        ok = len(loop) == 1 and fl.dominated(kexsel, guard_edge=lambda s, lab, d: s == loop[0].id and lab == "F")
    chk.ob("R5.strip-before-select", "_parse_kex_init", ok, pk.loc, "markers popped from kex_algo_list before agreed_kex is computed")
    marks = {}
    for n in fl.nodes(lambda n: n.kind == "cond" and M.is_call(n.ast, attr="startswith") and unparse(n.ast.func.value) == "algo"):
        pref = n.ast.args[0].value if n.ast.args and isinstance(n.ast.args[0], ast.Constant) else None
        tsucc = [d for (d, lab) in fl.cfg.succ[n.id] if lab == "T"]
        # on the T arm, to_pop.insert(0, i) happens before the next iteration
        ins = [x for (x, c) in fl.nodes_with_call(name="to_pop.insert")]
        heads = [h.id for h in fl.nodes(lambda h: h.kind == "for_iter" and unparse(h.ast.iter).startswith("enumerate(kex_algo_list"))]
        marks[pref] = bool(heads) and fl.cfg.dominated(heads, guard_nodes=[x.id for x in ins], start=tsucc)
    chk.ob("R5.markers-queued", "ext-info-/kex-strict-", marks.get("ext-info-") is True and marks.get("kex-strict-") is True,
           pk.loc, "every marker is queued for removal: %s" % marks)
    # _preferred_kex is never assigned a list containing markers; appended only to the copy
    for (st, t, val) in attr_writes(sk.node):
        if t.attr.startswith("_preferred"):
            chk.ob("R5.no-store", "_send_kex_init:%s" % t.attr, False, sk.loc, "stores into %s" % t.attr)
    apps = [c for c in walk_no_defs(sk.node) if M.is_call(c, attr="append")]
    ok = all(unparse(c.func.value) == "kex_algos" for c in apps)
    chk.ob("R5.append-to-copy", "_send_kex_init", ok and len(apps) >= 2, sk.loc, "%d marker append(s), all on the local copy" % len(apps))
    # ---- R6 what is advertised is what the selection will use -------------------------------------------------
    # Every name-list written into KEXINIT is (a copy of) a preferred_* property.  _parse_kex_init selects with the same
    # properties, evaluated later.  So nothing in _send_kex_init may change those properties (set_security_options ...,
    # writes to _preferred_*) on a path *after* the advertised value was read: the peer would choose from a list the
    # local side no longer honours.
    fs = Flow(prog, sk, implicit=False)
    preads = []      # (node where the advertised value is read, property text)
    for (n, c) in fs.nodes_with_call(attr="add_list"):
        a = c.args[0] if c.args else None
        if a is None:
            continue
        for x in walk_no_defs(a):
            if isinstance(x, ast.Attribute) and unparse(x).startswith("self.preferred_"):
                preads.append((n, unparse(x)))
        if isinstance(a, ast.Name):
            for (dn, rhs) in fs.defs(a.id, n):
                if rhs is None:
                    continue
                for x in walk_no_defs(rhs):
                    if isinstance(x, ast.Attribute) and unparse(x).startswith("self.preferred_"):
                        preads.append((dn, unparse(x)))
    writers = []
    for n in fs.nodes(lambda n: n.kind == "stmt"):
        a = n.ast
        if isinstance(a, ast.Assign):
            for t in a.targets:
                if isinstance(t, ast.Attribute) and (unparse(t.value) in ("self.get_security_options()",) or unparse(t).startswith("self._preferred")):
                    writers.append((n, unparse(t)))
    chk.floor("R6", "reads of preferred_* in _send_kex_init", len(preads), 6)
    prop_of = {"kex": "self.preferred_kex", "ciphers": "self.preferred_ciphers", "digests": "self.preferred_macs", "key_types": "self.preferred_keys",
               "compression": "self.preferred_compression"}
    bad = []
    for (wn, wt) in writers:
        attr = wt.split(".")[-1].replace("_preferred_", "")
        target_prop = prop_of.get(attr, "self.preferred_" + attr)
        for (rn, rt) in preads:
            if rt != target_prop:
                continue
            if rn.id != wn.id and wn.id in fs.cfg.reach([rn.id], avoid_edge=fs.avoid):
                bad.append("%s is read at %s and %s is assigned later at %s" % (rt, fs.where(rn), wt, fs.where(wn)))
    chk.ob("R6.advertised-list-is-the-list-used", "_send_kex_init", not bad, sk.loc,
           "%d write(s) to the security options in this function; %s" % (len(writers), "; ".join(bad) if bad else
                                                                           "none follows a read of the property it changes"))
