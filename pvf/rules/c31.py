"""C31 - SFTP attribute changes have their local-filesystem meaning."""
import ast
from ..core.model import AnalysisError, unparse, dotted, walk_no_defs
from ..core.flow import Flow, node_calls
from ..core import match as M

# flag -> (os call, expected argument texts after the filename)
TABLE = {
    "FLAG_PERMISSIONS": ("os.chmod", ["attr.st_mode"]),
    "FLAG_UIDGID": ("os.chown", ["attr.st_uid", "attr.st_gid"]),
    "FLAG_AMTIME": ("os.utime", ["(attr.st_atime, attr.st_mtime)"]),
}
CLIENT = {"chmod": {"st_mode": "mode"}, "chown": {"st_uid": "uid", "st_gid": "gid"},
          "utime": {"st_atime": "times[0]", "st_mtime": "times[1]"}, "truncate": {"st_size": "size"}}
NON_TRUNCATING = ("r+", "rb+", "r+b", "a", "ab", "a+", "ab+", "a+b")


def flag_test(t, an):
    if isinstance(t, ast.BinOp) and isinstance(t.op, ast.BitAnd):
        for a, b in ((t.left, t.right), (t.right, t.left)):
            if unparse(a) == "%s._flags" % an and unparse(b).startswith("%s.FLAG_" % an):
                return unparse(b).split(".")[-1]
    return None


def run(prog, chk):
    chk.explanation = (
        "Decided structurally: (R1) in SFTPServer.set_file_attr each of chmod/chown/utime/truncate is called "
        "under a test of exactly its flag, with exactly the matching attribute fields in the right order and "
        "unmodified (no masking of the mode); (R2) the size arm preserves content: os.truncate, or a file "
        "opened in a mode that does not truncate on open before f.truncate(size) - a 'w' mode empties the file "
        "first, so shrinking zero-fills and growing loses everything; (R3) each of SFTPClient / SFTPFile "
        "chmod, chown, utime, truncate sets exactly the matching attribute fields from its arguments and sends "
        "SETSTAT(path adjusted for the cwd, attr) / FSETSTAT(handle, attr); the server's SETSTAT/FSETSTAT arms "
        "hand path/handle and the decoded attributes to chattr. Not decided: the OS calls' own semantics.")
    chk.assumptions = ["attributes arrive as sent (C33)"]
    sf = prog.func("SFTPServer.set_file_attr")
    fn, an = sf.params()[0], sf.params()[1]
    fl = Flow(prog, sf, env={"sys.platform != 'win32'": True})
    for flag, (call, argtexts) in sorted(TABLE.items()):
        argtexts = [a.replace("attr.", an + ".") for a in argtexts]
        sites = [(n, c) for (n, c) in fl.nodes_with_call(name=call)]
        ok = len(sites) == 1
        detail = "%d %s call(s)" % (len(sites), call)
        if ok:
            n, c = sites[0]
            args = [unparse(a) for a in c.args]
            ok = args == [fn] + argtexts and not c.keywords
            g = fl.edge_guard(lambda t, flag=flag: flag_test(t, an) == flag, "T")
            ok = ok and fl.dominated([n], guard_edge=g)
            # and when the flag is set the call happens
            f2 = Flow(prog, sf, env={"sys.platform != 'win32'": True, "%s._flags & %s.%s" % (an, an, flag): True})
            s2 = [x for (x, k) in f2.nodes_with_call(name=call)]
            ok = ok and bool(s2) and f2.exit_dominated(guard_nodes=s2)
            detail = "%s(%s) under %s" % (call, ", ".join(args), flag)
        chk.ob("R1.flag-call-fields", flag, ok, sf.loc, detail)
    # size
    f3 = Flow(prog, sf, env={"%s._flags & %s.FLAG_SIZE" % (an, an): True})
    trs = [(n, c) for (n, c) in f3.nodes_with_call(attr="truncate")]
    ok = len(trs) == 1
    detail = "%d truncate call(s)" % len(trs)
    if ok:
        n, c = trs[0]
        g = fl.edge_guard(lambda t: flag_test(t, an) == "FLAG_SIZE", "T")
        n_all = [x for (x, k) in fl.nodes_with_call(attr="truncate")]
        under = bool(n_all) and fl.dominated(n_all, guard_edge=g)
        if dotted(c.func) == "os.truncate":
            ok = [unparse(a) for a in c.args] == [fn, "%s.st_size" % an] and under
            detail = "os.truncate(%s)" % ", ".join(unparse(a) for a in c.args)
            chk.ob("R2.size-preserves-content", "set_file_attr", ok, sf.loc, detail)
        else:
            ok = [unparse(a) for a in c.args] == ["%s.st_size" % an] and under and f3.exit_dominated(guard_nodes=[n])
            chk.ob("R1.flag-call-fields", "FLAG_SIZE", ok, sf.loc, "%s under FLAG_SIZE" % unparse(c))
            opens = [k for (x, k) in f3.nodes_with_call(name="open")]
            mode = None
            okm = len(opens) == 1
            if okm:
                m = M.arg(opens[0], 1, "mode")
                mode = m.value if isinstance(m, ast.Constant) else None
                okm = unparse(opens[0].args[0]) == fn and mode in NON_TRUNCATING
                # the file object truncated is the one opened
                recv = unparse(c.func.value)
                w = [x for x in f3.nodes(lambda x: x.kind == "with_enter" and x.ast.optional_vars is not None and unparse(x.ast.optional_vars) == recv)]
                okm = okm and bool(w)
            chk.ob("R2.size-preserves-content", "set_file_attr", okm, sf.loc,
                   "file opened with mode %r before truncate (%s)" % (mode, "does not truncate on open" if okm else
                   "a mode that empties the file on open destroys its content before resizing"))
    else:
        chk.ob("R1.flag-call-fields", "FLAG_SIZE", False, sf.loc, detail)

    # R3 client side ---------------------------------------------------------------------------
    n3 = 0
    for cn, cmd, target in (("SFTPClient", "CMD_SETSTAT", "path"), ("SFTPFile", "CMD_FSETSTAT", "self.handle")):
        for mn, fields in sorted(CLIENT.items()):
            f = prog.func("%s.%s" % (cn, mn))
            ff = Flow(prog, f, implicit=False)
            n3 += 1
            reqs = [(n, c) for (n, c) in ff.nodes_with_call(attr="_request")]
            ok = len(reqs) == 1
            detail = ""
            if ok:
                n, c = reqs[0]
                args = [unparse(a) for a in c.args]
                ok = len(args) == 3 and args[0] == cmd and args[1] == target and ff.exit_dominated(guard_nodes=[n])
                av = args[2] if len(args) == 3 else "?"
                # attribute object fresh, fields set exactly
                ad = ff.defs(av, n)
                ok = ok and len(ad) == 1 and unparse(ad[0][1]) == "SFTPAttributes()"
                setf = {}
                for x in ff.nodes(lambda x: x.kind == "stmt" and isinstance(x.ast, ast.Assign)):
                    tg = x.ast.targets[0]
                    if isinstance(tg, ast.Attribute) and unparse(tg.value) == av:
                        setf[tg.attr] = unparse(x.ast.value)
                    elif isinstance(tg, ast.Tuple) and all(isinstance(e, ast.Attribute) and unparse(e.value) == av for e in tg.elts):
                        v = x.ast.value
                        for i, e in enumerate(tg.elts):
                            if isinstance(v, ast.Tuple) and len(v.elts) == len(tg.elts):
                                setf[e.attr] = unparse(v.elts[i])
                            else:
                                setf[e.attr] = "%s[%d]" % (unparse(v), i)
                ok = ok and setf == fields
                detail = "%s(%s) with %s" % (cmd, target, setf)
                if cn == "SFTPClient" and ok:
                    pd = ff.defs("path", n)
                    ok = len(pd) == 1 and unparse(pd[0][1]) == "self._adjust_cwd(path)"
                    detail += " ; path <- _adjust_cwd(path): %s" % ok
            chk.ob("R3.client-sets-matching-fields", "%s.%s" % (cn, mn), ok, f.loc, detail)
    chk.floor("R3", "client attribute setters", n3, 8)
    pr = prog.func("SFTPServer._process")
    for cmd, call, first in (("CMD_SETSTAT", "self.server.chattr", "path"), ("CMD_FSETSTAT", "chattr", "handle")):
        env = {}
        for x in ast.walk(pr.node):
            if isinstance(x, ast.Compare) and unparse(x.left) == "t" and unparse(x).startswith("t == CMD_"):
                env[unparse(x)] = (unparse(x) == "t == %s" % cmd)
        fpr = Flow(prog, pr, env=env, implicit=False)
        cs = [(n, c) for (n, c) in fpr.nodes_with_call(attr="chattr")]
        ok = len(cs) == 1
        if ok:
            n, c = cs[0]
            a = [unparse(x) for x in c.args]
            ad = fpr.defs("attr", n)
            ok = a[-1] == "attr" and len(ad) == 1 and unparse(ad[0][1]) == "SFTPAttributes._from_msg(msg)"
            if cmd == "CMD_SETSTAT":
                ok = ok and a == ["path", "attr"] and unparse(c.func.value) == "self.server"
            else:
                ok = ok and a == ["attr"] and unparse(c.func.value) == "self.file_table[handle]"
        chk.ob("R3.server-hands-attrs-to-chattr", cmd, ok, pr.loc, "decoded attributes reach chattr for the named path/handle")
