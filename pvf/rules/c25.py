"""C25 - sendall either delivers all data or raises."""
import ast
from ..core.model import AnalysisError, unparse, dotted, walk_no_defs
from ..core.flow import Flow, node_calls
from ..core.bounds import facts
from ..core import match as M


def zero_return_possible(prog):
    """Can Channel._send return 0?  (inter-procedural fact used by the loop rule)"""
    f = prog.func("Channel._send")
    fl = Flow(prog, f, implicit=False)
    rets = fl.nodes(lambda n: n.kind == "return")
    return any(isinstance(r.ast.value, ast.Constant) and r.ast.value.value == 0 for r in rets), f


def run(prog, chk):
    chk.explanation = (
        "Decided structurally (loop-progress rule): Channel._send can return 0 (closed / shut down for "
        "writing - established from its own return statements), so each `while s: sent = self.send*(s); "
        "s = s[sent:]` loop must leave by raising when the call returns 0, otherwise it never terminates; the "
        "cursor must advance by exactly the count returned; the loop runs until nothing is left; _send raises "
        "when closed and _wait_for_send_window raises socket.timeout in the non-blocking and timed arms.")
    chk.assumptions = ["a positive return of send() is the number of bytes handed to the transport (C19-R1/R2)"]
    zero, sf = zero_return_possible(prog)
    chk.note("Channel._send may return 0: %s" % zero)
    for nm, callee in (("sendall", "self.send"), ("sendall_stderr", "self.send_stderr")):
        f = prog.func("Channel." + nm)
        fl = Flow(prog, f, implicit=False)
        sp = f.params()[1]
        calls = [(n, c) for (n, c) in fl.nodes_with_call(name=callee)]
        heads = [n for n in fl.cfg.nodes if n.kind == "loop_head"]
        if len(calls) != 1 or len(heads) != 1:
            raise AnalysisError("Channel." + nm, "expected one loop with one %s call" % callee)
        cn, cc = calls[0]
        sent = unparse(cn.ast.targets[0]) if isinstance(cn.ast, ast.Assign) else None
        # loop condition: until nothing is left
        test = unparse(heads[0].ast.test)
        chk.ob("R1.loop-until-empty", nm, test in (sp, "len(%s) > 0" % sp, "%s != b''" % sp) and unparse(cc.args[0]) == sp, f.loc,
               "while %s: ... %s(%s)" % (test, callee, unparse(cc.args[0])))
        # cursor agreement
        adv = fl.nodes(lambda n: n.kind == "stmt" and isinstance(n.ast, ast.Assign) and unparse(n.ast.targets[0]) == sp)
        ok = sent is not None and len(adv) == 1
        if ok:
            sl = M.slice_of(adv[0].ast.value)
            ok = bool(sl and unparse(sl[0]) == sp and sl[1] == sent and sl[2] is None)
            ok = ok and [d[0].id for d in fl.defs(sent, adv[0])] == [cn.id]
        chk.ob("R1.cursor-advances-by-count-sent", nm, ok, f.loc, "s = s[sent:] with sent the value just returned")
        # progress: a zero return must leave the loop (raise)
        succ = [d for (d, l) in fl.cfg.succ[cn.id]]

        def nonzero_edge(s, lab, d):
            n = fl.cfg.nodes[s]
            if n.kind != "cond" or sent is None:
                return False
            t = unparse(n.ast)
            if t in ("%s == 0" % sent, "not %s" % sent, "%s <= 0" % sent, "%s < 1" % sent):
                return lab == "F"
            if t in (sent, "%s > 0" % sent, "%s != 0" % sent, "%s >= 1" % sent):
                return lab == "T"
            return False

        ok = (not zero) or fl.cfg.dominated([heads[0].id, fl.cfg.exit.id], guard_edge=nonzero_edge, start=succ)
        chk.ob("R1.zero-return-leaves-loop", nm, ok, fl.where(cn),
               "a 0 from %s() (channel closed / shut down for writing) %s" % (
                   callee, "raises" if ok else "goes round the loop again with the same data: sendall never returns"))
        # normal exit only when everything was sent
        ok = fl.exit_dominated(guard_edge=lambda s, lab, d: s in [x.id for x in fl.nodes(lambda n: n.kind == "cond" and unparse(n.ast) == test)] and lab == "F")
        chk.ob("R1.returns-only-when-done", nm, ok, f.loc, "the only normal exit is the loop test failing (nothing left)")
    # R2 -----------------------------------------------------------------------------------
    fl = Flow(prog, sf, implicit=False)
    g = fl.edge_guard(lambda t: unparse(t) == "self.closed", "T")
    rs = fl.nodes(lambda n: n.kind == "raise")
    chk.ob("R2.send-raises-when-closed", "_send", bool(rs) and any(fl.dominated([r], guard_edge=g) for r in rs), sf.loc, "closed => raise socket.error")
    wf = prog.func("Channel._wait_for_send_window")
    fw = Flow(prog, wf, implicit=False)
    rs = fw.nodes(lambda n: n.kind == "raise" and isinstance(n.ast, ast.Raise) and n.ast.exc is not None and "socket.timeout" in unparse(n.ast.exc))
    nb = any(fw.dominated([r], guard_edge=fw.edge_guard(lambda t: unparse(t) in ("self.timeout == 0.0", "self.timeout == 0"), "T")) for r in rs)
    td = any(fw.dominated([r], guard_edge=fw.edge_guard(lambda t: unparse(t) in ("timeout <= 0.0", "timeout <= 0"), "T")) for r in rs)
    chk.ob("R2.timeouts-raise", "_wait_for_send_window", nb and td and len(rs) >= 2, wf.loc, "non-blocking and timed waits raise socket.timeout")
    # R3: what sendall's guarantee rests on in the waiting sender (rules shared with C22 / C20)
    from ._shared import check_retest_after_wakeup, check_adjust_wakes_all
    check_retest_after_wakeup(prog, chk, "R3")
    check_adjust_wakes_all(prog, chk, "R3.adjust-wakes-all-senders")
    # a send that waits for a stalled re-key must give up (raise) after clear_to_send_timeout: the deadline rule of C13
    from .c13 import _deadlines_are_loop_invariant
    _deadlines_are_loop_invariant(prog, chk)
    # R4: shutdown(how) - 1 and 2 end writing (EOF built under the lock and sent), 0 and 2 end reading; evaluated from the AST
    from ..core.interp import Interp, Obj, Refuse
    sh = prog.func("Channel.shutdown")
    ps = sh.params()
    bad = None
    for how in (0, 1, 2):
        log = []
        held = []
        lock = Obj(acquire=lambda: held.append(1), release=lambda: held.pop())
        tr = Obj(_send_user_message=lambda m_: log.append(("sent", m_, bool(held))))

        def send_eof(log=log, held=held):
            log.append(("eof-built", bool(held)))
            return "EOFMSG"
        selfo = Obj(lock=lock, transport=tr, eof_received=0, _send_eof=send_eof)
        it = Interp(intrinsics={}, arith=False)
        try:
            kind, val = it.call_function(sh.node, {ps[0]: selfo, ps[1]: how})
        except Refuse as e:
            raise AnalysisError("Channel.shutdown", "not evaluable: %s" % (e,))
        wrote = ("eof-built", True) in log and ("sent", "EOFMSG", False) in log
        nothing = not log
        read_end = bool(getattr(selfo, "eof_received", 0))
        good = kind == "return" and (wrote if how in (1, 2) else nothing) and (read_end == (how in (0, 2))) and not held
        if not good and bad is None:
            bad = "shutdown(%d): %s, events %s, eof_received=%r" % (how, kind, log, getattr(selfo, "eof_received", None))
    chk.ob("R4.shutdown-how-table", "Channel.shutdown", bad is None, sh.loc,
           "how = 0, 1, 2 evaluated: EOF built under the lock and sent outside it for 1 and 2, reading ended for 0 and 2%s" % ("" if bad is None else "; first failing: " + bad))

