"""E1b - call graph over resolved callees, with a small frozen receiver-type
table (catalog/receivers.py) and the dispatch tables as first-class edges."""
import ast
from .model import AnalysisError, unparse, dotted, walk_no_defs

# receiver expression (as written inside a class) -> class of the object.
# One reason per row; the assignment each row relies on is checked by
# `verify_receivers`.
RECEIVERS = {
    # (owner class or None for any, receiver text): target class
    (None, "self.transport"): "Transport",      # AuthHandler/Channel/Kex*: constructor/_set_transport store the Transport
    (None, "self._transport"): "Transport",     # SecurityOptions, SSHClient
    ("Transport", "self.packetizer"): "Packetizer",  # Transport.__init__: self.packetizer = self.packetizer_class(sock)
    ("Transport", "self.auth_handler"): "AuthHandler",  # created by AuthHandler(self)/get_auth_handler()
    ("Transport", "self.kex_engine"): "<kex>",   # one of the classes in _kex_info
    ("Transport", "chan"): "Channel",
    ("Transport", "channel"): "Channel",
    ("ChannelFile", "self.channel"): "Channel",
    ("SFTPClient", "self.sock"): "Channel",
    (None, "self._delegate"): "AuthHandler",     # GssapiWithMicAuthHandler delegates to the real handler
}


class CallGraph(object):
    def __init__(self, prog, kex_classes=()):
        self.prog = prog
        self.kex = list(kex_classes)
        self.edges = {}      # qual -> set(qual)
        self.funcs = {}      # qual -> FuncInfo
        self.unresolved = {}  # qual -> [(receiver text, method)]
        for f in prog.all_functions():
            self.funcs.setdefault(f.qual, f)
        for f in list(self.funcs.values()):
            self.edges[f.qual] = set()
            self._scan(f)

    def _targets(self, f, call):
        fn = call.func
        out = []
        if isinstance(fn, ast.Name):
            # module-level function or class constructor
            m = f.module
            cand = self.prog.func("%s.%s" % (m.name, fn.id), required=False)
            if cand is not None:
                out.append(cand.qual)
            elif fn.id in self.prog.classes:
                init = self.prog.method(fn.id, "__init__", required=False)
                if init is not None:
                    out.append(init.qual)
            elif fn.id in m.imports:
                src, orig = m.imports[fn.id]
                if src.startswith("paramiko.") and orig:
                    cand = self.prog.func("%s.%s" % (src.split(".", 1)[1], orig), required=False)
                    if cand is not None:
                        out.append(cand.qual)
            return out, None
        if not isinstance(fn, ast.Attribute):
            return out, None
        recv = unparse(fn.value)
        meth = fn.attr
        cls = f.cls.name if f.cls is not None else None
        if recv == "self" and cls:
            t = self.prog.method(cls, meth, required=False)
            if t is not None:
                out.append(t.qual)
                # virtual dispatch to overriding subclasses
                for sub in self.prog.subclasses(cls):
                    if meth in sub.methods:
                        out.append(sub.methods[meth].qual)
            return out, None
        if recv.startswith("super("):
            if cls:
                for k in self.prog.mro(cls)[1:]:
                    if meth in k.methods:
                        out.append(k.methods[meth].qual)
                        break
            return out, None
        if isinstance(fn.value, ast.Name) and fn.value.id in f.module.imports and not any(fn.value.id == p_ for p_ in f.params()):
            # a function of another module of the package called through the module (`util.inflate_long(...)`)
            src, orig = f.module.imports[fn.value.id]
            modname = None
            if src in ("paramiko", "") and orig and orig in self.prog.modules:
                modname = orig
            elif src.startswith("paramiko.") and orig is None and src.split(".", 1)[1] in self.prog.modules:
                modname = src.split(".", 1)[1]
            if modname is not None:
                cand = self.prog.func("%s.%s" % (modname, meth), required=False)
                if cand is not None:
                    out.append(cand.qual)
                    return out, None
        tcls = None
        for (owner, r), target in RECEIVERS.items():
            if r == recv and (owner is None or (cls and self.prog.is_subclass(cls, owner))):
                tcls = target
        if tcls is None and isinstance(fn.value, ast.Name):
            # a local bound to a freshly constructed object of a program class (`msg = Message(sig)`), or one of the
            # conventional names of a received Message (`m`, `msg`, `message` parameters of the parse handlers)
            cons = set()
            other = False
            for st in walk_no_defs(f.node):
                if isinstance(st, ast.Assign) and any(isinstance(t_, ast.Name) and t_.id == recv for t_ in st.targets):
                    v = st.value
                    if isinstance(v, ast.Call) and isinstance(v.func, ast.Name) and v.func.id in self.prog.classes:
                        cons.add(v.func.id)
                    else:
                        other = True
            cands = sorted(cons) if cons and not other else []
            if not cands and recv in ("m", "msg", "message") and recv in f.params() and self.prog.method("Message", meth, required=False) is not None:
                cands = ["Message"]
            for k in cands:
                t = self.prog.method(k, meth, required=False)
                if t is not None:
                    out.append(t.qual)
            return out, None
        if tcls == "<kex>":
            for k in self.kex:
                t = self.prog.method(k, meth, required=False)
                if t is not None:
                    out.append(t.qual)
            return out, None
        if tcls is not None:
            t = self.prog.method(tcls, meth, required=False)
            if t is not None:
                out.append(t.qual)
                for sub in self.prog.subclasses(tcls):
                    if meth in sub.methods:
                        out.append(sub.methods[meth].qual)
                return out, None
            return out, (recv, meth, tcls)
        return out, None

    def _scan(self, f):
        for c in walk_no_defs(f.node):
            if isinstance(c, ast.Call):
                ts, miss = self._targets(f, c)
                for t in ts:
                    self.edges[f.qual].add(t)
                if miss is not None:
                    self.unresolved.setdefault(f.qual, []).append(miss)
        # nested defs (callbacks defined inline) are attributed to the function
        for n in ast.walk(f.node):
            if isinstance(n, (ast.FunctionDef, ast.Lambda)) and n is not f.node:
                for c in ast.walk(n):
                    if isinstance(c, ast.Call):
                        ts, miss = self._targets(f, c)
                        for t in ts:
                            self.edges[f.qual].add(t)

    def add_edge(self, a, b):
        self.edges.setdefault(a, set()).add(b)

    def closure(self, roots):
        seen = set()
        todo = list(roots)
        while todo:
            q = todo.pop()
            if q in seen:
                continue
            seen.add(q)
            for t in self.edges.get(q, ()):
                if t not in seen:
                    todo.append(t)
        return seen

    def path(self, roots, target):
        prev = {}
        todo = list(roots)
        seen = set(roots)
        while todo:
            q = todo.pop(0)
            if q == target:
                out = [q]
                while out[-1] in prev:
                    out.append(prev[out[-1]])
                return list(reversed(out))
            for t in sorted(self.edges.get(q, ())):
                if t not in seen:
                    seen.add(t)
                    prev[t] = q
                    todo.append(t)
        return None


def dict_values_as_methods(prog, node, default_cls=None):
    """For a dict literal whose values are method references (self._x,
    Class._x, _x) return the list of qualified names."""
    out = []
    if not isinstance(node, ast.Dict):
        return out
    for v in node.values:
        if isinstance(v, ast.Attribute):
            base = unparse(v.value)
            if base == "self" and default_cls:
                t = prog.method(default_cls, v.attr, required=False)
            elif base in prog.classes:
                t = prog.method(base, v.attr, required=False)
            else:
                t = None
            if t is not None:
                out.append(t.qual)
        elif isinstance(v, ast.Name) and default_cls:
            t = prog.method(default_cls, v.id, required=False)
            if t is not None:
                out.append(t.qual)
    return out
