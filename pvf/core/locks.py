"""E6 - lock regions: which locks are certainly held at each CFG node.

Idioms recognised (the ones the repository uses): ``L.acquire()`` /
``L.release()`` as statements (in any arrangement with try/finally, including
acquire-inside-try), and ``with L:``.  A forward dataflow over *sets of held
locks* is run on the CFG built with implicit exception edges; a lock is
"held at n" iff it is in every state that reaches n.  Condition variables
created as ``threading.Condition(L)`` are aliases of L (wait() gives the lock
back before it returns).
"""
import ast
from .cfg import CFG, make_exc_matcher
from .model import unparse, dotted, walk_no_defs
from .flow import Flow, node_calls


def lock_aliases(prog, clsname):
    """{'self.out_buffer_cv': 'self.lock', ...} from Condition(lock) assignments
    in the class (MRO)."""
    out = {}
    for c in prog.mro(clsname):
        for f in c.methods.values():
            for n in walk_no_defs(f.node):
                if isinstance(n, ast.Assign) and isinstance(n.value, ast.Call) and \
                        (dotted(n.value.func) or "").endswith("Condition") and n.value.args:
                    for t in n.targets:
                        out[unparse(t)] = unparse(n.value.args[0])
    return out


class LockFlow(object):
    def __init__(self, prog, finfo, aliases=None, env=None, entry_held=(), implicit=True):
        self.fl = Flow(prog, finfo, env=env, implicit=implicit)
        self.cfg = self.fl.cfg
        self.aliases = dict(aliases or {})
        if finfo.cls is not None and aliases is None:
            self.aliases = lock_aliases(prog, finfo.cls.name)
        init = frozenset(entry_held)
        self.ins, self.outs = self.cfg.forward(init, self._transfer, avoid_edge=self.fl.avoid)

    def canon(self, text):
        return self.aliases.get(text, text)

    def _op(self, node):
        """('acq'|'rel', lock) or None for this CFG node."""
        a = node.ast
        if node.kind == "with_enter":
            ce = a.context_expr
            t = unparse(ce)
            if isinstance(ce, (ast.Attribute, ast.Name)) and ("lock" in t.lower() or t in self.aliases or t.endswith("_cv")):
                return ("acq", self.canon(t))
            return None
        if node.kind == "with_exit":
            ce = a.context_expr
            t = unparse(ce)
            if isinstance(ce, (ast.Attribute, ast.Name)) and ("lock" in t.lower() or t in self.aliases or t.endswith("_cv")):
                return ("rel", self.canon(t))
            return None
        if node.kind == "stmt" and isinstance(a, ast.Expr) and isinstance(a.value, ast.Call) \
                and isinstance(a.value.func, ast.Attribute) and a.value.func.attr in ("acquire", "release"):
            t = unparse(a.value.func.value)
            return ("acq" if a.value.func.attr == "acquire" else "rel", self.canon(t))
        return None

    def _transfer(self, node, st):
        op = self._op(node)
        if op is None:
            return [st]
        if op[0] == "acq":
            return [st | frozenset([op[1]])]
        return [st - frozenset([op[1]])]

    def held_at(self, node):
        """locks certainly held when the node starts executing."""
        nid = node.id if hasattr(node, "id") else node
        sts = self.ins.get(nid) or set()
        if not sts:
            return frozenset()
        out = None
        for s in sts:
            out = s if out is None else (out & s)
        return out or frozenset()

    def holds(self, node, lock):
        return self.canon(lock) in self.held_at(node)

    def held_at_exit(self):
        """locks possibly still held at the normal / raising exits (leaks)."""
        leaks = set()
        for ex in (self.cfg.exit.id, self.cfg.raise_exit.id):
            for s in self.ins.get(ex, ()):
                leaks |= set(s)
        return leaks


def call_sites(prog, method_name, classes=None):
    """[(FuncInfo caller, call node)] for calls ``<recv>.method_name(...)``."""
    out = []
    for f in prog.all_functions():
        if classes is not None and (f.cls is None or f.cls.name not in classes):
            continue
        for c in walk_no_defs(f.node):
            if isinstance(c, ast.Call) and isinstance(c.func, ast.Attribute) and c.func.attr == method_name:
                out.append((f, c))
    return out
