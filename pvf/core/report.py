"""Verdict protocol: obligations, violations, known findings, evidence."""
import json
import os
import sys
import time

VERIF = os.path.dirname(os.path.dirname(os.path.dirname(os.path.abspath(__file__))))
EVID = os.path.join(VERIF, "evidence")
KNOWN = os.path.join(VERIF, "known_findings.json")


def load_known():
    if not os.path.exists(KNOWN):
        return {}
    with open(KNOWN) as fh:
        data = json.load(fh)
    out = {}
    for e in data.get("findings", []):
        out.setdefault(e["property"], {})[e["key"]] = e
    return out


class Check(object):
    """Collects the obligations of one property run."""

    def __init__(self, pid, tier="quick", seed=0, quiet=False):
        self.pid = pid
        self.tier = tier
        self.seed = seed
        self.quiet = quiet
        self.t0 = time.time()
        self.obligations = []  # dict(rule,key,ok,where,detail)
        self.violations = []
        self.known_hits = []
        self.floors = []
        self.analysed = {}
        self.notes = []
        self.explanation = ""
        self.rule_text = ""
        self.assumptions = []
        self.exhaustive = False
        self.extra = {}
        self.known = load_known().get(pid, {})
        self._keys = set()

    # -- recording ----------------------------------------------------------
    def ob(self, rule, key, ok, where="", detail="", fix_hint=""):
        """Record one obligation.  key identifies the rule instance by
        construct (never by line).  Returns ok."""
        full = "%s:%s" % (rule, key)
        rec = {"rule": rule, "key": full, "ok": bool(ok), "where": where,
               "detail": detail}
        self.obligations.append(rec)
        if not ok:
            ent = self.known.get(full)
            if ent is not None and ent.get("status") == "known":
                self.known_hits.append((full, where, detail, ent))
            else:
                self.violations.append(rec)
        return bool(ok)

    def floor(self, rule, what, count, minimum):
        """Instance floor: fewer matched instances than confirmed by hand is an
        analysis failure (anchor vanished), never a pass."""
        from .model import AnalysisError
        self.floors.append({"rule": rule, "what": what, "count": count,
                            "floor": minimum})
        if count < minimum:
            raise AnalysisError("%s:%s" % (rule, what),
                                "matched %d instance(s), floor is %d"
                                % (count, minimum))

    def note(self, text):
        self.notes.append(text)

    def count(self, what, n=1):
        self.analysed[what] = self.analysed.get(what, 0) + n

    # -- finishing ------------------------------------------------------------
    def finish(self):
        wall = time.time() - self.t0
        os.makedirs(EVID, exist_ok=True)
        vdir = os.path.join(EVID, "violations")
        replay_paths = []
        if self.violations:
            os.makedirs(vdir, exist_ok=True)
            for i, v in enumerate(self.violations):
                p = os.path.join(vdir, "%s-%d.json" % (self.pid, i))
                with open(p, "w") as fh:
                    json.dump({"property": self.pid, "violation": v,
                               "tier": self.tier}, fh, indent=1)
                replay_paths.append(p)
        distinct = len(set(o["key"] for o in self.obligations))
        samples = [{"key": o["key"], "where": o["where"], "ok": o["ok"],
                    "detail": o["detail"][:300]}
                   for o in self.obligations[:12]]
        # spread samples over rules
        seen_rules = set(o["rule"] for o in self.obligations[:12])
        for o in self.obligations[12:]:
            if o["rule"] not in seen_rules and len(samples) < 40:
                seen_rules.add(o["rule"])
                samples.append({"key": o["key"], "where": o["where"],
                                "ok": o["ok"], "detail": o["detail"][:300]})
        n_ob = len(self.obligations)
        n_ok = sum(1 for o in self.obligations if o["ok"])
        ev = {
            "property_id": self.pid,
            "tier": self.tier,
            "seed": int(self.seed),
            "level": "other",
            "coverage": {
                "explanation": self.explanation or "static analysis",
                "rule": self.rule_text or "one obligation per rule instance matched in the working tree; evaluations = "
                        "obligations decided + abstract cases enumerated by finite-domain sub-rules (listed under "
                        "'analysed'); distinct_nontrivial = distinct instance keys (rule:construct), each matched on a "
                        "real construct of the tree",
                # rule instances decided, plus the abstract cases enumerated by the finite-domain sub-rules
                "evaluations": max(n_ob, 1) + sum(v for k, v in self.analysed.items() if "evaluated" in k or " cases" in k),
                "distinct_nontrivial": distinct,
                "obligations": n_ob,
                "discharged": n_ok,
                "samples": samples or [{"note": "no instance matched"}],
                "exhaustive": bool(self.exhaustive),
                "analysed": self.analysed,
                "instance_floors": self.floors,
                "known_findings_reported": [k[0] for k in self.known_hits],
                "violating_instances": [v["key"] for v in self.violations],
                "notes": self.notes,
            },
            "assumptions": self.assumptions,
            "wall_s": round(wall, 3),
            "violations": len(self.violations),
        }
        ev["coverage"].update(self.extra)
        path = os.path.join(EVID, "%s.json" % self.pid)
        with open(path, "w") as fh:
            json.dump(ev, fh, indent=1, sort_keys=False)
        if not self.quiet:
            for (k, where, detail, ent) in self.known_hits:
                print("KNOWN-FINDING: property=%s %s @ %s -- %s" % (
                    self.pid, k, where, ent.get("what", detail)))
            for v, p in zip(self.violations, replay_paths):
                print("  violated %s @ %s: %s" % (v["key"], v["where"],
                                                  v["detail"]))
                print("VIOLATION property=%s replay=%s" % (self.pid, p))
            print("%s %s: %d obligations, %d discharged, %d known finding(s), "
                  "%d violation(s), %.2fs" % (
                      self.pid, self.tier, n_ob, n_ok, len(self.known_hits),
                      len(self.violations), wall))
        return 1 if self.violations else 0


def write_error_evidence(pid, tier, seed, msg, wall):
    os.makedirs(EVID, exist_ok=True)
    ev = {"property_id": pid, "tier": tier, "seed": int(seed), "level": "other",
          "coverage": {"explanation": "ANALYSIS-ERROR: " + msg,
                       "evaluations": 1, "distinct_nontrivial": 0},
          "assumptions": [], "wall_s": round(wall, 3), "violations": 0}
    with open(os.path.join(EVID, "%s.json" % pid), "w") as fh:
        json.dump(ev, fh, indent=1)
