"""E5 - guard / bound normaliser.

``facts(test, var)`` turns one comparison into what each arm establishes about
``var``: a lower bound (int) and/or an upper bound (symbol, offset) meaning
var <= symbol + offset (symbol None for a plain integer bound).
"""
import ast
from .model import unparse


def _bound(expr):
    """(symbol text or None, int offset) for  c | S | S - k | S + k."""
    if isinstance(expr, ast.Constant) and isinstance(expr.value, int) and not isinstance(expr.value, bool):
        return (None, expr.value)
    if isinstance(expr, ast.BinOp) and isinstance(expr.op, (ast.Add, ast.Sub)) and \
            isinstance(expr.right, ast.Constant) and isinstance(expr.right.value, int):
        k = expr.right.value if isinstance(expr.op, ast.Add) else -expr.right.value
        return (unparse(expr.left), k)
    if isinstance(expr, (ast.Name, ast.Attribute)):
        return (unparse(expr), 0)
    if isinstance(expr, ast.Call) and isinstance(expr.func, ast.Name) and expr.func.id == "len" and len(expr.args) == 1:
        return (unparse(expr), 0)
    return None


def _rel(op, flip):
    """normalise to var OP bound; flip when var is on the right."""
    m = {ast.Lt: "<", ast.LtE: "<=", ast.Gt: ">", ast.GtE: ">=", ast.Eq: "==", ast.NotEq: "!="}
    r = m.get(type(op))
    if r is None:
        return None
    if flip:
        r = {"<": ">", "<=": ">=", ">": "<", ">=": "<=", "==": "==", "!=": "!="}[r]
    return r


def _fact(rel, b, truth):
    """what `var rel b` being `truth` establishes: dict(lo=(sym,k)?, hi=(sym,k)?)."""
    sym, k = b
    if not truth:
        rel = {"<": ">=", "<=": ">", ">": "<=", ">=": "<", "==": "!=", "!=": "=="}[rel]
    if rel == ">=":
        return {"lo": (sym, k)}
    if rel == ">":
        return {"lo": (sym, k + 1)}
    if rel == "<=":
        return {"hi": (sym, k)}
    if rel == "<":
        return {"hi": (sym, k - 1)}
    if rel == "==":
        return {"lo": (sym, k), "hi": (sym, k)}
    return {}


def facts(test, var):
    """{'T': [fact...], 'F': [fact...]} for a single (possibly chained)
    comparison mentioning ``var`` (text)."""
    out = {"T": [], "F": []}
    if not isinstance(test, ast.Compare):
        return out
    operands = [test.left] + list(test.comparators)
    pairs = []
    for i, op in enumerate(test.ops):
        l, r = operands[i], operands[i + 1]
        if unparse(l) == var:
            b = _bound(r)
            rel = _rel(op, False)
        elif unparse(r) == var:
            b = _bound(l)
            rel = _rel(op, True)
        else:
            continue
        if b is None or rel is None:
            continue
        pairs.append((rel, b))
    for rel, b in pairs:
        out["T"].append(_fact(rel, b, True))
    if len(test.ops) == 1 and pairs:
        out["F"].append(_fact(pairs[0][0], pairs[0][1], False))
    return out


def establishes_lo(fact, minimum):
    lo = fact.get("lo")
    return lo is not None and lo[0] is None and lo[1] >= minimum


def establishes_hi(fact, sym, offset):
    """var <= sym + offset (sym None: plain integer)."""
    hi = fact.get("hi")
    return hi is not None and hi[0] == sym and hi[1] <= offset
