"""Reference-directed normalisation of meaning-preserving surface forms.

The rules were calibrated on the surface forms of today's tree.  Several edits change the form and nothing else; the
program model undoes them before any rule looks at a function, always by a rewrite that preserves meaning *whatever*
the analysed function is, choosing among equivalent forms the one today's tree uses (catalog/normal.json, generated
by tools/gen_alpha.py; it holds shapes only and never decides a property):

N1  comparison orientation   `b > a` -> `a < b` when the catalogued function compares the same two operands in the
                             other order.  Only single-operator <,<=,>,>=,==,!= and only when swapping cannot reorder
                             effects (one side a constant or a bare local/parameter, or both sides effect-free).
N2  effect-free logging      an expression statement that calls a logger method (`debug/info/warning/error/
                             exception/critical/log/_log`) with effect-free arguments, and that the catalogued function
                             does not contain, is dropped.
N3  temp before return       `t = <expr>; return t` with `t` a local the catalogued function does not have and not
                             read anywhere else -> `return <expr>`.
N4  else after a terminator  `if c: A  else: B` with A ending in return/raise/continue/break is `if c: A` followed by
                             B (same control-flow graph).  The form is aligned with the catalogued function's `if` of
                             the same test: hoisted out of the `else:` when that one has no else, pushed into an
                             `else:` when it has one.
N5  augmented assignment     `t = t <op> e` -> `t <op>= e` when the catalogued function updates the same target with the
                             same operator in the augmented form (and the reverse).  The two differ only for a mutable
                             object that is aliased; targets whose operand is a list display are never catalogued.
N6  nested conjunction       `if a: if b: X` (no else on either, nothing else in the outer body) is `if a and b: X`;
                             merged or split to the form the catalogued function has.
N7  early continue           in a loop body `if t: continue` followed by R (to the end of the body) is `if not t: R`;
                             aligned with the catalogued function.
N9  lock statement form      `L.acquire(); try: B finally: L.release()` (no handlers) is `with L: B` for locks and
                             conditions; aligned with the form the catalogued function uses for that lock.
N10 trivial delegation       (package level) a method whose whole body is `return self.<impl>(<its own parameters, in
                             order>)` where <impl> is a method of the same class with the same signature, referenced
                             nowhere else in the package and unknown to the catalogue, is replaced by <impl>'s body.
N11 single-use new helper     (package level) a method (or module function) that the catalogue does not know, that is
                             called at exactly one place in the package - a statement `self.h(a, b)`, `t = self.h(a, b)` or
                             `return self.h(a, b)` in a method of the same class - is inlined there: parameters become
                             the argument expressions (bound to fresh locals unless they are plain names or constants),
                             its locals keep their names unless they collide, `return e` becomes the assignment / return
                             / expression of the call site.  Declined (left as it is) when the helper has early returns
                             the site cannot express, assigns to its parameters, has *args / **kwargs, is a generator,
                             is decorated, or is referenced anywhere else.  Undoes "extract method".
N12 conditional expression   a statement `t = A if c else B` / `return A if c else B` / `A if c else B` whose conditional
                             expression the catalogued function does not contain becomes the if/else statement with the
                             same meaning, so that the path rules see which arm a call sits in.
N8  dead bookkeeping         (package level) an assignment to an attribute of self / an entry of self.__dict__ whose
                             name occurs nowhere else in the package, with an effect-free right-hand side, is dropped:
                             nothing can observe it.
"""
import ast
import json
import os

TABLE = os.path.join(os.path.dirname(os.path.dirname(os.path.abspath(__file__))), "catalog", "normal.json")
LOGGER_METHODS = ("debug", "info", "warning", "error", "exception", "critical", "log", "_log")
_FLIP = {ast.Lt: ast.Gt, ast.Gt: ast.Lt, ast.LtE: ast.GtE, ast.GtE: ast.LtE, ast.Eq: ast.Eq, ast.NotEq: ast.NotEq}


def _u(n):
    return ast.unparse(n)


def effect_free(e):
    """no call, no await/yield, no walrus: evaluating it changes nothing (attribute reads are taken as plain)."""
    for n in ast.walk(e):
        if isinstance(n, (ast.Call, ast.Await, ast.Yield, ast.YieldFrom, ast.NamedExpr, ast.Lambda, ast.ListComp, ast.SetComp, ast.DictComp, ast.GeneratorExp)):
            if isinstance(n, ast.Call) and isinstance(n.func, ast.Name) and n.func.id in ("len", "repr", "str", "int", "bool", "type", "id") and all(effect_free(a) for a in n.args) and not n.keywords:
                continue
            return False
    return True


def _swappable(a, b, local_names):
    def bare(e):
        # a constant, or a name no call can rebind (a local or parameter of this function or of a function nested in it)
        return isinstance(e, ast.Constant) or (isinstance(e, ast.Name) and e.id in local_names)
    return bare(a) or bare(b) or (effect_free(a) and effect_free(b))


def _local_and_param_names(fn):
    from . import alpha
    names = set(alpha.function_locals(fn))
    a = fn.args
    names |= set(x.arg for x in a.posonlyargs + a.args + a.kwonlyargs)
    if a.vararg:
        names.add(a.vararg.arg)
    if a.kwarg:
        names.add(a.kwarg.arg)
    glob = set()
    for n in ast.walk(fn):
        if isinstance(n, ast.arg):
            names.add(n.arg)
        elif isinstance(n, (ast.Global, ast.Nonlocal)):
            glob |= set(n.names)
    return names - glob


def compares_of(fn):
    out = []
    for n in ast.walk(fn):
        if isinstance(n, ast.Compare) and len(n.ops) == 1 and type(n.ops[0]) in _FLIP:
            out.append([_u(n.left), _u(n.comparators[0])])
    return out


def is_log_stmt(st):
    if not (isinstance(st, ast.Expr) and isinstance(st.value, ast.Call) and isinstance(st.value.func, ast.Attribute)):
        return False
    c = st.value
    if c.func.attr not in LOGGER_METHODS:
        return False
    # the receiver: names / attributes, or a getLogger(...) chain
    r = c.func.value
    while True:
        if isinstance(r, ast.Attribute):
            r = r.value
        elif isinstance(r, ast.Call) and ((isinstance(r.func, ast.Attribute) and r.func.attr in ("getLogger", "get_logger")) or
                                          (isinstance(r.func, ast.Name) and r.func.id in ("__import__", "getLogger", "get_logger"))):
            if not all(isinstance(a, ast.Constant) for a in r.args):
                return False
            r = r.func.value if isinstance(r.func, ast.Attribute) else None
            if r is None:
                break
        elif isinstance(r, ast.Name):
            break
        else:
            return False
    return all(effect_free(a) for a in c.args) and all(effect_free(k.value) for k in c.keywords)


def log_texts(fn):
    return sorted(set(_u(st) for st in ast.walk(fn) if isinstance(st, ast.stmt) and is_log_stmt(st)))


def _terminates(stmts):
    return bool(stmts) and isinstance(stmts[-1], (ast.Return, ast.Raise, ast.Continue, ast.Break))


def if_shapes(fn):
    """{test text: 'else' | 'plain' | 'mixed'} for ifs whose body ends in a terminator (an `elif` is an else arm)."""
    out = {}
    for n in ast.walk(fn):
        if isinstance(n, ast.If) and _terminates(n.body):
            k = _u(n.test)
            v = "else" if n.orelse else "plain"
            out[k] = v if out.get(k, v) == v else "mixed"
    return out


def _blocks(node):
    for field in ("body", "orelse", "finalbody"):
        v = getattr(node, field, None)
        if isinstance(v, list) and v and isinstance(v[0], ast.stmt):
            yield node, field, v
    if isinstance(node, ast.Try):
        for h in node.handlers:
            yield h, "body", h.body
    if hasattr(ast, "Match") and isinstance(node, ast.Match):
        for c in node.cases:
            yield c, "body", c.body


def _all_blocks(fn):
    for n in ast.walk(fn):
        if isinstance(n, (ast.stmt, ast.ExceptHandler)) or (hasattr(ast, "match_case") and isinstance(n, ast.match_case)):
            for owner, field, v in _blocks(n):
                yield owner, field, v


_table = None


def table():
    global _table
    if _table is None:
        try:
            with open(TABLE) as fh:
                _table = json.load(fh)
        except (IOError, ValueError):
            _table = {}
    return _table


_OPN = {ast.Add: "+", ast.Sub: "-", ast.Mult: "*", ast.FloorDiv: "//", ast.Mod: "%", ast.BitOr: "|", ast.BitAnd: "&", ast.BitXor: "^",
        ast.LShift: "<<", ast.RShift: ">>", ast.Div: "/", ast.Pow: "**"}
_OPC = dict((v, k) for k, v in _OPN.items())


def _listish(e):
    return isinstance(e, (ast.List, ast.ListComp)) or (isinstance(e, ast.Call) and isinstance(e.func, ast.Name) and e.func.id == "list")


def aug_forms(fn):
    """[[target text, operator, 'aug' | 'plain']] for updates `t op= e` / `t = t op e` of names and attributes."""
    out = []
    for n in ast.walk(fn):
        if isinstance(n, ast.AugAssign) and type(n.op) in _OPN and isinstance(n.target, (ast.Name, ast.Attribute)) and not _listish(n.value):
            out.append([_u(n.target), _OPN[type(n.op)], "aug"])
        elif (isinstance(n, ast.Assign) and len(n.targets) == 1 and isinstance(n.targets[0], (ast.Name, ast.Attribute)) and isinstance(n.value, ast.BinOp)
              and type(n.value.op) in _OPN and _u(n.value.left) == _u(n.targets[0]) and not _listish(n.value.right)):
            out.append([_u(n.targets[0]), _OPN[type(n.value.op)], "plain"])
    return out


def _conj(t):
    return list(t.values) if isinstance(t, ast.BoolOp) and isinstance(t.op, ast.And) else [t]


def _and_text(vals):
    return _u(vals[0]) if len(vals) == 1 else _u(ast.BoolOp(op=ast.And(), values=list(vals)))


def if_tests(fn):
    return sorted(set(_u(n.test) for n in ast.walk(fn) if isinstance(n, ast.If)))


def nested_pairs(fn):
    out = []
    for n in ast.walk(fn):
        if isinstance(n, ast.If) and not n.orelse and len(n.body) == 1 and isinstance(n.body[0], ast.If) and not n.body[0].orelse:
            out.append([_u(n.test), _u(n.body[0].test)])
    return out


def _neg_text(t):
    if isinstance(t, ast.UnaryOp) and isinstance(t.op, ast.Not):
        return _u(t.operand)
    return _u(ast.UnaryOp(op=ast.Not(), operand=t))


def continue_tests(fn):
    out = []
    for n in ast.walk(fn):
        if isinstance(n, (ast.For, ast.While)):
            for st in n.body:
                if isinstance(st, ast.If) and not st.orelse and len(st.body) == 1 and isinstance(st.body[0], ast.Continue):
                    out.append(_u(st.test))
    return sorted(set(out))


def attr_names(tree):
    return set(n.attr for n in ast.walk(tree) if isinstance(n, ast.Attribute)) | \
        set(n.slice.value for n in ast.walk(tree) if isinstance(n, ast.Subscript) and isinstance(n.slice, ast.Constant) and isinstance(n.slice.value, str))


def _acquire_pair(v, i):
    """(lock text) when v[i] is `L.acquire()` and v[i+1] is `try: ... finally: L.release()` without handlers."""
    if i + 1 >= len(v):
        return None
    s0, t = v[i], v[i + 1]
    if not (isinstance(s0, ast.Expr) and isinstance(s0.value, ast.Call) and isinstance(s0.value.func, ast.Attribute) and s0.value.func.attr == "acquire"
            and not s0.value.args and not s0.value.keywords):
        return None
    L = _u(s0.value.func.value)
    if (isinstance(t, ast.Try) and not t.handlers and not t.orelse and len(t.finalbody) == 1 and isinstance(t.finalbody[0], ast.Expr)
            and _u(t.finalbody[0].value) == "%s.release()" % L):
        return L
    return None


def lock_forms(fn):
    out = []
    for owner, field, v in _all_blocks(fn):
        for i, st in enumerate(v):
            if isinstance(st, ast.With) and len(st.items) == 1 and st.items[0].optional_vars is None:
                out.append([_u(st.items[0].context_expr), "with"])
            L = _acquire_pair(v, i)
            if L is not None:
                out.append([L, "acquire"])
    return out


def n9_align_lock_forms(fn, ent):
    ref = {}
    for L, form in ent.get("locks", ()):
        ref[L] = form if ref.get(L, form) == form else "mixed"
    if not ref:
        return 0
    n = 0
    changed = True
    while changed:
        changed = False
        for owner, field, v in list(_all_blocks(fn)):
            for i, st in enumerate(v):
                if isinstance(st, ast.With) and len(st.items) == 1 and st.items[0].optional_vars is None and ref.get(_u(st.items[0].context_expr)) == "acquire":
                    import copy
                    L = st.items[0].context_expr
                    acq = ast.copy_location(ast.Expr(value=ast.Call(func=ast.Attribute(value=copy.deepcopy(L), attr="acquire", ctx=ast.Load()), args=[], keywords=[])), st)
                    rel = ast.copy_location(ast.Expr(value=ast.Call(func=ast.Attribute(value=copy.deepcopy(L), attr="release", ctx=ast.Load()), args=[], keywords=[])), st)
                    tr = ast.copy_location(ast.Try(body=st.body, handlers=[], orelse=[], finalbody=[rel]), st)
                    v[i:i + 1] = [acq, tr]
                    n += 1
                    changed = True
                    break
                L = _acquire_pair(v, i)
                if L is not None and ref.get(L) == "with":
                    w = ast.copy_location(ast.With(items=[ast.withitem(context_expr=st.value.func.value, optional_vars=None)], body=v[i + 1].body), st)
                    v[i:i + 2] = [w]
                    n += 1
                    changed = True
                    break
            if changed:
                break
    return n


def _hash_of(fn):
    from . import alpha
    return alpha.normal_hash(fn, alpha.function_locals(fn))


def entry_for(fn):
    return {"cmp": compares_of(fn), "logs": log_texts(fn), "ifs": if_shapes(fn), "aug": aug_forms(fn), "tests": if_tests(fn),
            "nested": nested_pairs(fn), "conts": continue_tests(fn), "locks": lock_forms(fn), "hash": _hash_of(fn), "ifexps": ifexp_texts(fn)}


def n5_align_augassign(fn, ent):
    ref = {}
    for t, op, form in ent.get("aug", ()):
        k = (t, op)
        ref[k] = form if ref.get(k, form) == form else "mixed"
    n = 0
    for owner, field, v in list(_all_blocks(fn)):
        for i, st in enumerate(v):
            if (isinstance(st, ast.Assign) and len(st.targets) == 1 and isinstance(st.targets[0], (ast.Name, ast.Attribute)) and isinstance(st.value, ast.BinOp)
                    and type(st.value.op) in _OPN and _u(st.value.left) == _u(st.targets[0]) and not _listish(st.value.right)):
                if ref.get((_u(st.targets[0]), _OPN[type(st.value.op)])) == "aug":
                    v[i] = ast.copy_location(ast.AugAssign(target=st.targets[0], op=st.value.op, value=st.value.right), st)
                    n += 1
            elif isinstance(st, ast.AugAssign) and type(st.op) in _OPN and isinstance(st.target, (ast.Name, ast.Attribute)) and not _listish(st.value):
                if ref.get((_u(st.target), _OPN[type(st.op)])) == "plain":
                    import copy
                    load = copy.deepcopy(st.target)
                    load.ctx = ast.Load()
                    v[i] = ast.copy_location(ast.Assign(targets=[st.target], value=ast.BinOp(left=load, op=st.op, right=st.value)), st)
                    n += 1
    return n


def n6_align_nested(fn, ent):
    tests = set(ent.get("tests", ()))
    nested = set(tuple(p) for p in ent.get("nested", ()))
    n = 0
    changed = True
    while changed:
        changed = False
        for node in ast.walk(fn):
            if not isinstance(node, ast.If) or node.orelse:
                continue
            if len(node.body) == 1 and isinstance(node.body[0], ast.If) and not node.body[0].orelse:
                inner = node.body[0]
                merged = _and_text(_conj(node.test) + _conj(inner.test))
                if merged in tests and (_u(node.test), _u(inner.test)) not in nested:
                    vals = _conj(node.test) + _conj(inner.test)
                    node.test = ast.copy_location(ast.BoolOp(op=ast.And(), values=vals), node.test)
                    node.body = inner.body
                    n += 1
                    changed = True
                    break
            vals = _conj(node.test)
            if len(vals) >= 2 and _u(node.test) not in tests:
                for k in range(1, len(vals)):
                    if (_and_text(vals[:k]), _and_text(vals[k:])) in nested:
                        inner = ast.copy_location(ast.If(test=vals[k] if len(vals) - k == 1 else ast.BoolOp(op=ast.And(), values=vals[k:]), body=node.body, orelse=[]), node)
                        node.test = vals[0] if k == 1 else ast.BoolOp(op=ast.And(), values=vals[:k])
                        node.body = [inner]
                        n += 1
                        changed = True
                        break
                if changed:
                    break
    return n


def n7_align_continue(fn, ent):
    tests = set(ent.get("tests", ()))
    conts = set(ent.get("conts", ()))
    n = 0
    for lp in [x for x in ast.walk(fn) if isinstance(x, (ast.For, ast.While))]:
        changed = True
        while changed:
            changed = False
            v = lp.body
            for i, st in enumerate(v):
                if isinstance(st, ast.If) and not st.orelse and len(st.body) == 1 and isinstance(st.body[0], ast.Continue) and i + 1 < len(v):
                    if _u(st.test) not in conts and _neg_text(st.test) in tests:
                        t = st.test
                        neg = t.operand if isinstance(t, ast.UnaryOp) and isinstance(t.op, ast.Not) else ast.UnaryOp(op=ast.Not(), operand=t)
                        lp.body = v[:i] + [ast.copy_location(ast.If(test=neg, body=v[i + 1:], orelse=[]), st)]
                        n += 1
                        changed = True
                        break
                if isinstance(st, ast.If) and not st.orelse and i == len(v) - 1 and _u(st.test) not in tests and _neg_text(st.test) in conts:
                    t = st.test
                    neg = t.operand if isinstance(t, ast.UnaryOp) and isinstance(t.op, ast.Not) else ast.UnaryOp(op=ast.Not(), operand=t)
                    lp.body = v[:i] + [ast.copy_location(ast.If(test=neg, body=[ast.copy_location(ast.Continue(), st)], orelse=[]), st)] + st.body
                    n += 1
                    changed = True
                    break
    return n


def _dead_store_name(st):
    """name written by `self.X = e` / `self.__dict__['X'] = e` with e effect-free (reads of the same slot through
    getattr(self, 'X', d) / self.__dict__.get('X', d) allowed), else None."""
    if not (isinstance(st, (ast.Assign, ast.AugAssign))):
        return None
    tg = st.targets[0] if isinstance(st, ast.Assign) and len(st.targets) == 1 else (st.target if isinstance(st, ast.AugAssign) else None)
    name = None
    if isinstance(tg, ast.Attribute) and isinstance(tg.value, ast.Name) and tg.value.id == "self":
        name = tg.attr
    elif (isinstance(tg, ast.Subscript) and _u(tg.value) == "self.__dict__" and isinstance(tg.slice, ast.Constant) and isinstance(tg.slice.value, str)):
        name = tg.slice.value
    if name is None:
        return None

    def pure(e):
        if isinstance(e, ast.Call):
            f = e.func
            ok = (isinstance(f, ast.Name) and f.id == "getattr" and len(e.args) == 3 and _u(e.args[0]) == "self") or \
                 (isinstance(f, ast.Attribute) and f.attr == "get" and _u(f.value) == "self.__dict__")
            return ok and all(pure(a) for a in e.args)
        if isinstance(e, (ast.Await, ast.Yield, ast.YieldFrom, ast.NamedExpr, ast.Lambda, ast.ListComp, ast.SetComp, ast.DictComp, ast.GeneratorExp)):
            return False
        return all(pure(c) for c in ast.iter_child_nodes(e) if isinstance(c, ast.expr))
    return name if pure(st.value) else None


def _sig(fn):
    a = fn.args
    return ([x.arg for x in a.posonlyargs], [x.arg for x in a.args], a.vararg.arg if a.vararg else None, [x.arg for x in a.kwonlyargs],
            a.kwarg.arg if a.kwarg else None, [ast.dump(d) for d in a.defaults], [ast.dump(d) if d is not None else None for d in a.kw_defaults])


def _is_docstring(st):
    return isinstance(st, ast.Expr) and isinstance(st.value, ast.Constant) and isinstance(st.value.value, str)


def _delegation(w, methods):
    """the FunctionDef that method ``w`` delegates its whole body to (`return self.<impl>(<own parameters>)`), or None."""
    body = [st for st in w.body if not _is_docstring(st)]
    if len(body) != 1 or not isinstance(body[0], ast.Return) or not isinstance(body[0].value, ast.Call):
        return None
    c = body[0].value
    if not (isinstance(c.func, ast.Attribute) and isinstance(c.func.value, ast.Name) and w.args.args and c.func.value.id == w.args.args[0].arg):
        return None
    impl = methods.get(c.func.attr)
    if impl is None or impl is w or impl.decorator_list or w.decorator_list or _sig(impl) != _sig(w):
        return None
    if w.args.posonlyargs or w.args.kwonlyargs:
        return None
    want = [a.arg for a in w.args.args[1:]] + (["*" + w.args.vararg.arg] if w.args.vararg else [])
    got = []
    for x in c.args:
        if isinstance(x, ast.Name):
            got.append(x.id)
        elif isinstance(x, ast.Starred) and isinstance(x.value, ast.Name):
            got.append("*" + x.value.id)
        else:
            return None
    if got != want:
        return None
    if w.args.kwarg:
        if not (len(c.keywords) == 1 and c.keywords[0].arg is None and isinstance(c.keywords[0].value, ast.Name) and c.keywords[0].value.id == w.args.kwarg.arg):
            return None
    elif c.keywords:
        return None
    return impl


def undo_delegations(trees):
    """N10 over the whole package: ``trees`` is {module name: ast.Module}."""
    tab = table()
    if not tab:
        return []
    uses = {}
    defs = {}
    for mod, tree in trees.items():
        for n in ast.walk(tree):
            if isinstance(n, ast.Attribute):
                uses[n.attr] = uses.get(n.attr, 0) + 1
            elif isinstance(n, ast.Constant) and isinstance(n.value, str) and n.value.isidentifier():
                uses[n.value] = uses.get(n.value, 0) + 1
            elif isinstance(n, (ast.FunctionDef, ast.AsyncFunctionDef)):
                defs[n.name] = defs.get(n.name, 0) + 1
            elif isinstance(n, ast.Name):
                uses[n.id] = uses.get(n.id, 0) + 1
    cands = []
    per_name = {}
    for mod, tree in trees.items():
        for cls in [c for c in tree.body if isinstance(c, ast.ClassDef)]:
            methods = dict((m.name, m) for m in cls.body if isinstance(m, ast.FunctionDef))
            for w in list(methods.values()):
                impl = _delegation(w, methods)
                if impl is None:
                    continue
                if "%s.%s.%s" % (mod, cls.name, impl.name) in tab or "%s.%s.%s" % (mod, cls.name, w.name) not in tab:
                    continue        # the catalogued tree has that method itself / does not have the wrapper's name
                cands.append((mod, cls, w, impl))
                per_name[impl.name] = per_name.get(impl.name, 0) + 1
    done = []
    for mod, cls, w, impl in cands:
        # the implementation's name is used by its wrappers only and defined next to each of them only: nothing else
        # (a subclass overriding it, another caller) can tell the two methods from one
        if uses.get(impl.name, 0) != per_name[impl.name] or defs.get(impl.name, 0) != per_name[impl.name]:
            continue
        doc = [st for st in w.body if _is_docstring(st)][:1]
        ib = list(impl.body)
        if doc and ib and _is_docstring(ib[0]):
            ib = ib[1:]
        w.body = (doc + ib) or [ast.copy_location(ast.Pass(), w)]
        cls.body.remove(impl)
        done.append(("%s.%s.%s" % (mod, cls.name, w.name), impl.name))
    return done


def _walk_no_nested(fn):
    """nodes of fn's body without entering nested function / class definitions (lambdas are entered)."""
    todo = list(fn.body)
    while todo:
        n = todo.pop()
        yield n
        if isinstance(n, (ast.FunctionDef, ast.AsyncFunctionDef, ast.ClassDef)):
            continue
        todo.extend(ast.iter_child_nodes(n))


def _inline_plan(h, call, site_kind, g):
    """statements that replace the call statement, or None when the helper cannot be inlined faithfully."""
    import copy
    from . import alpha
    a = h.args
    if a.vararg or a.kwarg or a.kwonlyargs or a.posonlyargs or h.decorator_list:
        return None
    if any(isinstance(n, (ast.Yield, ast.YieldFrom, ast.Await, ast.FunctionDef, ast.AsyncFunctionDef, ast.ClassDef, ast.Global, ast.Nonlocal)) for n in _walk_no_nested(h)):
        return None
    params = [x.arg for x in a.args]
    is_method = isinstance(call.func, ast.Attribute)
    recv = params[0] if is_method else None
    formal = params[1:] if is_method else params
    if call.keywords and any(k.arg is None or k.arg not in formal for k in call.keywords):
        return None
    actual = dict(zip(formal, call.args))
    if len(call.args) > len(formal):
        return None
    for k in call.keywords:
        if k.arg in actual:
            return None
        actual[k.arg] = k.value
    defaults = dict(zip(params[len(params) - len(a.defaults):], a.defaults))
    for p_ in formal:
        if p_ not in actual:
            if p_ not in defaults:
                return None
            actual[p_] = defaults[p_]
    if any(isinstance(x, ast.Starred) for x in call.args):
        return None
    stored = set(n.id for n in _walk_no_nested(h) if isinstance(n, ast.Name) and isinstance(n.ctx, (ast.Store, ast.Del)))
    if stored & set(params):
        return None
    if is_method:
        g_self = g.args.args[0].arg if g.args.args else None
        if g_self is None or _u(call.func.value) != g_self:
            return None
    body = copy.deepcopy([st for i, st in enumerate(h.body) if not (i == 0 and _is_docstring(st))])
    if not body:
        body = [ast.Pass()]
    # returns
    rets = [n for st in body for n in ast.walk(st) if isinstance(n, ast.Return)]
    last = body[-1]
    if site_kind in ("expr", "assign"):
        if any(r is not last for r in rets):
            return None        # an early return cannot be expressed at this site
    wrapper = ast.Module(body=body, type_ignores=[])
    # names: the helper's own locals keep their spelling unless the caller already uses it
    g_names = set(n.id for n in ast.walk(g) if isinstance(n, ast.Name)) | set(x.arg for x in ast.walk(g) if isinstance(x, ast.arg))
    h_locals = alpha.function_locals(h)
    ren = {}
    for nm in h_locals:
        if nm in g_names:
            k = nm + "__h"
            while k in g_names or k in h_locals:
                k += "_"
            ren[nm] = k
    pre = []
    subst = {}
    for p_ in formal:
        e = actual[p_]
        if isinstance(e, ast.Constant) or (isinstance(e, ast.Name) and e.id not in ren):
            subst[p_] = e
        else:
            k = p_ if (p_ not in g_names and p_ not in h_locals) else p_ + "__a"
            while k in g_names or k in h_locals or k in ren.values():
                k += "_"
            pre.append(ast.Assign(targets=[ast.Name(id=k, ctx=ast.Store())], value=copy.deepcopy(e)))
            subst[p_] = ast.Name(id=k, ctx=ast.Load())
    if is_method:
        subst[recv] = ast.Name(id=g.args.args[0].arg, ctx=ast.Load())

    class Sub(ast.NodeTransformer):
        def visit_Name(self, n):
            if n.id in ren:
                n.id = ren[n.id]
                return n
            if n.id in subst and isinstance(n.ctx, ast.Load):
                return ast.copy_location(copy.deepcopy(subst[n.id]), n)
            return n

        def visit_ExceptHandler(self, n):
            if n.name in ren:
                n.name = ren[n.name]
            self.generic_visit(n)
            return n
    wrapper = Sub().visit(wrapper)
    body = wrapper.body
    return pre, body


def inline_single_use_helpers(trees):
    """N11 over the whole package: ``trees`` is {module name: ast.Module}."""
    import copy
    tab = table()
    if not tab:
        return []
    uses = {}
    for mod, tree in trees.items():
        for n in ast.walk(tree):
            if isinstance(n, ast.Attribute):
                uses[n.attr] = uses.get(n.attr, 0) + 1
            elif isinstance(n, ast.Name):
                uses[n.id] = uses.get(n.id, 0) + 1
            elif isinstance(n, ast.Constant) and isinstance(n.value, str) and n.value.isidentifier():
                uses[n.value] = uses.get(n.value, 0) + 1
            elif isinstance(n, ast.alias):
                uses[n.name.split(".")[-1]] = uses.get(n.name.split(".")[-1], 0) + 1
    done = []
    for mod, tree in trees.items():
        scopes = [(None, tree)] + [(c, c) for c in tree.body if isinstance(c, ast.ClassDef)]
        for cls, holder in scopes:
            changed = True
            while changed:
                changed = False
                funcs = [m for m in holder.body if isinstance(m, ast.FunctionDef)]
                for h in funcs:
                    q = "%s.%s.%s" % (mod, cls.name, h.name) if cls is not None else "%s.%s" % (mod, h.name)
                    if q in tab or (h.name.startswith("__") and h.name.endswith("__")) or uses.get(h.name, 0) != 1:
                        continue
                    # the one use: a statement-level call in a sibling function of the same holder
                    site = None
                    for g in funcs:
                        if g is h:
                            continue
                        for owner, field, v in _all_blocks(g):
                            for i, st in enumerate(v):
                                call, kind = None, None
                                if isinstance(st, ast.Expr) and isinstance(st.value, ast.Call):
                                    call, kind = st.value, "expr"
                                elif isinstance(st, ast.Assign) and len(st.targets) == 1 and isinstance(st.value, ast.Call):
                                    call, kind = st.value, "assign"
                                elif isinstance(st, ast.Return) and isinstance(st.value, ast.Call):
                                    call, kind = st.value, "return"
                                if call is None:
                                    continue
                                f_ = call.func
                                hit = (cls is not None and isinstance(f_, ast.Attribute) and f_.attr == h.name and isinstance(f_.value, ast.Name)) or \
                                      (cls is None and isinstance(f_, ast.Name) and f_.id == h.name)
                                if hit:
                                    site = (g, owner, field, v, i, st, call, kind)
                    if site is None:
                        continue
                    g, owner, field, v, i, st, call, kind = site
                    plan = _inline_plan(h, call, kind, g)
                    if plan is None:
                        continue
                    pre, body = plan
                    last = body[-1]
                    if kind == "expr":
                        if isinstance(last, ast.Return):
                            body = body[:-1] + ([ast.Expr(value=last.value)] if last.value is not None and not isinstance(last.value, (ast.Constant, ast.Name)) else [])
                    elif kind == "assign":
                        val = last.value if isinstance(last, ast.Return) and last.value is not None else ast.Constant(value=None)
                        body = (body[:-1] if isinstance(last, ast.Return) else body) + [ast.Assign(targets=st.targets, value=val)]
                    else:
                        for r in [n for b_ in body for n in ast.walk(b_) if isinstance(n, ast.Return)]:
                            if r.value is None:
                                r.value = ast.Constant(value=None)
                        if not isinstance(last, (ast.Return, ast.Raise)):
                            body = body + [ast.Return(value=ast.Constant(value=None))]
                    new = pre + (body or [ast.Pass()])
                    for x in new:
                        ast.copy_location(x, st)
                        for y in ast.walk(x):
                            if not hasattr(y, "lineno") and isinstance(y, (ast.stmt, ast.expr)):
                                ast.copy_location(y, st)
                    v[i:i + 1] = new
                    holder.body.remove(h)
                    ast.fix_missing_locations(tree)
                    done.append((q, "%s.%s" % (cls.name if cls is not None else mod, g.name)))
                    changed = True
                    break
    return done


def drop_dead_bookkeeping(trees):
    """N8 over the whole package: ``trees`` is {module name: ast.Module}."""
    cand = {}
    for mod, tree in trees.items():
        for n in ast.walk(tree):
            if isinstance(n, ast.stmt):
                nm = _dead_store_name(n)
                if nm is not None:
                    cand.setdefault(nm, []).append(n)
    if not cand:
        return []
    inside = {}
    for nm, sts in cand.items():
        ids = set()
        for st in sts:
            for x in ast.walk(st):
                ids.add(id(x))
        inside[nm] = ids
    alive = set()
    for mod, tree in trees.items():
        for n in ast.walk(tree):
            nm = None
            if isinstance(n, ast.Attribute):
                nm = n.attr
            elif isinstance(n, ast.Constant) and isinstance(n.value, str):
                nm = n.value
            elif isinstance(n, ast.Name):
                nm = n.id
            elif isinstance(n, ast.arg):
                nm = n.arg
            elif isinstance(n, ast.keyword):
                nm = n.arg
            if nm in cand and id(n) not in inside[nm]:
                alive.add(nm)
    known = set(table().get("__attrs__", ()))
    dead = set(nm for nm in cand if nm not in alive and nm not in known)      # slots today's tree has are never dropped
    # a name that also occurs inside a string (getattr with a computed name, __slots__, format fields) stays
    dropped = []
    if not dead:
        return dropped
    deadnodes = set(id(st) for nm in dead for st in cand[nm])
    for mod, tree in trees.items():
        for fn in [x for x in ast.walk(tree) if isinstance(x, (ast.FunctionDef, ast.AsyncFunctionDef))]:
            for owner, field, v in list(_all_blocks(fn)):
                new = [st for st in v if id(st) not in deadnodes]
                if len(new) != len(v):
                    dropped += [(mod, _u(st)[:60]) for st in v if id(st) in deadnodes]
                    setattr(owner, field, new or [ast.copy_location(ast.Pass(), v[0])])
    return dropped


def n2_strip_logging(fn, ent):
    keep = set(ent.get("logs", ()))
    n = 0
    for owner, field, v in list(_all_blocks(fn)):
        new = [st for st in v if not (is_log_stmt(st) and _u(st) not in keep)]
        if len(new) != len(v):
            n += len(v) - len(new)
            if not new:
                new = [ast.copy_location(ast.Pass(), v[0])]
            setattr(owner, field, new)
    return n


def _return_temp_candidates(fn):
    loads = {}
    stores = {}
    for x in ast.walk(fn):
        if isinstance(x, ast.Name):
            (loads if isinstance(x.ctx, ast.Load) else stores).setdefault(x.id, []).append(x)
    cand = {}
    for owner, field, v in _all_blocks(fn):
        for i in range(len(v) - 1):
            a, b = v[i], v[i + 1]
            if (isinstance(a, ast.Assign) and len(a.targets) == 1 and isinstance(a.targets[0], ast.Name) and isinstance(b, ast.Return)
                    and isinstance(b.value, ast.Name) and b.value.id == a.targets[0].id):
                cand.setdefault(a.targets[0].id, []).append((owner, field, i))
    from . import alpha
    mine = set(alpha.function_locals(fn))
    out = {}
    for name, pairs in cand.items():
        if name in mine and len(loads.get(name, [])) == len(pairs) and len(stores.get(name, [])) == len(pairs):
            out[name] = pairs      # not read or written anywhere else
    return out


def _inline_temp(fn, name):
    n = 0
    for owner, field, v in list(_all_blocks(fn)):
        i = 0
        while i < len(v) - 1:
            a, b = v[i], v[i + 1]
            if (isinstance(a, ast.Assign) and len(a.targets) == 1 and isinstance(a.targets[0], ast.Name) and a.targets[0].id == name
                    and isinstance(b, ast.Return) and isinstance(b.value, ast.Name) and b.value.id == name):
                b.value = a.value
                del v[i]
                n += 1
            else:
                i += 1
    return n


def n3_inline_return_temps(fn, ent, aent):
    """inline as many `t = e; return t` temporaries as the function has locals more than the catalogued one; when a
    choice exists, the one that makes the function - after the rest of the normalisation - equal to the catalogued one,
    else the ones whose names the catalogued function does not have, in order of appearance."""
    import copy
    import itertools
    from . import alpha
    cand = _return_temp_candidates(fn)
    if not cand:
        return 0
    ref_locals = list((aent or {}).get("names", ()))
    need = len(alpha.function_locals(fn)) - len(ref_locals)
    if need <= 0:
        return 0
    names = [nm for nm in alpha.function_locals(fn) if nm in cand]
    choice = None
    ref_hash = ent.get("hash")
    if ref_hash is not None and len(names) <= 6:
        for sub in itertools.combinations(names, min(need, len(names))):
            c = copy.deepcopy(fn)
            for nm in sub:
                _inline_temp(c, nm)
            alpha.canonicalise_function(c, aent)
            _post(c, ent)
            if alpha.normal_hash(c, alpha.function_locals(c)) == ref_hash:
                choice = list(sub)
                break
    if choice is None:
        choice = [nm for nm in names if nm not in ref_locals][:need]
    n = 0
    for nm in choice:
        n += _inline_temp(fn, nm)
    return n


def n1_orient_compares(fn, ent):
    ref = set(tuple(p) for p in ent.get("cmp", ()))
    if not ref:
        return 0
    names = _local_and_param_names(fn)
    n = 0
    for c in ast.walk(fn):
        if isinstance(c, ast.Compare) and len(c.ops) == 1 and type(c.ops[0]) in _FLIP:
            l, r = _u(c.left), _u(c.comparators[0])
            if (l, r) in ref or (r, l) not in ref or l == r:
                continue
            if not _swappable(c.left, c.comparators[0], names):
                continue
            c.left, c.comparators[0] = c.comparators[0], c.left
            c.ops[0] = _FLIP[type(c.ops[0])]()
            n += 1
    return n


def n4_align_else(fn, ent):
    shapes = ent.get("ifs", {})
    n = 0
    changed = True
    while changed:
        changed = False
        for owner, field, v in list(_all_blocks(fn)):
            for i, st in enumerate(v):
                if not (isinstance(st, ast.If) and _terminates(st.body)):
                    continue
                want = shapes.get(_u(st.test))
                if want == "plain" and st.orelse:
                    rest = st.orelse
                    st.orelse = []
                    v[i + 1:i + 1] = rest
                    n += 1
                    changed = True
                    break
                if want == "else" and not st.orelse and i + 1 < len(v):
                    st.orelse = v[i + 1:]
                    del v[i + 1:]
                    n += 1
                    changed = True
                    break
            if changed:
                break
    return n


def ifexp_texts(fn):
    return sorted(set(_u(n) for n in ast.walk(fn) if isinstance(n, ast.IfExp)))


def n12_lift_new_ifexps(fn, ent):
    import copy
    known = set(ent.get("ifexps", ()))
    n = 0
    changed = True
    while changed:
        changed = False
        for owner, field, v in list(_all_blocks(fn)):
            for i, st in enumerate(v):
                val = st.value if isinstance(st, (ast.Assign, ast.Return, ast.Expr, ast.AugAssign)) else None
                if not isinstance(val, ast.IfExp) or _u(val) in known:
                    continue

                def arm(e):
                    c = copy.copy(st)
                    if isinstance(st, ast.Assign):
                        c = ast.Assign(targets=copy.deepcopy(st.targets), value=e)
                    elif isinstance(st, ast.AugAssign):
                        c = ast.AugAssign(target=copy.deepcopy(st.target), op=st.op, value=e)
                    elif isinstance(st, ast.Return):
                        c = ast.Return(value=e)
                    else:
                        c = ast.Expr(value=e)
                    return ast.copy_location(c, st)
                if isinstance(st, ast.Assign) and any(not isinstance(t, (ast.Name, ast.Attribute)) for t in st.targets):
                    continue
                v[i] = ast.copy_location(ast.If(test=val.test, body=[arm(val.body)], orelse=[arm(val.orelse)]), st)
                n += 1
                changed = True
                break
            if changed:
                break
    return n


def _post(fn, ent):
    ks = {"N12": n12_lift_new_ifexps(fn, ent), "N9": n9_align_lock_forms(fn, ent), "N5": n5_align_augassign(fn, ent), "N1": n1_orient_compares(fn, ent)}
    ks["N6"] = n6_align_nested(fn, ent)
    ks["N7"] = n7_align_continue(fn, ent)
    ks["N4"] = n4_align_else(fn, ent)
    return ks


def normalise_function(q, fn, ent, aent):
    """the whole per-function pipeline: spellings of locals (alpha), N2, N3, spellings again, N9 N5 N1 N6 N7 N4."""
    from . import alpha
    done = {}
    m = alpha.canonicalise_function(fn, aent)
    if m:
        done["alpha"] = m
    ks = {"N2": n2_strip_logging(fn, ent)}
    ks["N3"] = n3_inline_return_temps(fn, ent, aent)
    m = alpha.canonicalise_function(fn, aent)
    if m:
        done.setdefault("alpha", {}).update(m)
    ks.update(_post(fn, ent))
    done.update(dict((k, v) for k, v in ks.items() if v))
    return done


def normalise_module(tree, modname):
    from . import alpha
    tab = table()
    atab = alpha.table()
    out = []
    if not tab:
        return out
    for q, fn in alpha.functions_of(tree, modname):
        ent = tab.get(q)
        if not isinstance(ent, dict):
            continue
        d = normalise_function(q, fn, ent, atab.get(q))
        if d:
            out.append((q, d))
    if out:
        ast.fix_missing_locations(tree)
    return out
