"""Reference-directed normalisation of meaning-preserving surface forms.

The rules were calibrated on the surface forms of today's tree.  Several edits change the form and nothing else; the
program model undoes them before any rule looks at a function, always by a rewrite that preserves meaning *whatever*
the analysed function is, choosing among equivalent forms the one today's tree uses (catalog/normal.json, generated
by tools/gen_alpha.py; it holds shapes only and never decides a property):

N1  comparison orientation   `b > a` -> `a < b` when the catalogued function compares the same two operands in the
                             other order.  Only single-operator <,<=,>,>=,==,!= and only when swapping cannot reorder
                             effects (one side a constant or a bare local/parameter, or both sides effect-free).
N2  effect-free logging      an expression statement that calls a logger method (`debug/info/warning/error/
                             exception/critical/log/_log`) with effect-free arguments, and that the catalogued function
                             does not contain, is dropped.
N3  temp before return       `t = <expr>; return t` with `t` a local the catalogued function does not have and not
                             read anywhere else -> `return <expr>`.
N4  else after a terminator  `if c: A  else: B` with A ending in return/raise/continue/break is `if c: A` followed by
                             B (same control-flow graph).  The form is aligned with the catalogued function's `if` of
                             the same test: hoisted out of the `else:` when that one has no else, pushed into an
                             `else:` when it has one.
"""
import ast
import json
import os

TABLE = os.path.join(os.path.dirname(os.path.dirname(os.path.abspath(__file__))), "catalog", "normal.json")
LOGGER_METHODS = ("debug", "info", "warning", "error", "exception", "critical", "log", "_log")
_FLIP = {ast.Lt: ast.Gt, ast.Gt: ast.Lt, ast.LtE: ast.GtE, ast.GtE: ast.LtE, ast.Eq: ast.Eq, ast.NotEq: ast.NotEq}


def _u(n):
    return ast.unparse(n)


def effect_free(e):
    """no call, no await/yield, no walrus: evaluating it changes nothing (attribute reads are taken as plain)."""
    for n in ast.walk(e):
        if isinstance(n, (ast.Call, ast.Await, ast.Yield, ast.YieldFrom, ast.NamedExpr, ast.Lambda, ast.ListComp, ast.SetComp, ast.DictComp, ast.GeneratorExp)):
            if isinstance(n, ast.Call) and isinstance(n.func, ast.Name) and n.func.id in ("len", "repr", "str", "int", "bool", "type", "id") and all(effect_free(a) for a in n.args) and not n.keywords:
                continue
            return False
    return True


def _swappable(a, b, local_names):
    def bare(e):
        # a constant, or a name no call can rebind (a local or parameter of this function or of a function nested in it)
        return isinstance(e, ast.Constant) or (isinstance(e, ast.Name) and e.id in local_names)
    return bare(a) or bare(b) or (effect_free(a) and effect_free(b))


def _local_and_param_names(fn):
    from . import alpha
    names = set(alpha.function_locals(fn))
    a = fn.args
    names |= set(x.arg for x in a.posonlyargs + a.args + a.kwonlyargs)
    if a.vararg:
        names.add(a.vararg.arg)
    if a.kwarg:
        names.add(a.kwarg.arg)
    glob = set()
    for n in ast.walk(fn):
        if isinstance(n, ast.arg):
            names.add(n.arg)
        elif isinstance(n, (ast.Global, ast.Nonlocal)):
            glob |= set(n.names)
    return names - glob


def compares_of(fn):
    out = []
    for n in ast.walk(fn):
        if isinstance(n, ast.Compare) and len(n.ops) == 1 and type(n.ops[0]) in _FLIP:
            out.append([_u(n.left), _u(n.comparators[0])])
    return out


def is_log_stmt(st):
    if not (isinstance(st, ast.Expr) and isinstance(st.value, ast.Call) and isinstance(st.value.func, ast.Attribute)):
        return False
    c = st.value
    if c.func.attr not in LOGGER_METHODS:
        return False
    # the receiver: names / attributes, or a getLogger(...) chain
    r = c.func.value
    while True:
        if isinstance(r, ast.Attribute):
            r = r.value
        elif isinstance(r, ast.Call) and ((isinstance(r.func, ast.Attribute) and r.func.attr in ("getLogger", "get_logger")) or
                                          (isinstance(r.func, ast.Name) and r.func.id in ("__import__", "getLogger", "get_logger"))):
            if not all(isinstance(a, ast.Constant) for a in r.args):
                return False
            r = r.func.value if isinstance(r.func, ast.Attribute) else None
            if r is None:
                break
        elif isinstance(r, ast.Name):
            break
        else:
            return False
    return all(effect_free(a) for a in c.args) and all(effect_free(k.value) for k in c.keywords)


def log_texts(fn):
    return sorted(set(_u(st) for st in ast.walk(fn) if isinstance(st, ast.stmt) and is_log_stmt(st)))


def _terminates(stmts):
    return bool(stmts) and isinstance(stmts[-1], (ast.Return, ast.Raise, ast.Continue, ast.Break))


def if_shapes(fn):
    """{test text: 'else' | 'plain' | 'mixed'} for ifs whose body ends in a terminator (an `elif` is an else arm)."""
    out = {}
    for n in ast.walk(fn):
        if isinstance(n, ast.If) and _terminates(n.body):
            k = _u(n.test)
            v = "else" if n.orelse else "plain"
            out[k] = v if out.get(k, v) == v else "mixed"
    return out


def _blocks(node):
    for field in ("body", "orelse", "finalbody"):
        v = getattr(node, field, None)
        if isinstance(v, list) and v and isinstance(v[0], ast.stmt):
            yield node, field, v
    if isinstance(node, ast.Try):
        for h in node.handlers:
            yield h, "body", h.body
    if hasattr(ast, "Match") and isinstance(node, ast.Match):
        for c in node.cases:
            yield c, "body", c.body


def _all_blocks(fn):
    for n in ast.walk(fn):
        if isinstance(n, (ast.stmt, ast.ExceptHandler)) or (hasattr(ast, "match_case") and isinstance(n, ast.match_case)):
            for owner, field, v in _blocks(n):
                yield owner, field, v


_table = None


def table():
    global _table
    if _table is None:
        try:
            with open(TABLE) as fh:
                _table = json.load(fh)
        except (IOError, ValueError):
            _table = {}
    return _table


def entry_for(fn):
    return {"cmp": compares_of(fn), "logs": log_texts(fn), "ifs": if_shapes(fn)}


def n2_strip_logging(fn, ent):
    keep = set(ent.get("logs", ()))
    n = 0
    for owner, field, v in list(_all_blocks(fn)):
        new = [st for st in v if not (is_log_stmt(st) and _u(st) not in keep)]
        if len(new) != len(v):
            n += len(v) - len(new)
            if not new:
                new = [ast.copy_location(ast.Pass(), v[0])]
            setattr(owner, field, new)
    return n


def n3_inline_return_temps(fn, ent, ref_locals):
    loads = {}
    stores = {}
    for x in ast.walk(fn):
        if isinstance(x, ast.Name):
            (loads if isinstance(x.ctx, ast.Load) else stores).setdefault(x.id, []).append(x)
    cand = {}
    for owner, field, v in _all_blocks(fn):
        for i in range(len(v) - 1):
            a, b = v[i], v[i + 1]
            if (isinstance(a, ast.Assign) and len(a.targets) == 1 and isinstance(a.targets[0], ast.Name) and isinstance(b, ast.Return)
                    and isinstance(b.value, ast.Name) and b.value.id == a.targets[0].id):
                cand.setdefault(a.targets[0].id, []).append((owner, field, a, b))
    n = 0
    from . import alpha
    mine = set(alpha.function_locals(fn))
    for name, pairs in cand.items():
        if name in ref_locals or name not in mine:
            continue
        if len(loads.get(name, [])) != len(pairs) or len(stores.get(name, [])) != len(pairs):
            continue      # read or written somewhere else as well
        for owner, field, a, b in pairs:
            v = getattr(owner, field)
            b.value = a.value
            v.remove(a)
            n += 1
    return n


def n1_orient_compares(fn, ent):
    ref = set(tuple(p) for p in ent.get("cmp", ()))
    if not ref:
        return 0
    names = _local_and_param_names(fn)
    n = 0
    for c in ast.walk(fn):
        if isinstance(c, ast.Compare) and len(c.ops) == 1 and type(c.ops[0]) in _FLIP:
            l, r = _u(c.left), _u(c.comparators[0])
            if (l, r) in ref or (r, l) not in ref or l == r:
                continue
            if not _swappable(c.left, c.comparators[0], names):
                continue
            c.left, c.comparators[0] = c.comparators[0], c.left
            c.ops[0] = _FLIP[type(c.ops[0])]()
            n += 1
    return n


def n4_align_else(fn, ent):
    shapes = ent.get("ifs", {})
    n = 0
    changed = True
    while changed:
        changed = False
        for owner, field, v in list(_all_blocks(fn)):
            for i, st in enumerate(v):
                if not (isinstance(st, ast.If) and _terminates(st.body)):
                    continue
                want = shapes.get(_u(st.test))
                if want == "plain" and st.orelse:
                    rest = st.orelse
                    st.orelse = []
                    v[i + 1:i + 1] = rest
                    n += 1
                    changed = True
                    break
                if want == "else" and not st.orelse and i + 1 < len(v):
                    st.orelse = v[i + 1:]
                    del v[i + 1:]
                    n += 1
                    changed = True
                    break
            if changed:
                break
    return n


def canonicalise(tree, modname, stage="post"):
    """stage "pre" (before alpha-normalisation): N2, N3; stage "post" (canonical local names in place): N1, N4."""
    from . import alpha
    tab = table()
    done = []
    if not tab:
        return done
    atab = alpha.table()
    for q, fn in alpha.functions_of(tree, modname):
        ent = tab.get(q)
        if ent is None:
            continue
        if stage == "pre":
            ref_locals = set((atab.get(q) or {}).get("names", ()))
            ks = {"N2": n2_strip_logging(fn, ent), "N3": n3_inline_return_temps(fn, ent, ref_locals)}
        else:
            ks = {"N1": n1_orient_compares(fn, ent)}
            ks["N4"] = n4_align_else(fn, ent)
        if any(ks.values()):
            done.append((q, ks))
    if done:
        ast.fix_missing_locations(tree)
    return done
