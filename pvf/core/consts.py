"""E2 - constant folder for module-level and class-level tables.

Evaluates *constant initialisers only*.  Anything outside the grammar becomes
``Sym(text)`` (a symbolic, opaque value that still compares equal to the same
text) - never guessed.  Nothing from /repo is imported or executed: the folder
interprets the AST itself.
"""
import ast
import struct
from .model import AnalysisError, unparse, dotted


class Sym(object):
    """Opaque symbolic value (e.g. ``algorithms.AES``)."""

    def __init__(self, text):
        self.text = text

    def __eq__(self, o):
        return isinstance(o, Sym) and o.text == self.text

    def __ne__(self, o):
        return not self.__eq__(o)

    def __hash__(self):
        return hash(("Sym", self.text))

    def __repr__(self):
        return "Sym(%s)" % self.text


def is_sym(v):
    return isinstance(v, Sym)


class Folder(object):
    def __init__(self, prog):
        self.prog = prog
        self.mod_env = {}   # module -> {name: value}
        self.cls_env = {}   # class -> {name: value}
        self._busy = set()

    # -- environments ---------------------------------------------------------
    def module_env(self, modname):
        if modname in self.mod_env:
            return self.mod_env[modname]
        env = {}
        self.mod_env[modname] = env
        if modname not in self.prog.modules:
            return env
        m = self.prog.modules[modname]
        self._exec_block(m.tree.body, env, m, None)
        return env

    def class_env(self, clsname):
        if clsname in self.cls_env:
            return self.cls_env[clsname]
        env = {}
        self.cls_env[clsname] = env
        for c in reversed(self.prog.mro(clsname)):
            self._exec_block(c.node.body, env, c.module, c)
        return env

    def name(self, modname, name):
        """Value of a module-level name, following paramiko-internal imports."""
        env = self.module_env(modname)
        if name in env:
            return env[name]
        m = self.prog.modules.get(modname)
        if m is not None and name in m.imports:
            src, orig = m.imports[name]
            if src.startswith("paramiko."):
                sub = src.split(".", 1)[1]
                if orig is not None and sub in self.prog.modules:
                    if (sub, orig) in self._busy:
                        return Sym(name)
                    self._busy.add((sub, orig))
                    try:
                        return self.name(sub, orig)
                    finally:
                        self._busy.discard((sub, orig))
            elif src == "paramiko" and orig in self.prog.modules:
                return Sym("module:" + orig)
        if name in self.prog.classes:
            return Sym("class:" + name)
        return Sym(name)

    # -- statements --------------------------------------------------------------
    def _exec_block(self, body, env, mod, cls):
        for st in body:
            self._exec(st, env, mod, cls)

    def _exec(self, st, env, mod, cls):
        if isinstance(st, ast.Assign):
            v = self.eval(st.value, env, mod, cls)
            for t in st.targets:
                self._bind(t, v, env, mod, cls)
        elif isinstance(st, ast.AnnAssign) and st.value is not None:
            self._bind(st.target, self.eval(st.value, env, mod, cls), env, mod, cls)
        elif isinstance(st, ast.AugAssign) and isinstance(st.target, ast.Name):
            cur = env.get(st.target.id, Sym(st.target.id))
            v = self.eval(st.value, env, mod, cls)
            env[st.target.id] = self._binop(st.op, cur, v, st)
        elif isinstance(st, ast.For):
            it = self.eval(st.iter, env, mod, cls)
            if isinstance(it, (list, tuple, dict, range, set, frozenset)):
                for item in list(it):
                    self._bind(st.target, item, env, mod, cls)
                    self._exec_block(st.body, env, mod, cls)
        elif isinstance(st, ast.If):
            t = self.eval(st.test, env, mod, cls)
            if is_sym(t):
                # keep both arms (later assignments win) - used for optional
                # algorithms guarded by availability tests
                self._exec_block(st.orelse, env, mod, cls)
                self._exec_block(st.body, env, mod, cls)
            elif t:
                self._exec_block(st.body, env, mod, cls)
            else:
                self._exec_block(st.orelse, env, mod, cls)
        elif isinstance(st, ast.Try):
            self._exec_block(st.body, env, mod, cls)
        elif isinstance(st, ast.Expr):
            # method calls that mutate tables:  X.update({...}) / X.append(..)
            c = st.value
            if isinstance(c, ast.Call) and isinstance(c.func, ast.Attribute) \
                    and isinstance(c.func.value, ast.Name):
                tgt = env.get(c.func.value.id)
                args = [self.eval(a, env, mod, cls) for a in c.args]
                try:
                    if c.func.attr == "update" and isinstance(tgt, dict) \
                            and len(args) == 1 and isinstance(args[0], dict):
                        tgt.update(args[0])
                    elif c.func.attr == "append" and isinstance(tgt, list):
                        tgt.append(args[0])
                    elif c.func.attr == "extend" and isinstance(tgt, list):
                        tgt.extend(args[0])
                except Exception:
                    pass

    def _bind(self, t, v, env, mod, cls):
        if isinstance(t, ast.Name):
            env[t.id] = v
        elif isinstance(t, (ast.Tuple, ast.List)):
            try:
                vals = list(v)
            except Exception:
                vals = None
            if vals is None or len(vals) != len(t.elts):
                for e in t.elts:
                    self._bind(e, Sym(unparse(e)), env, mod, cls)
            else:
                for e, x in zip(t.elts, vals):
                    self._bind(e, x, env, mod, cls)
        elif isinstance(t, ast.Subscript) and isinstance(t.value, ast.Name):
            tgt = env.get(t.value.id)
            k = self.eval(t.slice, env, mod, cls)
            if isinstance(tgt, dict) and not is_sym(k):
                try:
                    tgt[k] = v
                except TypeError:
                    pass

    # -- expressions ----------------------------------------------------------------
    def eval(self, e, env=None, mod=None, cls=None):
        env = env if env is not None else {}
        try:
            return self._eval(e, env, mod, cls)
        except RecursionError:
            raise
        except AnalysisError:
            raise
        except Exception:
            return Sym(unparse(e))

    def _lookup(self, name, env, mod, cls):
        if name in env:
            return env[name]
        if cls is not None:
            ce = self.cls_env.get(cls.name)
            if ce is not None and name in ce:
                return ce[name]
        if mod is not None:
            me = self.mod_env.get(mod.name)
            if me is not None and me is not env and name in me:
                return me[name]
            return self.name(mod.name, name)
        return Sym(name)

    def _eval(self, e, env, mod, cls):
        if isinstance(e, ast.Constant):
            return e.value
        if isinstance(e, ast.Name):
            if e.id in ("True", "False", "None"):
                return {"True": True, "False": False, "None": None}[e.id]
            return self._lookup(e.id, env, mod, cls)
        if isinstance(e, ast.Attribute):
            base = self._eval(e.value, env, mod, cls)
            if is_sym(base):
                if base.text.startswith("class:"):
                    cn = base.text[6:]
                    ce = self.class_env(cn)
                    if e.attr in ce:
                        return ce[e.attr]
                    return Sym(cn + "." + e.attr)
                if base.text.startswith("module:"):
                    return self.name(base.text[7:], e.attr)
                return Sym(base.text + "." + e.attr)
            return Sym(unparse(e))
        if isinstance(e, ast.Tuple):
            return tuple(self._eval(x, env, mod, cls) for x in e.elts)
        if isinstance(e, ast.List):
            return [self._eval(x, env, mod, cls) for x in e.elts]
        if isinstance(e, ast.Set):
            return set(self._eval(x, env, mod, cls) for x in e.elts)
        if isinstance(e, ast.Dict):
            d = {}
            for k, v in zip(e.keys, e.values):
                if k is None:
                    sub = self._eval(v, env, mod, cls)
                    if isinstance(sub, dict):
                        d.update(sub)
                    continue
                kk = self._eval(k, env, mod, cls)
                d[kk] = self._eval(v, env, mod, cls)
            return d
        if isinstance(e, ast.UnaryOp):
            v = self._eval(e.operand, env, mod, cls)
            if is_sym(v):
                return Sym(unparse(e))
            if isinstance(e.op, ast.USub):
                return -v
            if isinstance(e.op, ast.Not):
                return not v
            if isinstance(e.op, ast.Invert):
                return ~v
            return v
        if isinstance(e, ast.BinOp):
            a = self._eval(e.left, env, mod, cls)
            b = self._eval(e.right, env, mod, cls)
            return self._binop(e.op, a, b, e)
        if isinstance(e, ast.BoolOp):
            vals = [self._eval(v, env, mod, cls) for v in e.values]
            if any(is_sym(v) for v in vals):
                return Sym(unparse(e))
            if isinstance(e.op, ast.And):
                r = True
                for v in vals:
                    r = v
                    if not v:
                        break
                return r
            r = False
            for v in vals:
                r = v
                if v:
                    break
            return r
        if isinstance(e, ast.Compare) and len(e.ops) == 1:
            a = self._eval(e.left, env, mod, cls)
            b = self._eval(e.comparators[0], env, mod, cls)
            if is_sym(a) or is_sym(b):
                return Sym(unparse(e))
            op = e.ops[0]
            table = {ast.Eq: lambda: a == b, ast.NotEq: lambda: a != b,
                     ast.Lt: lambda: a < b, ast.LtE: lambda: a <= b,
                     ast.Gt: lambda: a > b, ast.GtE: lambda: a >= b,
                     ast.In: lambda: a in b, ast.NotIn: lambda: a not in b,
                     ast.Is: lambda: a is b, ast.IsNot: lambda: a is not b}
            return table[type(op)]()
        if isinstance(e, ast.Subscript):
            base = self._eval(e.value, env, mod, cls)
            if isinstance(e.slice, ast.Slice):
                lo = self._eval(e.slice.lower, env, mod, cls) if e.slice.lower else None
                hi = self._eval(e.slice.upper, env, mod, cls) if e.slice.upper else None
                if is_sym(base) or is_sym(lo) or is_sym(hi):
                    return Sym(unparse(e))
                return base[lo:hi]
            k = self._eval(e.slice, env, mod, cls)
            if is_sym(base) or is_sym(k):
                return Sym(unparse(e))
            return base[k]
        if isinstance(e, ast.IfExp):
            t = self._eval(e.test, env, mod, cls)
            if is_sym(t):
                return Sym(unparse(e))
            return self._eval(e.body if t else e.orelse, env, mod, cls)
        if isinstance(e, (ast.ListComp, ast.GeneratorExp, ast.SetComp)):
            return self._comp(e, env, mod, cls)
        if isinstance(e, ast.DictComp):
            out = {}
            for sub in self._comp_envs(e.generators, env, mod, cls):
                out[self._eval(e.key, sub, mod, cls)] = self._eval(e.value, sub, mod, cls)
            return out
        if isinstance(e, ast.Call):
            return self._call(e, env, mod, cls)
        if isinstance(e, ast.JoinedStr):
            parts = []
            for v in e.values:
                if isinstance(v, ast.Constant):
                    parts.append(str(v.value))
                elif isinstance(v, ast.FormattedValue) and v.format_spec is None and v.conversion == -1:
                    x = self._eval(v.value, env, mod, cls)
                    if is_sym(x) or not isinstance(x, (str, int)):
                        return Sym(unparse(e))
                    parts.append(str(x))
                else:
                    return Sym(unparse(e))
            return "".join(parts)
        return Sym(unparse(e))

    def _comp_envs(self, gens, env, mod, cls):
        def rec(i, cur):
            if i == len(gens):
                yield cur
                return
            g = gens[i]
            it = self._eval(g.iter, cur, mod, cls)
            if is_sym(it):
                raise ValueError("symbolic iterable")
            for item in list(it):
                sub = dict(cur)
                self._bind(g.target, item, sub, mod, cls)
                ok = True
                for c in g.ifs:
                    t = self._eval(c, sub, mod, cls)
                    if is_sym(t):
                        raise ValueError("symbolic filter")
                    if not t:
                        ok = False
                        break
                if ok:
                    for r in rec(i + 1, sub):
                        yield r
        return rec(0, dict(env))

    def _comp(self, e, env, mod, cls):
        out = [self._eval(e.elt, sub, mod, cls)
               for sub in self._comp_envs(e.generators, env, mod, cls)]
        if isinstance(e, ast.SetComp):
            return set(out)
        return out

    def _binop(self, op, a, b, node):
        if is_sym(a) or is_sym(b):
            return Sym(unparse(node))
        t = type(op)
        if t is ast.Add:
            return a + b
        if t is ast.Sub:
            return a - b
        if t is ast.Mult:
            return a * b
        if t is ast.FloorDiv:
            return a // b
        if t is ast.Div:
            return a / b
        if t is ast.Mod:
            return a % b
        if t is ast.Pow:
            return a ** b
        if t is ast.LShift:
            return a << b
        if t is ast.RShift:
            return a >> b
        if t is ast.BitOr:
            return a | b
        if t is ast.BitAnd:
            return a & b
        if t is ast.BitXor:
            return a ^ b
        return Sym(unparse(node))

    def _call(self, e, env, mod, cls):
        fn = dotted(e.func)
        args = [self._eval(a, env, mod, cls) for a in e.args]
        kw = dict((k.arg, self._eval(k.value, env, mod, cls)) for k in e.keywords if k.arg)
        symbolic = any(is_sym(a) for a in args) or any(is_sym(v) for v in kw.values())
        pure = {"range": range, "len": len, "tuple": tuple, "list": list,
                "dict": dict, "set": set, "frozenset": frozenset, "max": max,
                "min": min, "pow": pow, "bytes": bytes, "int": int, "str": str,
                "sorted": sorted, "sum": sum, "abs": abs, "chr": chr, "ord": ord,
                "bool": bool, "zip": lambda *a: list(zip(*a)),
                "enumerate": lambda *a: list(enumerate(*a)),
                "reversed": lambda a: list(reversed(a))}
        if fn in pure and not symbolic:
            return pure[fn](*args, **kw)
        if fn == "byte_chr" and not symbolic:
            return struct.pack("B", args[0])
        if fn == "byte_ord" and not symbolic:
            return args[0] if isinstance(args[0], int) else ord(args[0])
        if fn == "byte_mask" and not symbolic:
            return struct.pack("B", args[0][0] & args[1] if isinstance(args[0], bytes) else ord(args[0]) & args[1])
        if fn == "struct.pack" and not symbolic:
            return struct.pack(*args)
        if fn == "struct.calcsize" and not symbolic:
            return struct.calcsize(*args)
        if fn in ("b", "util.b") and not symbolic and len(args) == 1 and isinstance(args[0], (str, bytes)):
            return args[0].encode("utf8") if isinstance(args[0], str) else args[0]
        if fn in ("u", "util.u") and not symbolic and len(args) == 1 and isinstance(args[0], (str, bytes)):
            return args[0].decode("utf8") if isinstance(args[0], bytes) else args[0]
        # methods on folded values
        if isinstance(e.func, ast.Attribute):
            base = self._eval(e.func.value, env, mod, cls)
            if not is_sym(base) and not symbolic:
                m = e.func.attr
                if isinstance(base, (str, bytes)) and m in (
                        "format", "join", "lower", "upper", "encode", "decode",
                        "split", "strip", "replace", "startswith", "endswith"):
                    return getattr(base, m)(*args, **kw)
                if isinstance(base, dict) and m in ("keys", "values", "items", "get", "copy"):
                    r = getattr(base, m)(*args)
                    return list(r) if m in ("keys", "values", "items") else r
                if isinstance(base, (list, tuple)) and m in ("index", "count", "copy"):
                    return getattr(base, m)(*args)
        return Sym(unparse(e))
