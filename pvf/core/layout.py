"""E4 - wire-layout extraction: the sequence of Message.add_* / get_* calls on
every path of a function, in Python *evaluation order* (right-hand side
before the sub-expressions of assignment targets; arguments left to right
before the call itself).

``func_events`` is a syntax-directed enumeration of event sequences with
de-duplication, so only branches that contain events multiply alternatives.
"""
import ast
from .model import AnalysisError, unparse, dotted

ADD = {"add_byte": "byte", "add_bytes": "bytes", "add_boolean": "boolean",
       "add_int": "uint32", "add_int64": "uint64", "add_adaptive_int": "adaptive",
       "add_mpint": "mpint", "add_string": "string", "add_list": "list",
       "add": "auto", "_add": "auto"}
GET = {"get_byte": "byte", "get_bytes": "bytes", "get_boolean": "boolean",
       "get_int": "uint32", "get_int64": "uint64", "get_adaptive_int": "adaptive",
       "get_mpint": "mpint", "get_string": "string", "get_binary": "string",
       "get_text": "string", "get_list": "list", "get_remainder": "remainder",
       "get_so_far": "so_far"}

FALL, RET, RAISE, BRK, CONT = "fall", "return", "raise", "break", "continue"


class Ev(tuple):
    """('add', var, kind, argtext) | ('get', var, kind, method) |
    ('new', var, argtext) | ('call', name, text) | ('cond', label, bool) |
    ('loop',) | ('endloop',)"""
    pass


def eval_order(node, visit):
    """Call visit(sub) for every sub-expression of ``node`` in evaluation
    order (post-order for calls: arguments first, then the call)."""
    if node is None:
        return
    if isinstance(node, list):
        for x in node:
            eval_order(x, visit)
        return
    if isinstance(node, ast.Call):
        # func expression's receiver first, then args, then the call itself
        if isinstance(node.func, ast.Attribute):
            eval_order(node.func.value, visit)
        else:
            eval_order(node.func, visit)
        for a in node.args:
            eval_order(a, visit)
        for k in node.keywords:
            eval_order(k.value, visit)
        visit(node)
        return
    if isinstance(node, (ast.Lambda, ast.FunctionDef, ast.ClassDef, ast.AsyncFunctionDef)):
        return
    if isinstance(node, ast.Assign):
        eval_order(node.value, visit)
        for t in node.targets:
            eval_order(t, visit)
        return
    if isinstance(node, ast.AugAssign):
        eval_order(node.target, visit)
        eval_order(node.value, visit)
        return
    if isinstance(node, ast.AnnAssign):
        eval_order(node.value, visit)
        eval_order(node.target, visit)
        return
    if isinstance(node, ast.Dict):
        for k, v in zip(node.keys, node.values):
            eval_order(k, visit)
            eval_order(v, visit)
        return
    if isinstance(node, (ast.ListComp, ast.SetComp, ast.GeneratorExp)):
        for g in node.generators:
            eval_order(g.iter, visit)
        visit(("loop",))
        for g in node.generators:
            for c in g.ifs:
                eval_order(c, visit)
        eval_order(node.elt, visit)
        visit(("endloop",))
        return
    if isinstance(node, ast.DictComp):
        for g in node.generators:
            eval_order(g.iter, visit)
        visit(("loop",))
        eval_order(node.key, visit)
        eval_order(node.value, visit)
        visit(("endloop",))
        return
    for ch in ast.iter_child_nodes(node):
        eval_order(ch, visit)


class Extractor(object):
    def __init__(self, calls_of_interest=None, cond_filter=None, max_alts=4000):
        """calls_of_interest(dotted name, call) -> label or None."""
        self.calls = calls_of_interest or (lambda name, call: None)
        self.cond_filter = cond_filter or (lambda test: None)
        self.max_alts = max_alts

    # events of one simple statement / expression --------------------------------
    def simple(self, node):
        evs = []

        def visit(x):
            if isinstance(x, tuple):
                evs.append(Ev(x))
                return
            if not isinstance(x, ast.Call):
                return
            f = x.func
            name = dotted(f)
            if isinstance(f, ast.Attribute):
                recv = unparse(f.value)
                if f.attr in ADD and isinstance(f.value, (ast.Name, ast.Attribute)):
                    if f.attr in ("add", "_add"):
                        for a in x.args:
                            evs.append(Ev(("add", recv, "auto", unparse(a), (a.lineno, a.col_offset))))
                    else:
                        evs.append(Ev(("add", recv, ADD[f.attr], unparse(x.args[0]) if x.args else "", (x.args[0].lineno, x.args[0].col_offset) if x.args else (x.lineno, x.col_offset))))
                    return
                if f.attr in GET and isinstance(f.value, (ast.Name, ast.Attribute)):
                    arg = unparse(x.args[0]) if x.args else ""
                    evs.append(Ev(("get", recv, GET[f.attr], f.attr + ("(%s)" % arg if arg else ""), (x.lineno, x.col_offset))))
                    return
            if name == "Message":
                par = getattr(x, "_parent", None)
                var = None
                if isinstance(par, ast.Assign) and len(par.targets) == 1:
                    var = unparse(par.targets[0])
                evs.append(Ev(("new", var, unparse(x.args[0]) if x.args else "")))
                return
            lab = self.calls(name, x)
            if lab is not None:
                evs.append(Ev(("call", lab, unparse(x)[:200])))

        eval_order(node, visit)
        return evs

    # blocks ---------------------------------------------------------------------------
    def block(self, stmts):
        alts = [((), FALL)]
        for st in stmts:
            nxt = {}
            cont = [a for a in alts if a[1] == FALL]
            done = [a for a in alts if a[1] != FALL]
            for a in done:
                nxt[a] = 1
            if cont:
                sub = self.stmt(st)
                for (e1, _) in cont:
                    c1 = dict((ev[1], ev[2]) for ev in e1 if ev[0] == "cond")
                    for (e2, k2) in sub:
                        if c1 and any(ev[0] == "cond" and ev[1] in c1 and c1[ev[1]] != ev[2] for ev in e2):
                            continue  # contradictory valuation of one flag
                        nxt[(e1 + e2, k2)] = 1
                        if len(nxt) > self.max_alts:
                            raise AnalysisError("layout", "too many alternatives")
            alts = list(nxt)
        return alts

    def stmt(self, st):
        if isinstance(st, ast.If):
            pre = tuple(self.simple(st.test))
            lab = self.cond_filter(st.test)
            out = {}
            for arm, val in ((st.body, True), (st.orelse, False)):
                tag = (Ev(("cond", lab, val)),) if lab is not None else ()
                for (e, k) in self.block(arm):
                    out[(pre + tag + e, k)] = 1
            return list(out)
        if isinstance(st, (ast.For, ast.While)):
            pre = tuple(self.simple(st.iter if isinstance(st, ast.For) else st.test))
            body = self.block(st.body)
            out = {(pre, FALL): 1}
            broken = {}
            for (e, k) in body:
                if k in (FALL, CONT):
                    seq = pre + (Ev(("loop",)),) + e + (Ev(("endloop",)),)
                    out[(seq if e else pre, FALL)] = 1
                elif k == BRK:
                    seq = pre + (Ev(("loop",)),) + e + (Ev(("endloop",)),)
                    broken[(seq if e else pre, FALL)] = 1
                else:
                    out[(pre + (Ev(("loop",)),) + e if e else pre, k)] = 1
            if st.orelse:
                res = {}
                for (e, k) in out:
                    if k == FALL:
                        for (e2, k2) in self.block(st.orelse):
                            res[(e + e2, k2)] = 1
                    else:
                        res[(e, k)] = 1
                res.update(broken)      # a `break` skips the else clause
                return list(res)
            out.update(broken)
            return list(out)
        if isinstance(st, ast.Try):
            body = self.block(st.body)
            out = {}
            for (e, k) in body:
                if k == FALL and st.orelse:
                    for (e2, k2) in self.block(st.orelse):
                        out[(e + e2, k2)] = 1
                else:
                    out[(e, k)] = 1
            for h in st.handlers:
                for (e, k) in self.block(h.body):
                    out[(e, k)] = 1          # exception before any body event
                    for (be, bk) in body:
                        if be:
                            out[(be + e, k)] = 1  # ... or after all of them
            if st.finalbody:
                res = {}
                fin = self.block(st.finalbody)
                for (e, k) in out:
                    for (e2, k2) in fin:
                        res[(e + e2, k if k2 == FALL else k2)] = 1
                return list(res)
            return list(out)
        if isinstance(st, ast.With):
            pre = ()
            for it in st.items:
                pre += tuple(self.simple(it.context_expr))
            return [(pre + e, k) for (e, k) in self.block(st.body)]
        if isinstance(st, ast.Return):
            evs = tuple(self.simple(st.value)) if st.value is not None else ()
            if st.value is not None:
                evs += (Ev(("ret", unparse(st.value))),)
            return [(evs, RET)]
        if isinstance(st, ast.Raise):
            return [(tuple(self.simple(st.exc)) if st.exc is not None else (), RAISE)]
        if isinstance(st, ast.Break):
            return [((), BRK)]
        if isinstance(st, ast.Continue):
            return [((), CONT)]
        if isinstance(st, (ast.FunctionDef, ast.ClassDef, ast.AsyncFunctionDef)):
            return [((), FALL)]
        if isinstance(st, ast.Assert):
            return [(tuple(self.simple(st.test)), FALL)]
        return [(tuple(self.simple(st)), FALL)]

    def function(self, fnode):
        return self.block(fnode.body)


def split_messages(events, var=None):
    """Group add-events into messages: a message starts at ('new', var, '')
    and collects the following ('add', var, ...) events.  Returns a list of
    dict(var, fields=[(kind, argtext)], events=[...following non-add events])."""
    msgs = []
    cur = {}
    for ev in events:
        if ev[0] == "new" and ev[2] == "" and (var is None or ev[1] == var):
            m = {"var": ev[1], "fields": [], "after": [], "pos": {}}
            msgs.append(m)
            cur[ev[1]] = m
        elif ev[0] == "add" and ev[1] in cur:
            cur[ev[1]]["fields"].append((ev[2], ev[3]))
            if len(ev) > 4:
                # position of the argument expression of the n-th real field
                n = len([f for f in cur[ev[1]]["fields"] if f[0] not in ("loop", "endloop")]) - 1
                cur[ev[1]]["pos"][n] = ev[4]
        elif ev[0] == "loop":
            for m in cur.values():
                m["fields"].append(("loop", ""))
                m["depth"] = m.get("depth", 0) + 1
        elif ev[0] == "endloop":
            for m in cur.values():
                if m.get("depth", 0) > 0:
                    m["fields"].append(("endloop", ""))
                    m["depth"] -= 1
        elif ev[0] == "call":
            for m in cur.values():
                m["after"].append(ev)
    # strip empty loop markers
    for m in msgs:
        f = m["fields"]
        changed = True
        while changed:
            changed = False
            for i in range(len(f) - 1):
                if f[i][0] == "loop" and f[i + 1][0] == "endloop":
                    del f[i:i + 2]
                    changed = True
                    break
        while f and f[-1][0] in ("loop",):
            f.pop()
    return msgs


def read_events(events, var):
    """[(kind, method, pos)] for get-events on ``var`` in order."""
    return [(ev[2], ev[3], ev[4] if len(ev) > 4 else None)
            for ev in events if ev[0] == "get" and ev[1] == var]


def reads(events, var):
    """[(kind, method)] for get-events on ``var`` (loop markers kept)."""
    out = []
    for ev in events:
        if ev[0] == "get" and ev[1] == var:
            out.append((ev[2], ev[3]))
        elif ev[0] in ("loop", "endloop"):
            out.append((ev[0], ""))
    changed = True
    while changed:
        changed = False
        for i in range(len(out) - 1):
            if out[i][0] == "loop" and out[i + 1][0] == "endloop":
                del out[i:i + 2]
                changed = True
                break
    return out
